"""Shadow (dense reference) of block-sparse tensors + the C01/C02/C03 monitors.

A Slot pairs the real npc.Array with the harness-owned prediction:
  dense  : ndarray              labels : list          qtotal : int64[nq]
  legs   : list of SLeg(qflat int64[n,nq] | None, qconj, pipe)
`qflat is None` means "charge gauge not predicted" (then only the charge rule on the dense data is checked).
`pipe` (for legs made by combine_legs) = dict(sub=[SLeg...], map=ndarray of sub-shape -> combined index).
"""
import numpy as np

from . import gen


class SLeg:
    __slots__ = ('qflat', 'qconj', 'pipe')

    def __init__(self, qflat, qconj, pipe=None):
        self.qflat = qflat
        self.qconj = int(qconj)
        self.pipe = pipe

    @property
    def n(self):
        return self.qflat.shape[0]

    def conj(self):
        pipe = None
        if self.pipe is not None:
            pipe = {'sub': [s.conj() for s in self.pipe['sub']], 'map': self.pipe['map']}
        return SLeg(self.qflat, -self.qconj, pipe)

    def plain(self):
        return SLeg(self.qflat, self.qconj, None)

    @classmethod
    def from_leg(cls, leg):
        return cls(gen.leg_qflat(leg), leg.qconj, None)


class Slot:
    def __init__(self, arr, dense, labels, legs, qtotal, origin=''):
        self.arr = arr
        self.dense = np.array(dense)
        self.labels = list(labels)
        self.legs = list(legs)
        self.qtotal = np.array(qtotal, dtype=np.int64)
        self.origin = origin

    @property
    def ndim(self):
        return self.dense.ndim

    @property
    def shape(self):
        return self.dense.shape


def tol_for(dtype):
    dt = np.dtype(dtype)
    if dt in (np.dtype('float32'), np.dtype('complex64')):
        return 3e-4
    return 1e-10


class Mismatch(Exception):
    def __init__(self, kind, what):
        super().__init__(what)
        self.kind = kind
        self.what = what


def compare_slot(slot, mod, single=False):
    """C01 oracle: the real array must agree with the shadow. Raises Mismatch(kind, what)."""
    a = slot.arr
    exp = slot.dense
    got = a.to_ndarray()
    if got.shape != exp.shape:
        raise Mismatch('shape', 'shape %s expected %s' % (got.shape, exp.shape))
    if a.shape != exp.shape or a.rank != exp.ndim:
        raise Mismatch('shape-attr', 'Array.shape %s expected %s' % (a.shape, exp.shape))
    if got.dtype != np.dtype(a.dtype):
        raise Mismatch('dtype-dense', 'to_ndarray dtype %s but Array.dtype %s' % (got.dtype, a.dtype))
    # dtype: tenpy documents that the dtype may change "if necessary" and derives it from the stored blocks only,
    # so only value-level agreement is demanded (a real result for complex data fails the value comparison).
    if got.dtype != exp.dtype:
        cast_ok = not (exp.dtype.kind == 'c' and got.dtype.kind != 'c' and np.any(exp.imag != 0))
        if cast_ok:
            with np.errstate(all='ignore'):
                expc = exp.astype(got.dtype) if not (exp.dtype.kind == 'c' and got.dtype.kind != 'c') else exp.real.astype(got.dtype)
            if exp.dtype.kind in 'iub' or got.dtype.kind in 'iub':
                if np.array_equal(expc.astype(np.complex128), exp.astype(np.complex128)):
                    slot.dense = exp = expc
            else:
                slot.dense = exp = expc
    if exp.size:
        if exp.dtype.kind in 'iub' and got.dtype.kind in 'iub':
            bad = not np.array_equal(got, exp)
        else:
            scale = max(1.0, float(np.max(np.abs(exp))))
            bad = not np.all(np.abs(got - exp) <= (3e-4 if single else tol_for(exp.dtype)) * scale)
        if bad:
            idx = np.unravel_index(np.argmax(np.abs(got.astype(complex) - exp.astype(complex))), exp.shape)
            raise Mismatch('value', 'max deviation at %s: got %r expected %r' % (idx, got[idx], exp[idx]))
    labels = a.get_leg_labels()
    if list(labels) != list(slot.labels) and getattr(slot, 'qmark_ok', False):
        # combine_legs with a transposition renames unlabeled legs '?#' (documented only for pipe labels): accept
        if len(labels) == len(slot.labels) and all(
                g == e or (e is None and isinstance(g, str) and g.startswith('?')) for g, e in zip(labels, slot.labels)):
            slot.labels = list(labels)
    if list(labels) != list(slot.labels):
        raise Mismatch('labels', 'labels %r expected %r' % (labels, slot.labels))
    qt = np.asarray(a.qtotal)
    if qt.shape != slot.qtotal.shape or not np.array_equal(gen.mod_valid(qt, mod), gen.mod_valid(slot.qtotal, mod)):
        raise Mismatch('qtotal', 'qtotal %r expected %r' % (qt.tolist(), slot.qtotal.tolist()))
    if not np.array_equal(qt, gen.mod_valid(qt, mod)):
        raise Mismatch('qtotal-not-normalised', 'qtotal %r not reduced mod %r' % (qt.tolist(), mod))
    qfl = []
    for i, (leg, sl) in enumerate(zip(a.legs, slot.legs)):
        q = np.asarray(leg.to_qflat()).reshape(leg.ind_len, len(mod))
        qfl.append(q)
        if sl.qflat is None:
            continue
        if leg.qconj != sl.qconj:
            raise Mismatch('leg-qconj', 'leg %d qconj %d expected %d' % (i, leg.qconj, sl.qconj))
        if q.shape != sl.qflat.shape or not np.array_equal(gen.mod_valid(q, mod), gen.mod_valid(sl.qflat, mod)):
            raise Mismatch('leg-charges', 'leg %d flat charges %r expected %r' % (i, q.tolist(), sl.qflat.tolist()))
    # charge rule on the dense data with the *observed* legs/qtotal (model free)
    if exp.size and len(mod):
        mask = gen.charge_mask(qfl, [l.qconj for l in a.legs], qt, mod)
        t = (3e-4 if single else tol_for(exp.dtype)) * max(1.0, float(np.max(np.abs(exp)))) if exp.dtype.kind not in 'iub' else 0
        viol = (np.abs(got) > t) & ~mask
        if np.any(viol):
            idx = tuple(int(x) for x in np.argwhere(viol)[0])
            raise Mismatch('charge-rule', 'entry %s = %r violates the charge rule of the result legs' % (idx, got[idx]))


# ------------------------------------------------------------------------------------------------
# C02: strict invariant monitor
# ------------------------------------------------------------------------------------------------
def leg_invariants(leg, where, out):
    from tenpy.linalg.charges import LegPipe
    sl = np.asarray(leg.slices)
    ch = np.asarray(leg.charges)
    nq = leg.chinfo.qnumber
    mod = [int(m) for m in leg.chinfo.mod]
    if sl.ndim != 1 or ch.ndim != 2 or ch.shape != (len(sl) - 1, nq):
        out.append(('leg-shapes', '%s: slices %s charges %s' % (where, sl.shape, ch.shape)))
        return
    if sl[0] != 0 or np.any(sl[1:] < sl[:-1]):
        out.append(('leg-slices-not-monotone', '%s: %r' % (where, sl.tolist())))
    if len(sl) > 1 and np.any(sl[1:] == sl[:-1]):
        out.append(('leg-empty-block', '%s: %r' % (where, sl.tolist())))
    if leg.ind_len != sl[-1] or leg.block_number != len(sl) - 1:
        out.append(('leg-cached-lengths', '%s: ind_len %r block_number %r slices %r' %
                    (where, leg.ind_len, leg.block_number, sl.tolist())))
    if not np.array_equal(ch, gen.mod_valid(ch, mod)):
        out.append(('leg-charges-not-normalised', '%s: %r mod %r' % (where, ch.tolist(), mod)))
    if leg.qconj not in (1, -1):
        out.append(('leg-qconj', '%s: %r' % (where, leg.qconj)))
    # cached claims
    truly_sorted = True
    if len(ch) > 1 and nq:
        keys = [tuple(c[::-1]) for c in ch.tolist()]
        truly_sorted = all(keys[i] <= keys[i + 1] for i in range(len(keys) - 1))
    truly_bunched = not (len(ch) > 1 and np.any(np.all(ch[1:] == ch[:-1], axis=1)))
    if leg.sorted and not truly_sorted:
        out.append(('leg-false-sorted-claim', '%s: sorted=True but charges %r' % (where, ch.tolist())))
    if leg.bunched and not truly_bunched:
        out.append(('leg-false-bunched-claim', '%s: bunched=True but charges %r' % (where, ch.tolist())))
    try:
        uniq = len(set(map(tuple, ch.tolist()))) == len(ch)
        if bool(leg.is_blocked()) != uniq and (leg.sorted and leg.bunched):
            out.append(('leg-is_blocked-wrong', '%s: is_blocked()=%r unique=%r' % (where, leg.is_blocked(), uniq)))
        if bool(leg.is_sorted()) != truly_sorted:
            out.append(('leg-is_sorted-wrong', '%s: is_sorted()=%r' % (where, leg.is_sorted())))
        if bool(leg.is_bunched()) != truly_bunched:
            out.append(('leg-is_bunched-wrong', '%s: is_bunched()=%r' % (where, leg.is_bunched())))
    except Exception as e:
        out.append(('leg-predicates-raise', '%s: %r' % (where, e)))
    if isinstance(leg, LegPipe):
        pipe_invariants(leg, where, out)


def pipe_invariants(p, where, out):
    mod = [int(m) for m in p.chinfo.mod]
    qm = np.asarray(p.q_map)
    nl = p.nlegs
    if len(p.legs) != nl or qm.ndim != 2 or qm.shape[1] != 3 + nl:
        out.append(('pipe-shapes', '%s: q_map %s nlegs %d' % (where, qm.shape, nl)))
        return
    subq = tuple(l.block_number for l in p.legs)
    if tuple(p.subqshape) != subq or tuple(p.subshape) != tuple(l.ind_len for l in p.legs):
        out.append(('pipe-subshape', '%s' % where))
    nrows = int(np.prod(subq)) if subq else 1
    if qm.shape[0] != nrows:
        out.append(('pipe-qmap-rows', '%s: %d rows expected %d' % (where, qm.shape[0], nrows)))
        return
    if nrows == 0:
        return
    # every combination of incoming blocks exactly once
    combos = set(map(tuple, qm[:, 3:].tolist()))
    if len(combos) != nrows:
        out.append(('pipe-qmap-duplicate-rows', '%s' % where))
    # rows sorted by (I_s, i_1, ..., i_n) (lexicographic with I_s most significant)
    keys = [tuple([r[2]] + list(r[3:])) for r in qm.tolist()]
    if any(keys[i] > keys[i + 1] for i in range(len(keys) - 1)):
        out.append(('pipe-qmap-not-sorted', '%s' % where))
    sl = np.asarray(p.slices)
    sizes = [int(np.prod([int(l.slices[r[3 + j] + 1] - l.slices[r[3 + j]]) for j, l in enumerate(p.legs)]))
             for r in qm.tolist()]
    for r, size in zip(qm.tolist(), sizes):
        b, e, Is = r[0], r[1], r[2]
        if not (0 <= Is < p.block_number) or e - b != size or b < 0 or e > sl[Is + 1] - sl[Is]:
            out.append(('pipe-qmap-slices', '%s: row %r size %r' % (where, r, size)))
            break
        # fusion rule
        tot = np.zeros(len(mod), dtype=np.int64)
        for j, l in enumerate(p.legs):
            tot = tot + l.qconj * np.asarray(l.charges)[r[3 + j]]
        exp = gen.mod_valid(p.qconj * tot, mod)
        if not np.array_equal(exp, np.asarray(p.charges)[Is]):
            out.append(('pipe-fusion-rule', '%s: row %r fused %r pipe charge %r' %
                        (where, r, exp.tolist(), np.asarray(p.charges)[Is].tolist())))
            break
    # each outgoing block exactly tiled by its rows
    for Is in range(p.block_number):
        rows = qm[qm[:, 2] == Is]
        segs = sorted((int(a), int(b)) for a, b in rows[:, :2].tolist())
        pos = 0
        okk = True
        for a, b in segs:
            if a != pos:
                okk = False
            pos = b
        if not okk or pos != sl[Is + 1] - sl[Is]:
            out.append(('pipe-block-tiling', '%s: block %d segments %r size %d' % (where, Is, segs, sl[Is + 1] - sl[Is])))
            break
    qms = np.asarray(p.q_map_slices)
    if qms[0] != 0 or qms[-1] != nrows or len(qms) != p.block_number + 1:
        out.append(('pipe-q_map_slices', '%s' % where))
    else:
        for Is in range(p.block_number):
            if not np.all(qm[qms[Is]:qms[Is + 1], 2] == Is):
                out.append(('pipe-q_map_slices', '%s: block %d' % (where, Is)))
                break
    if p._perm is not None and sorted(np.asarray(p._perm).tolist()) != list(range(nrows)):
        out.append(('pipe-perm-not-permutation', '%s' % where))


def array_invariants(a):
    """Strict recomputation of every storage invariant.  Returns list of (kind, what)."""
    from tenpy.tools import optimization
    out = []
    try:
        with optimization.temporary_level(0):
            a.test_sanity()
    except Exception as e:
        msg = str(e)
        out.append(('test_sanity:' + _san_kind(msg), 'test_sanity() raises %s: %s' % (type(e).__name__, msg[:300])))
    legs = a.legs
    mod = [int(m) for m in a.chinfo.mod]
    qd = np.asarray(a._qdata)
    if qd.ndim != 2 or qd.shape != (len(a._data), len(legs)):
        out.append(('qdata-shape', '_qdata %s for %d blocks rank %d' % (qd.shape, len(a._data), len(legs))))
        return out
    if qd.dtype != np.intp or not qd.flags['C_CONTIGUOUS']:
        out.append(('qdata-layout', '_qdata dtype %s C-contiguous %s' % (qd.dtype, qd.flags['C_CONTIGUOUS'])))
    if tuple(a.shape) != tuple(l.ind_len for l in legs) or a.rank != len(legs) or len(a._labels) != len(legs):
        out.append(('shape-cache', 'shape %r legs %r' % (a.shape, [l.ind_len for l in legs])))
    rows = list(map(tuple, qd.tolist()))
    if len(set(rows)) != len(rows):
        out.append(('duplicate-block', '_qdata rows %r' % rows))
    for row, blk in zip(rows, a._data):
        if any(not (0 <= qi < l.block_number) for qi, l in zip(row, legs)):
            out.append(('qindex-out-of-range', 'row %r' % (row, )))
            break
        shp = tuple(int(l.slices[qi + 1] - l.slices[qi]) for qi, l in zip(row, legs))
        if tuple(blk.shape) != shp:
            out.append(('block-shape', 'block %r shape %s expected %s' % (row, blk.shape, shp)))
            break
        if blk.dtype != a.dtype:
            out.append(('block-dtype', 'block dtype %s array dtype %s' % (blk.dtype, a.dtype)))
            break
        tot = np.zeros(len(mod), dtype=np.int64)
        for qi, l in zip(row, legs):
            tot = tot + l.qconj * np.asarray(l.charges)[qi]
        if not np.array_equal(gen.mod_valid(tot, mod), gen.mod_valid(np.asarray(a.qtotal), mod)):
            out.append(('block-violates-charge-rule', 'block %r charge %r qtotal %r' %
                        (row, gen.mod_valid(tot, mod).tolist(), np.asarray(a.qtotal).tolist())))
            break
    if a._qdata_sorted and len(rows) > 1:
        keys = [r[::-1] for r in rows]
        if any(keys[i] > keys[i + 1] for i in range(len(keys) - 1)):
            out.append(('false-qdata_sorted-claim', '_qdata_sorted=True but rows %r' % rows[:8]))
    seen = set()
    for i, l in enumerate(legs):
        if id(l) in seen:
            continue
        seen.add(id(l))
        if l.chinfo != a.chinfo:
            out.append(('leg-chinfo', 'leg %d' % i))
        leg_invariants(l, 'leg %d' % i, out)
    labs = [x for x in a._labels if x is not None]
    if len(set(labs)) != len(labs):
        out.append(('duplicate-labels', '%r' % a._labels))
    return out


def _san_kind(msg):
    m = msg.lower()
    for key, kind in [('c-contiguous', 'qdata-not-c-contiguous'), ('not c', 'qdata-not-c-contiguous'),
                      ('sorted', 'sorted-claim'), ('bunched', 'bunched-claim'), ('charge', 'charge'),
                      ('shape', 'shape'), ('dtype', 'dtype'), ('label', 'label'), ('duplicate', 'duplicate')]:
        if key in m:
            return kind
    return 'other'


# ------------------------------------------------------------------------------------------------
# C03: fingerprints
# ------------------------------------------------------------------------------------------------
def leg_fingerprint(leg):
    from tenpy.linalg.charges import LegPipe
    fp = (type(leg).__name__, leg.ind_len, leg.block_number, int(leg.qconj), bool(leg.sorted), bool(leg.bunched),
          np.asarray(leg.slices).tobytes(), np.asarray(leg.charges).tobytes(),
          tuple(int(m) for m in leg.chinfo.mod), tuple(leg.chinfo.names))
    if isinstance(leg, LegPipe):
        fp = fp + (np.asarray(leg.q_map).tobytes(), np.asarray(leg.q_map_slices).tobytes(),
                   tuple(leg_fingerprint(l) for l in leg.legs))
    return fp


def array_fingerprint(a):
    """Observable state of an Array (values, labels, qtotal, dtype, legs); storage order is not observable."""
    return (a.to_ndarray().tobytes(), str(a.dtype), tuple(a.shape), tuple(a._labels), np.asarray(a.qtotal).tobytes(),
            tuple(leg_fingerprint(l) for l in a.legs))


def live_objects(slots, extra_legs=()):
    """All distinct Arrays / legs (by identity) reachable from the slots."""
    from tenpy.linalg.charges import LegPipe
    arrs, legs, chinfos = {}, {}, {}

    def add_leg(l):
        if id(l) in legs:
            return
        legs[id(l)] = l
        chinfos[id(l.chinfo)] = l.chinfo
        if isinstance(l, LegPipe):
            for s in l.legs:
                add_leg(s)

    for s in slots:
        if s is None or s.arr is None:
            continue
        arrs[id(s.arr)] = s.arr
        for l in s.arr.legs:
            add_leg(l)
    for l in extra_legs:
        add_leg(l)
    return arrs, legs, chinfos


def snapshot(slots, extra_legs=()):
    arrs, legs, chinfos = live_objects(slots, extra_legs)
    snap = {'arr': {k: (a, array_fingerprint(a)) for k, a in arrs.items()},
            'leg': {k: (l, leg_fingerprint(l)) for k, l in legs.items()},
            'chinfo': {k: (c, (tuple(int(m) for m in c.mod), tuple(c.names))) for k, c in chinfos.items()}}
    return snap


def diff_snapshot(snap, allowed_arrays=()):
    """Compare a snapshot with the present state; returns list of (kind, what)."""
    out = []
    allowed = {id(a) for a in allowed_arrays}
    for k, (l, fp) in snap['leg'].items():
        try:
            now = leg_fingerprint(l)
        except Exception as e:
            out.append(('leg-unreadable', repr(e)))
            continue
        if now != fp:
            names = ['type', 'ind_len', 'block_number', 'qconj', 'sorted', 'bunched', 'slices', 'charges', 'mod', 'names',
                     'q_map', 'q_map_slices', 'sublegs']
            ch = [names[i] for i in range(min(len(fp), len(now))) if fp[i] != now[i]]
            out.append(('leg-mutated:' + '+'.join(ch), 'shared leg object changed: %s' % ch))
    for k, (c, fp) in snap['chinfo'].items():
        if (tuple(int(m) for m in c.mod), tuple(c.names)) != fp:
            out.append(('chinfo-mutated', 'ChargeInfo changed'))
    for k, (a, fp) in snap['arr'].items():
        if k in allowed:
            continue
        try:
            now = array_fingerprint(a)
        except Exception as e:
            out.append(('operand-unreadable', repr(e)[:200]))
            continue
        if now != fp:
            names = ['values', 'dtype', 'shape', 'labels', 'qtotal', 'legs']
            ch = [names[i] for i in range(len(fp)) if fp[i] != now[i]]
            out.append(('operand-mutated:' + '+'.join(ch), 'operand changed: %s' % ch))
    return out
