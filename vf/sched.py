"""Deterministic scheduler for tenpy.tools.thread (C20).

`queue` and `threading` in the namespace of ``tenpy.tools.thread`` are replaced by shims.  Every shim
call is a *sync point*: the calling thread posts its pending transition and the scheduler decides which
thread's transition fires next.  Exactly one tenpy thread runs at any time, so a schedule is a
sequence of choice indices and replays deterministically.

Timeouts (`get(timeout=1.0)`, `put(timeout=1.0)`) are served in virtual time: a timeout is a scheduling
choice, enabled (a) when nothing else is enabled, or (b) while "spurious timeout" credits remain.
"""
import threading as _threading
import queue as _queue


class Deadlock(BaseException):
    """No transition is enabled / the caller stays blocked forever: the history does not terminate."""


class _Abort(BaseException):
    """Raised inside parked threads to unwind them when a run is torn down."""


class Scheduler:
    def __init__(self, choices=(), rng=None, timeout_credits=1, max_steps=5000):
        self.prefix = list(choices)
        self.rng = rng
        self.trace = []  # (n_options, chosen, label)
        self.credits = timeout_credits
        self.max_steps = max_steps
        self.steps = 0
        self.threads = {}
        self.aborting = False
        self.deadlock = None
        self.timeouts_since_main = 0
        self.sync_points = 0
        self.register('M')

    def register(self, name):
        self.threads[name] = {'sem': _threading.Semaphore(0), 'pending': None, 'done': False, 'granted': None}

    def me(self):
        return getattr(_tls, 'name', 'M')

    def sync(self, label, variants):
        """Post the pending transition of the calling thread; block until it is granted; return variant."""
        me = self.me()
        if self.aborting:
            raise _Abort()
        self.sync_points += 1
        t = self.threads[me]
        t['pending'] = (label, variants)
        t['granted'] = None
        self._pick_and_release()
        t['sem'].acquire()
        if self.aborting:
            if self.deadlock and me == 'M':
                raise Deadlock(self.deadlock)
            raise _Abort()
        t['pending'] = None
        return t['granted']

    def _enabled(self):
        normal, timeouts = [], []
        for name in sorted(self.threads):
            t = self.threads[name]
            if t['pending'] is None or t['done']:
                continue
            label, variants = t['pending']
            for vname, fn, is_to in variants:
                if fn():
                    (timeouts if is_to else normal).append((name, vname, label))
        return normal, timeouts

    def _pick_and_release(self):
        self.steps += 1
        if self.steps > self.max_steps:
            return self._fail('step bound exceeded: ' + self.describe())
        normal, timeouts = self._enabled()
        opts = list(normal)
        if timeouts and (not normal or self.credits > 0):
            opts += timeouts
        if not opts:
            return self._fail('no transition enabled: ' + self.describe())
        k = self._choose(len(opts))
        name, vname, label = opts[k]
        is_timeout = (name, vname, label) in timeouts
        if is_timeout and normal:
            self.credits -= 1
        if name == 'M':
            self.timeouts_since_main = 0
        elif is_timeout:
            self.timeouts_since_main += 1
            if self.timeouts_since_main > 3:
                return self._fail('caller blocked while worker only polls: ' + self.describe())
        self.trace.append((len(opts), k, '%s:%s/%s' % (name, label, vname)))
        t = self.threads[name]
        t['granted'] = vname
        t['sem'].release()

    def _choose(self, n):
        i = len(self.trace)
        if i < len(self.prefix):
            return min(self.prefix[i], n - 1)
        if self.rng is not None:
            return int(self.rng.integers(n))
        return 0

    def _fail(self, why):
        if self.deadlock is None:
            self.deadlock = why
        self.abort()

    def abort(self):
        self.aborting = True
        for t in self.threads.values():
            t['sem'].release()
            t['sem'].release()

    def describe(self):
        out = []
        for name in sorted(self.threads):
            t = self.threads[name]
            out.append('%s:%s' % (name, 'done' if t['done'] else (t['pending'][0] if t['pending'] else 'running')))
        return ' '.join(out)

    def thread_body(self, name, target):
        _tls.name = name
        t = self.threads[name]
        try:
            t['sem'].acquire()  # wait for the 'begin' transition to be granted
            if self.aborting:
                return
            t['pending'] = None
            try:
                target()
            except (_Abort, Deadlock):
                return
        finally:
            t['done'] = True
            t['pending'] = None
            if not self.aborting:
                self._pick_and_release()


_tls = _threading.local()
_ALWAYS = lambda: True


def make_shims(sched):
    """Return (queue_module_shim, threading_module_shim) bound to `sched`."""

    class Queue:
        def __init__(self, maxsize=0):
            self.maxsize = maxsize
            self.items = []
            self.unfinished = 0

        def _full(self):
            return self.maxsize > 0 and len(self.items) >= self.maxsize

        def put(self, item, block=True, timeout=None):
            v = sched.sync('put', [('ok', lambda: not self._full(), False),
                                   ('timeout', lambda: self._full() and timeout is not None, True)])
            if v == 'timeout':
                raise _queue.Full
            self.items.append(item)
            self.unfinished += 1

        def get(self, block=True, timeout=None):
            if not block:
                sched.sync('get_nowait', [('ok', _ALWAYS, False)])
                if not self.items:
                    raise _queue.Empty
                return self.items.pop(0)
            v = sched.sync('get', [('ok', lambda: bool(self.items), False),
                                   ('timeout', lambda: not self.items and timeout is not None, True)])
            if v == 'timeout':
                raise _queue.Empty
            return self.items.pop(0)

        def task_done(self):
            sched.sync('task_done', [('ok', _ALWAYS, False)])
            if self.unfinished <= 0:
                raise ValueError('task_done() called too many times')
            self.unfinished -= 1

        def join(self):
            sched.sync('join', [('ok', lambda: self.unfinished == 0, False)])

        def empty(self):
            sched.sync('empty?', [('ok', _ALWAYS, False)])
            return not self.items

        def qsize(self):
            return len(self.items)

    class Event:
        def __init__(self):
            self.flag = False

        def set(self):
            sched.sync('event.set', [('ok', _ALWAYS, False)])
            self.flag = True

        def is_set(self):
            sched.sync('event.is_set', [('ok', _ALWAYS, False)])
            return self.flag

        def clear(self):
            self.flag = False

    class Thread:
        _n = 0

        def __init__(self, target=None, name=None, daemon=None, args=(), kwargs=None):
            Thread._n += 1
            self.sname = 'W%d' % Thread._n if Thread._n > 1 else 'W'
            # unique per scheduler
            k = 0
            base = 'W'
            self.sname = base
            while self.sname in sched.threads:
                k += 1
                self.sname = base + str(k)
            self.name = name
            self.target = target
            sched.register(self.sname)
            self.real = _threading.Thread(target=sched.thread_body,
                                          args=(self.sname, lambda: target(*args, **(kwargs or {}))),
                                          daemon=True)
            self.started = False

        def start(self):
            self.started = True
            st = sched.threads[self.sname]
            # the new thread's first transition: 'begin'
            st['pending'] = ('begin', [('ok', _ALWAYS, False)])
            self.real.start()
            sched.sync('thread.start', [('ok', _ALWAYS, False)])

        def is_alive(self):
            sched.sync('is_alive?', [('ok', _ALWAYS, False)])
            return self.started and not sched.threads[self.sname]['done']

        def join(self, timeout=None):
            sched.sync('thread.join', [('ok', lambda: sched.threads[self.sname]['done'], False)])

    class QueueMod:
        Empty = _queue.Empty
        Full = _queue.Full

    QueueMod.Queue = Queue

    class ThreadingMod:
        pass

    ThreadingMod.Event = Event
    ThreadingMod.Thread = Thread
    ThreadingMod.current_thread = _threading.current_thread
    return QueueMod, ThreadingMod
