"""Child process of the C18 check: runs or resumes one real tenpy Simulation inside a scratch directory.

usage: python -m vf.c18_child <mode> <workdir> <spec.json>
  mode = run      : run_simulation(**spec['sim'])
         resume   : resume_from_checkpoint(filename=spec['resume_from'], update_sim_params=spec.get('update'))
Every completed Simulation.save_results() prints 'SAVED <k>' (flushed) and, if spec['record'], copies the file to ckpt_<k><ext>.
The final results (selected keys) are dumped to final.pkl by the harness wrapper, not by tenpy.
"""
import json
import os
import pickle
import shutil
import sys
import warnings


def main():
    mode, workdir, specfile = sys.argv[1:4]
    spec = json.load(open(specfile))
    cl = spec.get('sim', {}).get('algorithm_params', {}).get('chi_list')
    if cl:
        spec['sim']['algorithm_params']['chi_list'] = {int(k): v for k, v in cl.items()}  # (JSON turned the sweep numbers into strings)
    os.chdir(workdir)
    warnings.simplefilter('ignore')
    import numpy as np
    np.random.seed(spec.get('np_seed', 1))
    from tenpy.simulations import simulation as simmod
    from tenpy.simulations.simulation import Simulation
    import tenpy

    counter = {'k': 0}
    orig = Simulation.save_results

    def save_results(self, results=None):
        print('SAVING %d' % (counter['k'] + 1), flush=True)
        res = orig(self, results)
        counter['k'] += 1
        if spec.get('record') and self.output_filename is not None:
            ext = os.path.splitext(str(self.output_filename))[1]
            shutil.copy(str(self.output_filename), 'ckpt_%d%s' % (counter['k'], ext))
        print('SAVED %d' % counter['k'], flush=True)
        return res

    Simulation.save_results = save_results
    print('START', flush=True)
    if mode == 'run':
        res = tenpy.run_simulation(**spec['sim'])
    else:
        res = tenpy.resume_from_checkpoint(filename=spec['resume_from'], update_sim_params=spec.get('update'))
    out = summarize(res)
    with open('final.pkl.tmp', 'wb') as f:
        pickle.dump(out, f)
    os.replace('final.pkl.tmp', 'final.pkl')
    print('DONE', flush=True)


def summarize(res):
    """Deterministic part of a results dictionary (no wall-clock times, versions, host names)."""
    import numpy as np
    out = {}
    out['finished_run'] = res.get('finished_run')
    meas = res.get('measurements', {})
    out['measurements'] = {k: np.asarray(v) for k, v in meas.items() if 'time' not in k.lower() or k == 'evolved_time'}
    for key in ('sweep_stats', 'update_stats'):
        if key in res:
            out[key] = {k: np.asarray(v) for k, v in res[key].items() if k in ('sweep', 'E', 'S', 'max_chi', 'N_updates', 'i0', 'E_total')}
    if 'energy' in res:
        out['energy'] = res['energy']
    psi = res.get('psi')
    if psi is not None:
        th = psi.get_theta(0, psi.L).to_ndarray().reshape(-1) * psi.norm if psi.bc == 'finite' and psi.L <= 10 else None
        out['psi_vec'] = th
        out['chi'] = list(psi.chi)
    return out


if __name__ == '__main__':
    main()
