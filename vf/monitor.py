"""Monitoring helpers: anchor-line coverage (sys.monitoring), patch_everywhere, exceptions."""
import sys
import os
import types


class HarnessSkip(Exception):
    """Raised by a check when a generated case turns out not to be usable (not a verdict)."""


class LineCoverage:
    """Record which lines of the anchor functions were executed (sys.monitoring LINE + DISABLE).

    anchors: {path-suffix: [qualname, ...]}  (qualname '*' = every function of that file)
    """
    TOOL = 2  # sys.monitoring.PROFILER_ID

    def __init__(self, anchors):
        self.anchors = {k: set(v) for k, v in anchors.items()}
        self.seen = {}  # (suffix, qualname) -> (set(lines), total)
        self._codes = {}
        self.active = False

    def _match(self, code):
        r = self._codes.get(code)
        if r is not None:
            return r
        fn = code.co_filename
        res = False
        for suf, names in self.anchors.items():
            if fn.endswith(suf):
                q = code.co_qualname
                if '*' in names or q in names or q.split('.<locals>')[0] in names:
                    res = (suf, q.split('.<locals>')[0])
                break
        self._codes[code] = res
        return res

    def _line(self, code, line):
        m = self._match(code)
        if m:
            ent = self.seen.get(m)
            if ent is None:
                ent = self.seen[m] = [set(), set()]
            ent[0].add(line)
            if not ent[1] or code.co_qualname == m[1]:
                ent[1].update(l for (_, _, l) in code.co_lines() if l is not None and l != code.co_firstlineno)
        return sys.monitoring.DISABLE

    def start(self):
        mon = sys.monitoring
        try:
            mon.use_tool_id(self.TOOL, 'vf-anchors')
        except ValueError:
            return
        mon.register_callback(self.TOOL, mon.events.LINE, self._line)
        mon.set_events(self.TOOL, mon.events.LINE)
        self.active = True

    def stop(self):
        if not self.active:
            return
        mon = sys.monitoring
        mon.set_events(self.TOOL, 0)
        mon.register_callback(self.TOOL, mon.events.LINE, None)
        mon.free_tool_id(self.TOOL)
        self.active = False

    def report(self):
        out = {}
        for (suf, q), (lines, total) in self.seen.items():
            out[os.path.basename(suf) + ':' + q] = [len(lines), max(len(total), len(lines))]
        return out


class FuncCoverage:
    """Audit aid (VERIF_FUNCCOV=<dir>): which functions of tenpy were entered at all (PY_START + DISABLE, ~no overhead)."""
    TOOL = 3

    def __init__(self):
        self.seen = set()
        self.active = False

    def _start(self, code, offset):
        fn = code.co_filename
        i = fn.rfind('/tenpy/')
        if i >= 0:
            self.seen.add((fn[i + 1:], code.co_qualname))
        return sys.monitoring.DISABLE

    def start(self):
        mon = sys.monitoring
        try:
            mon.use_tool_id(self.TOOL, 'vf-funccov')
        except ValueError:
            return
        mon.register_callback(self.TOOL, mon.events.PY_START, self._start)
        mon.set_events(self.TOOL, mon.events.PY_START)
        self.active = True

    def stop(self):
        if self.active:
            mon = sys.monitoring
            mon.set_events(self.TOOL, 0)
            mon.register_callback(self.TOOL, mon.events.PY_START, None)
            mon.free_tool_id(self.TOOL)
            self.active = False


def patch_everywhere(orig, wrapper, packages=('tenpy', )):
    """Rebind every module/class attribute that `is` orig to wrapper.  Returns number of rebinds."""
    n = 0
    for name, mod in list(sys.modules.items()):
        if mod is None or not any(name == p or name.startswith(p + '.') for p in packages):
            continue
        for attr, val in list(vars(mod).items()):
            if val is orig:
                setattr(mod, attr, wrapper)
                n += 1
            elif isinstance(val, type):
                for a2, v2 in list(vars(val).items()):
                    if v2 is orig:
                        setattr(val, a2, wrapper)
                        n += 1
    return n
