"""Known-findings classifier.  The file known_findings.json is committed and never written at run time."""
import json
import os

VERIF = os.path.dirname(os.path.dirname(os.path.abspath(__file__)))
PATH = os.path.join(VERIF, 'known_findings.json')


def load():
    if not os.path.exists(PATH):
        return {'findings': [], 'fixed': []}
    with open(PATH) as f:
        return json.load(f)


def classify(prop, violations, kf):
    keys = {f['key'] for f in kf.get('findings', []) if f['property'] == prop}
    unknown = [v for v in violations if v['key'] not in keys]
    known = [v for v in violations if v['key'] in keys]
    return unknown, known


def describe(prop, key, kf):
    for f in kf.get('findings', []):
        if f['property'] == prop and f['key'] == key:
            return '%s: %s' % (key, f['what'])
    return key
