"""Operation table for tensor programs: each op executes the real call and updates/creates the shadow."""
import numpy as np

from . import gen
from .tprog import Skip, conj_label, drop_dup, split_label
from .tshadow import SLeg, Slot

OPS = {}
DEFAULT_WEIGHTS = {}


def op(name, weight=1.0):
    def deco(f):
        OPS[name] = f
        DEFAULT_WEIGHTS[name] = weight
        return f

    return deco


def npc():
    from tenpy.linalg import np_conserved
    return np_conserved


def res_dtype(*dts):
    return np.result_type(*dts)


def axis_ref(P, s, ax):
    """Refer to an axis by label (if it has one, sometimes) or index (possibly negative)."""
    lbl = s.labels[ax]
    r = P.rng.random()
    if lbl is not None and r < 0.5:
        return lbl
    if r < 0.6:
        return ax - s.ndim
    return ax


def sl_partner(sl):
    """Shadow of a leg contractible with shadow leg sl (same flat charges, opposite direction)."""
    return SLeg(sl.qflat, -sl.qconj, None)


def _new_partner_array(P, a, axes_a, n_extra=None, dtype=None):
    """New random array having partner legs for a's `axes_a` (in random positions) plus extra legs."""
    rng = P.rng
    partner = []
    for ax in axes_a:
        leg, mode = gen.partner_leg(rng, a.arr.legs[ax])
        P.count('partner.' + mode)
        partner.append(leg)
    if n_extra is None:
        n_extra = int(rng.integers(0, 3))
    size = int(np.prod([max(l.ind_len, 1) for l in partner])) if partner else 1
    extra = []
    for _ in range(n_extra):
        l = P.new_leg()
        if size * max(l.ind_len, 1) > P.max_size:
            continue
        size *= max(l.ind_len, 1)
        extra.append(l)
    legs = partner + extra
    if not legs:
        raise Skip()
    perm = [int(x) for x in rng.permutation(len(legs))]
    legs_p = [legs[i] for i in perm]
    pos_of_partner = [perm.index(i) for i in range(len(partner))]
    # labels: sometimes collide with a's labels on purpose
    labels = gen.rand_labels(rng, len(legs_p), pool=('a', 'b', 'c', 'd', 'k', 'l', 'm', 'n'))
    b = P.make_array(legs_p, labels=labels, dtype=dtype)
    return b, pos_of_partner


@op('tensordot', 4.0)
def op_tensordot(P):
    rng = P.rng
    a = P.pick_slot(lambda s: s.ndim >= 1)
    k = int(rng.integers(0, min(a.ndim, 3) + 1))
    axes_a = [int(x) for x in rng.permutation(a.ndim)[:k]]
    b, axes_b = _new_partner_array(P, a, axes_a)
    P.add_slot(b)
    P.verify_slot(b, 'from_ndarray')
    form = 'lists'
    if k == 0:
        spec = 0
        form = 'int0'
    elif rng.random() < 0.25 and axes_a == list(range(a.ndim - k, a.ndim)) and axes_b == list(range(k)):
        spec = k
        form = 'int'
    else:
        ra = [axis_ref(P, a, x) for x in axes_a]
        rb = [axis_ref(P, b, x) for x in axes_b]
        if k == 1 and rng.random() < 0.3:
            ra, rb = ra[0], rb[0]
        spec = [ra, rb]
    P.log.append(['tensordot', {'a': P.slots.index(a), 'axes': repr(spec), 'b': P.describe(b)}])
    r = npc().tensordot(a.arr, b.arr, axes=spec)
    exp = np.tensordot(a.dense, b.dense, axes=(axes_a, axes_b))
    P.count('tensordot.k%d' % k)
    if a.arr.stored_blocks == 1 and b.arr.stored_blocks == 1:
        P.count('tensordot.one_block_fastpath')
    keep_a = [i for i in range(a.ndim) if i not in axes_a]
    keep_b = [i for i in range(b.ndim) if i not in axes_b]
    if not keep_a and not keep_b:
        return {'scalar': (r, exp, res_dtype(a.dense.dtype, b.dense.dtype))}
    labels = drop_dup([a.labels[i] for i in keep_a], [b.labels[i] for i in keep_b])
    legs = [a.legs[i] for i in keep_a] + [b.legs[i] for i in keep_b]
    qt = gen.mod_valid(a.qtotal + b.qtotal, P.mod)
    return {'new': [Slot(r, exp, labels, legs, qt, 'tensordot')], 'retkind': 'deep'}


@op('outer', 1.0)
def op_outer(P):
    a = P.pick_slot(lambda s: s.ndim <= 3)
    b = P.pick_slot(lambda s: s.ndim <= 3 and s.dense.size * a.dense.size <= 4 * P.max_size)
    P.log.append(['outer', {'a': P.slots.index(a), 'b': P.slots.index(b)}])
    r = npc().outer(a.arr, b.arr)
    exp = np.multiply.outer(a.dense, b.dense)
    labels = drop_dup(a.labels, b.labels)
    return {'new': [Slot(r, exp, labels, a.legs + b.legs, gen.mod_valid(a.qtotal + b.qtotal, P.mod), 'outer')],
            'retkind': 'deep'}


@op('inner', 2.0)
def op_inner(P):
    rng = P.rng
    a = P.pick_slot(lambda s: s.ndim >= 1)
    do_conj = bool(rng.random() < 0.5)
    perm = [int(x) for x in rng.permutation(a.ndim)]
    # b has legs such that b's axis j pairs with a's axis perm[j]
    legs = []
    for j in range(a.ndim):
        la = a.arr.legs[perm[j]]
        if do_conj:
            legs.append(la)  # inner(a,b,do_conj) = <a|b>: b has the same legs as a
        else:
            legs.append(gen.partner_leg(rng, la)[0])
    mode = str(rng.choice(['range', 'labels', 'explicit']))
    qt = a.qtotal if do_conj else gen.mod_valid(-a.qtotal, P.mod)
    if mode == 'range':
        perm = list(range(a.ndim))
        legs = [legs[perm.index(i)] for i in range(a.ndim)] if False else [
            (a.arr.legs[i] if do_conj else gen.partner_leg(rng, a.arr.legs[i])[0]) for i in range(a.ndim)
        ]
        blabels = gen.rand_labels(rng, a.ndim)
        axes = 'range'
    elif mode == 'labels':
        if any(l is None for l in a.labels):
            raise Skip()
        blabels = [(a.labels[perm[j]] if do_conj else conj_label(a.labels[perm[j]])) for j in range(a.ndim)]
        axes = 'labels'
    else:
        blabels = gen.rand_labels(rng, a.ndim)
        axes = [list(range(a.ndim)), [perm.index(i) for i in range(a.ndim)]]
        axes = [[int(x) for x in axes[0]], [int(x) for x in axes[1]]]
    b = P.make_array(legs, labels=blabels, qtotal=qt)
    P.add_slot(b)
    P.log.append(['inner', {'a': P.slots.index(a), 'axes': repr(axes), 'do_conj': do_conj, 'b': P.describe(b)}])
    r = npc().inner(a.arr, b.arr, axes=axes, do_conj=do_conj)
    bd = np.transpose(b.dense, [perm.index(i) for i in range(a.ndim)]) if mode != 'range' else b.dense
    ad = a.dense.conj() if do_conj else a.dense
    exp = np.sum(ad * bd)
    P.count('inner.' + mode)
    return {'scalar': (r, exp, res_dtype(a.dense.dtype, b.dense.dtype))}


@op('trace', 1.5)
def op_trace(P):
    rng = P.rng
    # build an array with a contractible pair of legs
    l = P.new_leg()
    if l.ind_len == 0 and rng.random() < 0.7:
        raise Skip()
    lp, mode = gen.partner_leg(rng, l)
    others = [P.new_leg() for _ in range(int(rng.integers(0, 3)))]
    others = [o for o in others if o.ind_len * max(l.ind_len, 1)**2 <= P.max_size][:2]
    legs = [l, lp] + others
    perm = [int(x) for x in rng.permutation(len(legs))]
    legs_p = [legs[i] for i in perm]
    a = P.make_array(legs_p)
    P.add_slot(a)
    i1, i2 = perm.index(0), perm.index(1)
    r1, r2 = axis_ref(P, a, i1), axis_ref(P, a, i2)
    P.log.append(['trace', {'a': P.describe(a), 'leg1': r1, 'leg2': r2}])
    r = npc().trace(a.arr, r1, r2)
    exp = np.trace(a.dense, axis1=i1, axis2=i2)
    keep = [i for i in range(a.ndim) if i not in (i1, i2)]
    if not keep:
        return {'scalar': (r, exp, a.dense.dtype)}
    return {'new': [Slot(r, exp, [a.labels[i] for i in keep], [a.legs[i] for i in keep], a.qtotal, 'trace')],
            'retkind': 'deep'}


@op('transpose', 2.0)
def op_transpose(P):
    rng = P.rng
    a = P.pick_slot(lambda s: s.ndim >= 1)
    perm = [int(x) for x in rng.permutation(a.ndim)]
    kind = str(rng.choice(['transpose', 'itranspose', 'iswapaxes', 'transpose_none']))
    if kind == 'iswapaxes':
        if a.ndim < 2:
            raise Skip()
        i, j = [int(x) for x in rng.permutation(a.ndim)[:2]]
        perm = list(range(a.ndim))
        perm[i], perm[j] = perm[j], perm[i]
        P.log.append(['iswapaxes', {'a': P.slots.index(a), 'axes': [i, j]}])
        r = a.arr.iswapaxes(axis_ref(P, a, i), axis_ref(P, a, j))
        if r is not a.arr:
            P.violation('iswapaxes:does-not-return-self', '')
    elif kind == 'transpose_none':
        perm = list(range(a.ndim))[::-1]
        P.log.append(['transpose()', {'a': P.slots.index(a)}])
        r = a.arr.transpose()
    else:
        refs = [axis_ref(P, a, x) for x in perm]
        P.log.append([kind, {'a': P.slots.index(a), 'axes': refs}])
        r = getattr(a.arr, kind)(refs)
    exp = np.transpose(a.dense, perm)
    labels = [a.labels[i] for i in perm]
    legs = [a.legs[i] for i in perm]
    if kind in ('itranspose', 'iswapaxes'):
        a.dense, a.labels, a.legs = exp, labels, legs
        if rng.random() < 0.5 and a.dense.size and np.issubdtype(a.dense.dtype, np.floating):
            # the in-place result is used right away as the right operand of a binary operation with an independently built tensor
            # (block lists are merged there: a stale claim about the order of the blocks gives wrong values)
            from tenpy.linalg import np_conserved as npc
            mask = gen.charge_mask([l.qflat for l in a.legs], [l.qconj for l in a.legs], np.asarray(a.qtotal), P.mod) if len(P.mod) else np.ones(a.dense.shape, bool)
            pd = np.where(mask, np.arange(1, a.dense.size + 1, dtype=a.dense.dtype).reshape(a.dense.shape), 0)
            try:
                partner = npc.Array.from_ndarray(pd, list(a.arr.legs), dtype=a.arr.dtype, qtotal=a.arr.qtotal, labels=a.arr.get_leg_labels())
                got = (partner + a.arr).to_ndarray()
                got2 = npc.inner(partner, a.arr, axes='range', do_conj=True)  # (real dtype: sum of the products; legs must be equal)
            except Exception as e:
                P.violation(kind + ':then-binary-op:raises-%s' % type(e).__name__, repr(e)[:200])
            else:
                tol = 1e-4 if P.single else 1e-10
                if not np.allclose(got, pd + a.dense, atol=tol * max(1.0, float(np.max(np.abs(pd))))):
                    P.violation(kind + ':then-add:value', 'partner + (in-place transposed tensor) differs from numpy')
                ref2 = np.sum(pd * a.dense)
                if not (abs(got2 - ref2) <= tol * max(1.0, abs(ref2)) * 10):
                    P.violation(kind + ':then-inner:value', 'inner(partner, in-place transposed tensor) = %r, numpy %r' % (got2, ref2))
        return {'modified': [a], 'retkind': 'inplace'}
    return {'new': [Slot(r, exp, labels, legs, a.qtotal, kind)], 'retkind': 'deep'}


@op('conj', 2.0)
def op_conj(P):
    rng = P.rng
    a = P.pick_slot()
    kind = str(rng.choice(['conj', 'iconj', 'complex_conj', 'conj_nocc']))
    P.log.append([kind, {'a': P.slots.index(a)}])
    if kind == 'complex_conj':
        r = a.arr.complex_conj()
        return {'new': [Slot(r, a.dense.conj(), a.labels, a.legs, a.qtotal, kind)], 'retkind': 'shallow'}
    cc = kind != 'conj_nocc'
    exp = a.dense.conj() if cc else a.dense.copy()
    labels = [conj_label(l) for l in a.labels]
    legs = [l.conj() for l in a.legs]
    qt = gen.mod_valid(-a.qtotal, P.mod)
    if kind == 'iconj':
        r = a.arr.iconj()
        if r is not a.arr:
            P.violation('iconj:does-not-return-self', '')
        a.dense, a.labels, a.legs, a.qtotal = exp, labels, legs, qt
        return {'modified': [a], 'retkind': 'inplace'}
    r = a.arr.conj(complex_conj=cc)
    # documented: "return a *deep* copy"
    return {'new': [Slot(r, exp, labels, legs, qt, kind)],
            'retkind': 'deep' if (not cc or a.dense.dtype.kind != 'c') else 'shallow'}


def _same_legs_array(P, a, transposed=False, dtype=None):
    """New random array with the same legs/qtotal as `a` (optionally with transposed leg order and same labels)."""
    perm = list(range(a.ndim))
    if transposed:
        perm = [int(x) for x in P.rng.permutation(a.ndim)]
    legs = [a.arr.legs[i] for i in perm]
    labels = [a.labels[i] for i in perm]
    b = P.make_array(legs, labels=labels, qtotal=a.qtotal, dtype=dtype)
    # the shadow legs must carry over pipe information
    b.legs = [a.legs[i] for i in perm]
    return b, perm


def _rand_scalar(P, dt):
    rng = P.rng
    if np.dtype(dt).kind in 'iu':
        return int(rng.integers(-3, 4))
    r = rng.random()
    if r < 0.15:
        return int(rng.integers(-2, 3))
    if r < 0.25:
        return 0.0
    if r < 0.5 and np.dtype(dt).kind == 'c':
        return complex(round(float(rng.standard_normal()), 2), round(float(rng.standard_normal()), 2))
    return round(float(rng.standard_normal()), 2)


@op('linear', 4.0)
def op_linear(P):
    rng = P.rng
    a = P.pick_slot()
    kind = str(rng.choice(['add', 'sub', 'iadd', 'isub', 'iadd_prefactor_other', 'mul', 'rmul', 'imul', 'div', 'idiv',
                           'neg', 'iscale_prefactor', 'binary_blockwise', 'add_transposed']))
    if kind in ('add', 'sub', 'iadd', 'isub', 'iadd_prefactor_other', 'binary_blockwise', 'add_transposed'):
        tr = kind == 'add_transposed'
        if tr and (a.ndim < 2 or any(l is None for l in a.labels)):
            raise Skip()
        inplace = kind in ('iadd', 'isub', 'iadd_prefactor_other')
        dtype = None
        if inplace:
            # in-place: other's dtype must be castable to a's dtype
            if a.dense.dtype.kind in 'iu':
                dtype = 'int64'
            else:
                cands = [d for d in P.dtypes if np.can_cast(np.dtype(d), a.dense.dtype, 'same_kind') and
                         np.result_type(np.dtype(d), a.dense.dtype) == a.dense.dtype]
                dtype = str(rng.choice(cands)) if cands else str(a.dense.dtype)
        if rng.random() < 0.15 and not tr:
            b, perm = a, list(range(a.ndim))  # same operand twice
            P.count('linear.self_operand')
        else:
            b, perm = _same_legs_array(P, a, transposed=tr, dtype=dtype)
            P.add_slot(b)
        bd = np.transpose(b.dense, [perm.index(i) for i in range(a.ndim)])
        P.log.append([kind, {'a': P.slots.index(a), 'b': P.describe(b) if b is not a else 'same'}])
        if b.arr.stored_blocks and a.arr.stored_blocks:
            P.count('binary.merge_branch')
        if kind in ('add', 'add_transposed'):
            r, exp = a.arr + b.arr, a.dense + bd
        elif kind == 'sub':
            r, exp = a.arr - b.arr, a.dense - bd
        elif kind == 'binary_blockwise':
            r, exp = a.arr.binary_blockwise(np.add, b.arr), a.dense + bd
        elif kind == 'iadd':
            exp = (a.dense + bd).astype(a.dense.dtype)
            aa = a.arr
            aa += b.arr
            r = aa
            if r is not a.arr:
                P.violation('iadd:rebinds', '+= returned a different object')
        elif kind == 'isub':
            exp = (a.dense - bd).astype(a.dense.dtype)
            aa = a.arr
            aa -= b.arr
            r = aa
        else:
            pre = _rand_scalar(P, a.dense.dtype if a.dense.dtype.kind != 'c' else 'complex128')
            if isinstance(pre, complex) and a.dense.dtype.kind != 'c':
                pre = pre.real
            if a.dense.dtype.kind in 'iu':
                pre = int(pre)
            exp = (a.dense + pre * bd).astype(a.dense.dtype)
            r = a.arr.iadd_prefactor_other(pre, b.arr)
            P.log[-1][1]['prefactor'] = repr(pre)
        if inplace:
            a.dense = exp
            return {'modified': [a], 'retkind': 'inplace'}
        return {'new': [Slot(r, exp, a.labels, a.legs, a.qtotal, kind)], 'retkind': 'deep'}
    sc = _rand_scalar(P, 'complex128' if rng.random() < 0.3 else 'float64')
    P.log.append([kind, {'a': P.slots.index(a), 'scalar': repr(sc)}])
    if kind == 'neg':
        return {'new': [Slot(-a.arr, -a.dense, a.labels, a.legs, a.qtotal, kind)], 'retkind': 'shallow'}
    if kind in ('div', 'idiv'):
        if sc == 0:
            sc = 2
        if a.dense.dtype.kind in 'iu' and kind == 'idiv':
            raise Skip()
    if kind in ('imul', 'idiv', 'iscale_prefactor'):
        if isinstance(sc, complex) and a.dense.dtype.kind != 'c':
            sc = sc.real
            if kind == 'idiv' and sc == 0:
                sc = 2.0  # (the real part of the drawn scalar can vanish: dividing by it would be an illegal call)
        if a.dense.dtype.kind in 'iu':
            sc = int(sc) if kind != 'idiv' else sc
        if kind == 'idiv':
            exp = (a.dense / sc).astype(a.dense.dtype)
            aa = a.arr
            aa /= sc
        elif kind == 'imul':
            exp = (a.dense * sc).astype(a.dense.dtype)
            aa = a.arr
            aa *= sc
        else:
            exp = (a.dense * sc).astype(a.dense.dtype)
            aa = a.arr.iscale_prefactor(sc)
        if aa is not a.arr:
            P.violation('%s:does-not-return-self' % kind, '')
        a.dense = exp
        return {'modified': [a], 'retkind': 'inplace'}
    if kind == 'mul':
        r, exp = a.arr * sc, a.dense * sc
    elif kind == 'rmul':
        r, exp = sc * a.arr, sc * a.dense
    else:
        r, exp = a.arr / sc, a.dense / sc
    return {'new': [Slot(r, exp, a.labels, a.legs, a.qtotal, kind)], 'retkind': 'shallow' if sc != 0 else 'deep'}


# ==========================================================================================
# combine / split
# ==========================================================================================
def _pipe_map(pipe, sub_shape):
    """index map of a real LegPipe: ndarray of sub-shape giving the combined index (observed via map_incoming_flat)."""
    n = int(np.prod(sub_shape)) if len(sub_shape) else 1
    if n == 0:
        return np.zeros(sub_shape, dtype=np.intp)
    idx = np.indices(sub_shape).reshape(len(sub_shape), -1).T
    m = np.array([int(pipe.map_incoming_flat([int(x) for x in row])) for row in idx], dtype=np.intp)
    return m.reshape(sub_shape)


def _check_pipe_map(P, name, m, n_out):
    flat = np.sort(m.reshape(-1))
    if len(flat) != n_out or not np.array_equal(flat, np.arange(n_out)):
        P.violation('%s:pipe-map-not-bijective' % name, 'map_incoming_flat is not a bijection onto range(%d)' % n_out)
        return False
    return True


def _pipe_sleg(P, name, pipe, subs):
    """Shadow leg for a pipe built from shadow sub-legs: charges follow from the fusion rule and the index map."""
    shape = tuple(s.n for s in subs)
    m = _pipe_map(pipe, shape)
    n_out = int(np.prod(shape)) if shape else 1
    if pipe.ind_len != n_out:
        P.violation('%s:pipe-length' % name, 'pipe ind_len %d expected %d' % (pipe.ind_len, n_out))
        raise Skip()
    if not _check_pipe_map(P, name, m, n_out):
        raise Skip()
    nq = len(P.mod)
    tot = np.zeros(shape + (nq, ), dtype=np.int64)
    for ax, s in enumerate(subs):
        sh = [1] * len(shape) + [nq]
        sh[ax] = shape[ax]
        tot = tot + s.qconj * s.qflat.reshape(sh)
    qflat = np.zeros((n_out, nq), dtype=np.int64)
    if n_out:
        qflat[m.reshape(-1)] = gen.mod_valid(pipe.qconj * tot.reshape(n_out, nq), P.mod)
    return SLeg(qflat, pipe.qconj, {'sub': [SLeg(s.qflat, s.qconj, s.pipe) for s in subs], 'map': m})


def _combine_dense(dense, groups, new_axes_sorted, maps):
    """Dense model of combine_legs for groups (lists of axes) placed at new_axes (already sorted ascending)."""
    nd = dense.ndim
    allc = [a for g in groups for a in g]
    rest = [a for a in range(nd) if a not in allc]
    # final axis order: insert groups at new_axes
    final = [[a] for a in rest]
    for na, g in zip(new_axes_sorted, groups):
        final.insert(na, list(g))
    perm = [a for f in final for a in f]
    t = np.transpose(dense, perm)
    shape = []
    for f in final:
        shape.append(int(np.prod([dense.shape[a] for a in f])))
    r = t.reshape(shape)
    # permute combined axes according to pipe maps: out[..., m[i,j], ...] = in[..., (i,j) flat, ...]
    for pos, f in enumerate(final):
        if len(f) >= 1 and any(f is ff for ff in final) and tuple(f) in [tuple(g) for g in groups]:
            m = maps[[tuple(g) for g in groups].index(tuple(f))]
            inv = np.empty(m.size, dtype=np.intp)
            inv[m.reshape(-1)] = np.arange(m.size)
            r = np.take(r, inv, axis=pos)
    return r, final


def placeholder_labels(labels):
    """Names combine_legs uses for unlabeled legs inside pipe labels: '?<position>', prefixed with further '?' while the name is
    already taken by another leg (placeholders of earlier calls survive on non-combined legs)."""
    lab = list(labels)
    for i, l in enumerate(lab):
        if l is None:
            l = '?%d' % i
            while l in lab:
                l = '?' + l
            lab[i] = l
    return lab


def _result_labels_clash(labels, groups):
    """Would the labels of the result contain duplicates (e.g. combining ['b'] next to a leg already called '(b)')?"""
    lab = placeholder_labels(labels)
    inside = set(x for g in groups for x in g)
    res = ['(' + '.'.join(lab[x] for x in g) + ')' for g in groups] + [l for i, l in enumerate(labels) if i not in inside and l is not None]
    return len(set(res)) < len(res)


@op('combine_legs', 4.0)
def op_combine(P):
    rng = P.rng
    a = P.pick_slot(lambda s: s.ndim >= 1)
    nd = a.ndim
    ngroups = 1 if nd < 3 or rng.random() < 0.6 else 2
    axes = [int(x) for x in rng.permutation(nd)]
    groups = []
    for g in range(ngroups):
        k = int(rng.integers(1, max(2, min(4, len(axes) - (ngroups - 1 - g))) + 1))
        k = min(k, len(axes) - (ngroups - 1 - g))
        if k < 1:
            break
        groups.append(axes[:k])
        axes = axes[k:]
    if not groups:
        raise Skip()
    qconj = None
    if rng.random() < 0.6:
        qconj = [int(rng.choice([1, -1])) for _ in groups]
    use_new_axes = rng.random() < 0.3
    n_res = nd - sum(len(g) for g in groups) + len(groups)
    new_axes = None
    if use_new_axes:
        new_axes = [int(x) for x in rng.permutation(n_res)[:len(groups)]]
    refs = [[axis_ref(P, a, x) for x in g] for g in groups]
    kw = {}
    flat_form = len(groups) == 1 and rng.random() < 0.5
    if qconj is not None:
        kw['qconj'] = qconj[0] if flat_form else qconj
    if new_axes is not None:
        kw['new_axes'] = new_axes[0] if (flat_form and rng.random() < 0.5) else list(new_axes)
    arg = refs[0] if flat_form else refs
    P.log.append(['combine_legs', {'a': P.slots.index(a), 'combine_legs': repr(arg), 'kw': repr(kw)}])
    if _result_labels_clash(a.labels, groups):
        # labels have to be unique: tenpy refuses (ValueError 'Duplicate label entry'), which is the documented contract
        try:
            a.arr.combine_legs(arg, **kw)
        except ValueError as e:
            if 'Duplicate label' in str(e):
                P.count('combine.refused_duplicate_labels')
                raise Skip()
            raise
        raise Skip()
    r = a.arr.combine_legs(arg, **kw)
    if a.arr.stored_blocks == 1:
        P.count('combine.single_block')
    elif a.arr.stored_blocks > 1:
        P.count('combine.worker')
    # default new_axes: position of first leg of each group after removal of the combined ones
    if new_axes is None:
        allc = sorted(x for g in groups for x in g)
        new_axes = []
        for g in groups:
            first = g[0]
            # documented: "for each pipe the position of its first pipe in the original array,
            # (taking into account that some axes are 'removed' by combining)"
            removed_before = sum(1 for x in allc if x < first and x not in [gg[0] for gg in groups])
            new_axes.append(first - removed_before)
    order = np.argsort(new_axes)
    groups_s = [groups[i] for i in order]
    new_axes_s = [new_axes[i] for i in order]
    # identify result pipes
    from tenpy.linalg.charges import LegPipe
    if r.rank != n_res:
        P.violation('combine_legs:rank', 'rank %d expected %d' % (r.rank, n_res))
        return {}
    slegs_pipes, maps = [], []
    for na, g in zip(new_axes_s, groups_s):
        p = r.legs[na]
        if not isinstance(p, LegPipe) or p.nlegs != len(g):
            P.violation('combine_legs:no-pipe-at-new-axis', 'leg %d is %s' % (na, type(p).__name__))
            return {}
        sl = _pipe_sleg(P, 'combine_legs', p, [a.legs[x] for x in g])
        slegs_pipes.append(sl)
        maps.append(sl.pipe['map'])
    exp, final = _combine_dense(a.dense, groups_s, new_axes_s, maps)
    lab = placeholder_labels(a.labels)
    labels, legs = [], []
    gi = {tuple(g): k for k, g in enumerate(groups_s)}
    for f in final:
        if tuple(f) in gi and (len(f) > 1 or tuple(f) in gi):
            k = gi[tuple(f)]
            labels.append('(' + '.'.join(lab[x] for x in f) + ')')
            legs.append(slegs_pipes[k])
        else:
            labels.append(a.labels[f[0]])
            legs.append(a.legs[f[0]])
    if qconj is not None:
        for k, g in enumerate(groups):
            if slegs_pipes[list(order).index(k)].qconj != qconj[k]:
                P.violation('combine_legs:qconj-ignored', 'requested qconj %d' % qconj[k])
    else:
        for k, g in enumerate(groups):
            if slegs_pipes[list(order).index(k)].qconj != a.legs[g[0]].qconj:
                P.violation('combine_legs:default-qconj', 'default qconj must be that of the first combined leg')
    res_slot = Slot(r, exp, labels, legs, a.qtotal, 'combine_legs')
    res_slot.qmark_ok = True
    return {'new': [res_slot], 'retkind': 'deep'}


@op('split_legs', 3.0)
def op_split(P):
    rng = P.rng
    a = P.pick_slot(lambda s: any(l.pipe is not None for l in s.legs))
    pipes = [i for i, l in enumerate(a.legs) if l.pipe is not None]
    if rng.random() < 0.5:
        chosen = pipes
        arg = None
    else:
        k = int(rng.integers(1, len(pipes) + 1))
        chosen = sorted(int(x) for x in rng.permutation(pipes)[:k])
        arg = [axis_ref(P, a, x) for x in chosen]
        if len(arg) == 1 and rng.random() < 0.5:
            arg = arg[0]
    newlabels = []
    for ax in range(a.ndim):
        if ax in chosen:
            newlabels.extend(split_label(a.labels[ax], len(a.legs[ax].pipe['sub'])))
        else:
            newlabels.append(a.labels[ax])
    nl = [l for l in newlabels if l is not None]
    if len(set(nl)) != len(nl):
        raise Skip()  # splitting would create duplicate labels (rejected by tenpy, legitimately)
    P.log.append(['split_legs', {'a': P.slots.index(a), 'axes': repr(arg)}])
    r = a.arr.split_legs(arg) if arg is not None else a.arr.split_legs()
    P.count('split.worker')
    exp = a.dense
    labels, legs = [], []
    # process from last to first so axis numbers stay valid
    for ax in sorted(chosen, reverse=True):
        sl = a.legs[ax]
        m = sl.pipe['map']
        exp = np.take(exp, m.reshape(-1), axis=ax)
        exp = exp.reshape(exp.shape[:ax] + m.shape + exp.shape[ax + 1:])
    for ax in range(a.ndim):
        sl = a.legs[ax]
        if ax in chosen:
            legs.extend(sl.pipe['sub'])
            labels.extend(split_label(a.labels[ax], len(sl.pipe['sub'])))
        else:
            legs.append(sl)
            labels.append(a.labels[ax])
    return {'new': [Slot(r, exp, labels, legs, a.qtotal, 'split_legs')], 'retkind': 'deep'}


# ==========================================================================================
# indexing
# ==========================================================================================
def _rand_index(P, n, allow_int=True):
    """Random index object for an axis of length n: returns (python index object, list of selected indices | int)."""
    rng = P.rng
    kinds = ['full', 'slice', 'mask', 'array_sorted', 'array_unsorted']
    if allow_int and n > 0:
        kinds += ['int', 'int']
    kind = str(rng.choice(kinds))
    if n == 0 and kind != 'full':
        kind = 'full'
    if kind == 'full':
        return slice(None), list(range(n)), kind
    if kind == 'int':
        i = int(rng.integers(n))
        if rng.random() < 0.3:
            return i - n, i, kind
        return i, i, kind
    if kind == 'slice':
        lo = int(rng.integers(0, n))
        hi = int(rng.integers(lo + 1, n + 1))
        step = 1 if rng.random() < 0.7 else 2
        return slice(lo, hi, step), list(range(lo, hi, step)), kind
    if kind == 'mask':
        m = rng.random(n) < 0.6
        if not m.any():
            m[int(rng.integers(n))] = True
        return m, [int(x) for x in np.nonzero(m)[0]], kind
    k = int(rng.integers(1, n + 1))
    sel = [int(x) for x in rng.permutation(n)[:k]]
    if kind == 'array_sorted':
        sel = sorted(sel)
    return (np.array(sel) if rng.random() < 0.5 else list(sel)), sel, kind


def _apply_index_dense(dense, sels):
    """sels: per axis list of indices or int."""
    out = dense
    ax = 0
    for sel in sels:
        if isinstance(sel, int):
            out = np.take(out, sel, axis=ax)
        else:
            out = np.take(out, np.array(sel, dtype=np.intp), axis=ax)
            ax += 1
    return out


def _index_shadow(P, a, sels, kinds=None):
    labels, legs = [], []
    qt = a.qtotal.copy()
    for ax, sel in enumerate(sels):
        sl = a.legs[ax]
        if isinstance(sel, int):
            qt = qt - sl.qconj * sl.qflat[sel]
        else:
            # only an untouched axis (slice(None)) keeps a pipe; any projection turns it into a plain leg
            full = (kinds[ax] == 'full') if kinds is not None else (sel == list(range(sl.n)))
            legs.append(sl if full else SLeg(sl.qflat[np.array(sel, dtype=np.intp)], sl.qconj, None))
            labels.append(a.labels[ax])
    return labels, legs, gen.mod_valid(qt, P.mod)


@op('getitem', 4.0)
def op_getitem(P):
    rng = P.rng
    a = P.pick_slot(lambda s: s.ndim >= 1)
    inds, sels, kinds = [], [], []
    for ax in range(a.ndim):
        i, sel, kind = _rand_index(P, a.shape[ax])
        inds.append(i)
        sels.append(sel)
        kinds.append(kind)
    # optional Ellipsis replacing trailing/leading full slices
    py_inds = list(inds)
    if rng.random() < 0.3:
        t = len(py_inds)
        while t > 0 and kinds[t - 1] == 'full':
            t -= 1
        if t < len(py_inds):
            py_inds = py_inds[:t] + ([Ellipsis] if rng.random() < 0.5 or t == 0 else [])
            if not py_inds:
                py_inds = [Ellipsis]
    for k in kinds:
        P.count('getitem.' + k)
    P.log.append(['getitem', {'a': P.slots.index(a), 'inds': repr(py_inds)}])
    key = tuple(py_inds) if len(py_inds) > 1 or rng.random() < 0.5 else py_inds[0]
    r = a.arr[key]
    exp = _apply_index_dense(a.dense, sels)
    if all(isinstance(s, int) for s in sels):
        return {'scalar': (r, exp, a.dense.dtype)}
    labels, legs, qt = _index_shadow(P, a, sels, kinds)
    return {'new': [Slot(r, exp, labels, legs, qt, 'getitem')], 'retkind': 'deep'}


@op('take_slice', 1.5)
def op_take_slice(P):
    rng = P.rng
    a = P.pick_slot(lambda s: s.ndim >= 1 and all(n > 0 for n in s.shape))
    if a.ndim < 2:
        raise Skip()
    k = int(rng.integers(1, a.ndim))
    axes = [int(x) for x in rng.permutation(a.ndim)[:k]]
    idx = [int(rng.integers(a.shape[x])) for x in axes]
    refs = [axis_ref(P, a, x) for x in axes]
    P.log.append(['take_slice', {'a': P.slots.index(a), 'indices': idx, 'axes': refs}])
    if k == 1 and rng.random() < 0.5:
        r = a.arr.take_slice(idx[0], refs[0])
    else:
        r = a.arr.take_slice(idx, refs)
    sels = [list(range(n)) for n in a.shape]
    for x, i in zip(axes, idx):
        sels[x] = i
    exp = _apply_index_dense(a.dense, sels)
    labels, legs, qt = _index_shadow(P, a, sels, ['full'] * a.ndim)
    if k == a.ndim:
        # rank-0 Array
        return {'new': [Slot(r, exp, labels, legs, qt, 'take_slice')], 'retkind': 'deep'}
    return {'new': [Slot(r, exp, labels, legs, qt, 'take_slice')], 'retkind': 'deep'}


@op('setitem', 3.0)
def op_setitem(P):
    rng = P.rng
    a = P.pick_slot(lambda s: s.ndim >= 1 and s.dense.size > 0)
    if rng.random() < 0.35:
        # scalar assignment at an index tuple allowed by the charge rule
        mask = gen.charge_mask([l.qflat for l in a.legs], [l.qconj for l in a.legs], a.qtotal, P.mod)
        pos = np.argwhere(mask)
        if len(pos) == 0:
            raise Skip()
        idx = tuple(int(x) for x in pos[int(rng.integers(len(pos)))])
        val = _rand_scalar(P, a.dense.dtype)
        if isinstance(val, complex) and a.dense.dtype.kind != 'c':
            val = val.real
        if a.dense.dtype.kind in 'iu':
            val = int(val)
        P.log.append(['setitem_scalar', {'a': P.slots.index(a), 'inds': list(idx), 'value': repr(val)}])
        a.arr[idx] = val
        a.dense = a.dense.copy()
        a.dense[idx] = val
        P.count('setitem.scalar')
        return {'modified': [a], 'retkind': 'inplace'}
    inds, sels, kinds = [], [], []
    for ax in range(a.ndim):
        i, sel, kind = _rand_index(P, a.shape[ax])
        inds.append(i)
        sels.append(sel)
        kinds.append(kind)
    if all(isinstance(s, int) for s in sels):
        raise Skip()
    labels, legs, qt = _index_shadow(P, a, sels)
    # build `other` with the legs of a[inds] (taken from the real object, as the documentation prescribes)
    view = a.arr[tuple(inds)]
    if view.size == 0:
        raise Skip()
    as_flat = rng.random() < 0.3
    dt = str(a.dense.dtype)
    # (the right-hand side may lack blocks which the target region has: the assignment then has to clear them)
    other, od, _, _ = gen.rand_array(rng, view.legs, dtype=dt, qtotal=view.qtotal, labels=None, fill=None if rng.random() < 0.5 else 'all')
    if not as_flat and view.stored_blocks >= 1 and other.stored_blocks > view.stored_blocks and rng.random() < 0.6:
        # the target region lacks a block the right-hand side has, and the right-hand side lacks one the target has:
        # as many (or more) blocks on the right, but not the same ones
        # (chosen from the sorted list: the storage order of blocks is not part of the value and may differ between implementations)
        q_rm = [int(x) for x in sorted(np.asarray(view._qdata).tolist())[int(rng.integers(view.stored_blocks))]]
        sl = tuple(slice(int(l.slices[q]), int(l.slices[q + 1])) for l, q in zip(view.legs, q_rm))
        od = od.copy()
        od[sl] = 0
        from tenpy.linalg import np_conserved as npc_
        other = npc_.Array.from_ndarray(od, view.legs, dtype=np.dtype(dt), qtotal=view.qtotal)
        other.ipurge_zeros(0.)
        P.count('setitem.rhs_lacks_a_block_of_the_target')
    P.log.append(['setitem', {'a': P.slots.index(a), 'inds': repr(inds), 'other': 'flat' if as_flat else 'npc'}])
    for k in kinds:
        P.count('setitem.' + k)
    try:
        a.arr[tuple(inds)] = od if as_flat else other
    except Exception as e:
        import traceback as _tb
        if 'read-only' in str(e):
            raise
        if 'array_unsorted' in kinds and any('/tenpy/' in f.filename for f in _tb.extract_tb(e.__traceback__)):
            # known mechanism: `other` is permuted (and thereby bunched) before it is compared with the
            # un-bunched projected part of self
            if 'c01' in P.monitors or 'c04' in P.monitors:
                P.violation('setitem:unsorted-index-array-raises',
                            'a[inds] = other with an unsorted integer index array raises %s: %s' %
                            (type(e).__name__, str(e)[:200]))
            P.slots.remove(a)
            return {}
        raise
    exp = a.dense.copy()
    ix = []
    int_axes = []
    for ax, sel in enumerate(sels):
        if isinstance(sel, int):
            ix.append(np.array([sel]))
            int_axes.append(ax)
        else:
            ix.append(np.array(sel, dtype=np.intp))
    od_full = od
    for ax in int_axes:
        od_full = np.expand_dims(od_full, ax)
    if all(len(x) > 0 for x in ix):
        exp[np.ix_(*ix)] = od_full
    a.dense = exp
    P.count('setitem.insert_new_block')
    return {'modified': [a], 'retkind': 'inplace'}


@op('iproject', 2.0)
def op_iproject(P):
    rng = P.rng
    a = P.pick_slot(lambda s: s.ndim >= 1 and all(n > 0 for n in s.shape))
    k = int(rng.integers(1, min(a.ndim, 2) + 1))
    axes = [int(x) for x in rng.permutation(a.ndim)[:k]]
    masks, sels = [], [list(range(n)) for n in a.shape]
    for x in axes:
        n = a.shape[x]
        if rng.random() < 0.6:
            m = rng.random(n) < 0.6
            if not m.any():
                m[0] = True
            masks.append(m)
            sels[x] = [int(i) for i in np.nonzero(m)[0]]
        else:
            kk = int(rng.integers(1, n + 1))
            sel = sorted(int(i) for i in rng.permutation(n)[:kk])
            masks.append(np.array(sel))
            sels[x] = sel
    refs = [axis_ref(P, a, x) for x in axes]
    cp = a.arr.copy(deep=True)
    P.log.append(['iproject', {'a': P.slots.index(a), 'axes': refs, 'sel': [sels[x] for x in axes]}])
    if k == 1 and rng.random() < 0.5:
        cp.iproject(masks[0], refs[0])
    else:
        cp.iproject(masks, refs)
    exp = _apply_index_dense(a.dense, sels)
    labels, legs, qt = _index_shadow(P, a, sels, ['proj' if x in axes else 'full' for x in range(a.ndim)])
    return {'new': [Slot(cp, exp, labels, legs, qt, 'iproject')], 'retkind': 'deep'}


@op('permute', 1.5)
def op_permute(P):
    rng = P.rng
    a = P.pick_slot(lambda s: s.ndim >= 1)
    ax = int(rng.integers(a.ndim))
    n = a.shape[ax]
    perm = [int(x) for x in rng.permutation(n)]
    P.log.append(['permute', {'a': P.slots.index(a), 'perm': perm, 'axis': ax}])
    r = a.arr.permute(np.array(perm, dtype=np.intp), axis_ref(P, a, ax))
    exp = np.take(a.dense, np.array(perm, dtype=np.intp), axis=ax)
    legs = list(a.legs)
    legs[ax] = SLeg(a.legs[ax].qflat[np.array(perm, dtype=np.intp)], a.legs[ax].qconj, None)
    P.count('permute.mixing_blocks')
    return {'new': [Slot(r, exp, a.labels, legs, a.qtotal, 'permute')], 'retkind': 'deep'}


@op('sort_legcharge', 2.0)
def op_sort_legcharge(P):
    rng = P.rng
    a = P.pick_slot(lambda s: s.ndim >= 1)
    mode = str(rng.choice(['default', 'lists', 'flags']))
    if mode == 'default':
        kw = {}
    elif mode == 'flags':
        kw = {'sort': bool(rng.random() < 0.5), 'bunch': bool(rng.random() < 0.5)}
    else:
        sort = []
        for ax in range(a.ndim):
            r = rng.random()
            if r < 0.3 and a.shape[ax] > 0:
                # explicit permutation of the *blocks* (qind) as documented: "a 1D array perm for a given permutation"
                sort.append(bool(rng.random() < 0.5))
            else:
                sort.append(bool(r < 0.65))
        kw = {'sort': sort, 'bunch': [bool(rng.random() < 0.5) for _ in range(a.ndim)]}
    if mode == 'lists' and tuple(P.monitors) == ('c01', ) and a.ndim >= 1 and a.shape[0] > 1 and rng.random() < 0.15:
        # documented argument form: an entry of `sort` may be "a 1D array perm for a given permutation to apply to a leg"
        kw2 = {'sort': [np.asarray(rng.permutation(a.arr.legs[0].block_number), dtype=np.intp)] + [False] * (a.ndim - 1), 'bunch': False}
        try:
            a.arr.sort_legcharge(**kw2)
            P.count('sort_legcharge.perm_entry_accepted')
        except ValueError as e:
            if 'truth value of an array' in str(e):
                P.violation('sort_legcharge:perm-entry-in-sort-list:raises-ValueError', 'sort=[perm, False, ...] raises: %s' % str(e)[:120])
            else:
                raise
    P.log.append(['sort_legcharge', {'a': P.slots.index(a), 'kw': repr(kw)}])
    perm, r = a.arr.sort_legcharge(**kw)
    if len(perm) != a.ndim:
        P.violation('sort_legcharge:perm-length', '')
        return {}
    ix = []
    legs = []
    for ax, p in enumerate(perm):
        p = np.asarray(p, dtype=np.intp)
        if sorted(p.tolist()) != list(range(a.shape[ax])):
            P.violation('sort_legcharge:perm-not-permutation', 'axis %d perm %r' % (ax, p.tolist()))
            return {}
        ix.append(p)
        ident = np.array_equal(p, np.arange(len(p)))
        legs.append(a.legs[ax] if ident and not _bunch_changes(r.legs[ax], a.arr.legs[ax]) else
                    SLeg(a.legs[ax].qflat[p], a.legs[ax].qconj, None))
    exp = a.dense[np.ix_(*ix)] if a.ndim else a.dense
    # documented guarantee: legs sorted *and* bunched are blocked by charge
    sflags = kw.get('sort', True)
    bflags = kw.get('bunch', True)
    for ax in range(a.ndim):
        s_ = sflags if isinstance(sflags, bool) else sflags[ax]
        b_ = bflags if isinstance(bflags, bool) else bflags[ax]
        if s_ is True and b_ is True and not _harness_blocked(r.legs[ax]):
            P.violation('sort_legcharge:not-blocked', 'axis %d sorted+bunched but charges %r' %
                        (ax, np.asarray(r.legs[ax].charges).tolist()))
        if s_ is True and not _harness_sorted(r.legs[ax]):
            P.violation('sort_legcharge:not-sorted', 'axis %d charges %r' % (ax, np.asarray(r.legs[ax].charges).tolist()))
    return {'new': [Slot(r, exp, a.labels, legs, a.qtotal, 'sort_legcharge')], 'retkind': 'shallow'}


def _bunch_changes(new_leg, old_leg):
    return new_leg is not old_leg


def _harness_sorted(leg):
    ch = [tuple(c[::-1]) for c in np.asarray(leg.charges).tolist()]
    return all(ch[i] <= ch[i + 1] for i in range(len(ch) - 1))


def _harness_blocked(leg):
    ch = list(map(tuple, np.asarray(leg.charges).tolist()))
    return len(set(ch)) == len(ch)


@op('scale_axis', 2.0)
def op_scale_axis(P):
    rng = P.rng
    a = P.pick_slot(lambda s: s.ndim >= 1)
    ax = int(rng.integers(a.ndim))
    n = a.shape[ax]
    cplx = a.dense.dtype.kind == 'c' and rng.random() < 0.4
    s = np.round(rng.standard_normal(n), 2)
    if cplx:
        s = s + 1j * np.round(rng.standard_normal(n), 2)
    if a.dense.dtype.kind in 'iu':
        s = rng.integers(-2, 3, size=n)
    inplace = rng.random() < 0.5
    ref = axis_ref(P, a, ax)
    P.log.append(['iscale_axis' if inplace else 'scale_axis', {'a': P.slots.index(a), 'axis': ref, 's': s.tolist() if not cplx else repr(s)}])
    sh = [1] * a.ndim
    sh[ax] = n
    exp = a.dense * s.reshape(sh)
    if inplace:
        r = a.arr.iscale_axis(s, ref)
        if r is not a.arr:
            P.violation('iscale_axis:does-not-return-self', '')
        a.dense = exp
        return {'modified': [a], 'retkind': 'inplace'}
    r = a.arr.scale_axis(s, ref)
    return {'new': [Slot(r, exp, a.labels, a.legs, a.qtotal, 'scale_axis')], 'retkind': 'shallow'}


@op('concatenate', 2.0)
def op_concatenate(P):
    rng = P.rng
    a = P.pick_slot(lambda s: s.ndim >= 1)
    ax = int(rng.integers(a.ndim))
    n = int(rng.integers(1, 3))
    parts = [a]
    for _ in range(n):
        legs = list(a.arr.legs)
        nl = P.new_leg(qconj=int(a.arr.legs[ax].qconj) if rng.random() < 0.7 else None)
        size = int(np.prod([max(x, 1) for j, x in enumerate(a.shape) if j != ax])) * max(nl.ind_len, 1)
        if size > P.max_size:
            continue
        legs[ax] = nl
        b = P.make_array(legs, labels=gen.rand_labels(rng, a.ndim), qtotal=a.qtotal)
        b.legs = [a.legs[j] if j != ax else b.legs[j] for j in range(a.ndim)]
        P.add_slot(b)
        parts.append(b)
    if len(parts) < 2 and rng.random() < 0.7:
        raise Skip()
    copy = bool(rng.random() < 0.7)
    ref = axis_ref(P, a, ax)
    P.log.append(['concatenate', {'arrays': [P.slots.index(p) for p in parts], 'axis': ref, 'copy': copy,
                                  'new': [P.describe(p) for p in parts[1:]]}])
    r = npc().concatenate([p.arr for p in parts], axis=ref, copy=copy)
    exp = np.concatenate([p.dense for p in parts], axis=ax)
    qc = a.legs[ax].qconj
    qf = np.concatenate([gen.mod_valid(p.legs[ax].qflat * (1 if p.legs[ax].qconj == qc else -1), P.mod) for p in parts], axis=0)
    legs = list(a.legs)
    legs[ax] = SLeg(qf, qc, None)
    return {'new': [Slot(r, exp, a.labels, legs, a.qtotal, 'concatenate')], 'retkind': 'deep' if copy else 'shallow'}


@op('add_remove_leg', 2.0)
def op_add_remove_leg(P):
    rng = P.rng
    a = P.pick_slot()
    kind = str(rng.choice(['add_trivial_leg', 'add_leg', 'squeeze', 'extend']))
    nq = len(P.mod)
    if kind == 'add_trivial_leg':
        ax = int(rng.integers(0, a.ndim + 1))
        lbl = None if rng.random() < 0.4 else 'triv%d' % len(P.log)
        qc = int(rng.choice([1, -1]))
        P.log.append([kind, {'a': P.slots.index(a), 'axis': ax, 'label': lbl, 'qconj': qc}])
        r = a.arr.add_trivial_leg(ax, lbl, qc)
        legs = list(a.legs)
        legs.insert(ax, SLeg(np.zeros((1, nq), dtype=np.int64), qc, None))
        labels = list(a.labels)
        labels.insert(ax, lbl)
        return {'new': [Slot(r, np.expand_dims(a.dense, ax), labels, legs, a.qtotal, kind)], 'retkind': 'shallow'}
    if kind == 'add_leg':
        leg = P.new_leg()
        if leg.ind_len == 0 or a.dense.size * leg.ind_len > P.max_size:
            raise Skip()
        i = int(rng.integers(leg.ind_len))
        ax = int(rng.integers(0, a.ndim + 1))
        lbl = None if rng.random() < 0.4 else 'new%d' % len(P.log)
        P.log.append([kind, {'a': P.slots.index(a), 'axis': ax, 'i': i, 'label': lbl}])
        r = a.arr.add_leg(leg, i, ax, lbl)
        sl = SLeg.from_leg(leg)
        exp = np.zeros(a.shape[:ax] + (leg.ind_len, ) + a.shape[ax:], dtype=a.dense.dtype)
        idx = [slice(None)] * (a.ndim + 1)
        idx[ax] = i
        exp[tuple(idx)] = a.dense
        legs = list(a.legs)
        legs.insert(ax, sl)
        labels = list(a.labels)
        labels.insert(ax, lbl)
        qt = gen.mod_valid(a.qtotal + sl.qconj * sl.qflat[i], P.mod)
        return {'new': [Slot(r, exp, labels, legs, qt, kind)], 'retkind': 'deep'}
    if kind == 'squeeze':
        ones = [i for i, n in enumerate(a.shape) if n == 1]
        if not ones:
            raise Skip()
        if rng.random() < 0.5:
            chosen, arg = ones, None
        else:
            chosen = sorted(int(x) for x in rng.permutation(ones)[:int(rng.integers(1, len(ones) + 1))])
            arg = [axis_ref(P, a, x) for x in chosen]
            if len(arg) == 1 and rng.random() < 0.5:
                arg = arg[0]
        P.log.append([kind, {'a': P.slots.index(a), 'axes': repr(arg)}])
        r = a.arr.squeeze(arg) if arg is not None else a.arr.squeeze()
        exp = np.squeeze(a.dense, axis=tuple(chosen))
        qt = a.qtotal.copy()
        for x in chosen:
            qt = qt - a.legs[x].qconj * a.legs[x].qflat[0]
        keep = [i for i in range(a.ndim) if i not in chosen]
        if not keep:
            return {'scalar': (r, exp, a.dense.dtype)}
        return {'new': [Slot(r, exp, [a.labels[i] for i in keep], [a.legs[i] for i in keep], gen.mod_valid(qt, P.mod),
                             kind)], 'retkind': 'deep'}
    # extend
    if a.ndim == 0:
        raise Skip()
    ax = int(rng.integers(a.ndim))
    if rng.random() < 0.5:
        extra = int(rng.integers(1, 4))
        eq = np.zeros((extra, nq), dtype=np.int64)
        arg = extra
    else:
        leg = P.new_leg(qconj=int(a.arr.legs[ax].qconj))
        if leg.ind_len == 0:
            raise Skip()
        eq = gen.leg_qflat(leg)
        arg = leg
    if a.dense.size // max(a.shape[ax], 1) * (a.shape[ax] + len(eq)) > 2 * P.max_size:
        raise Skip()
    P.log.append([kind, {'a': P.slots.index(a), 'axis': ax, 'extra': eq.tolist()}])
    r = a.arr.extend(axis_ref(P, a, ax), arg)
    pad = [(0, 0)] * a.ndim
    pad[ax] = (0, len(eq))
    exp = np.pad(a.dense, pad)
    legs = list(a.legs)
    legs[ax] = SLeg(np.concatenate([a.legs[ax].qflat, eq], axis=0), a.legs[ax].qconj, None)
    return {'new': [Slot(r, exp, a.labels, legs, a.qtotal, kind)], 'retkind': 'deep'}


@op('gauge_total_charge', 1.0)
def op_gauge(P):
    rng = P.rng
    a = P.pick_slot(lambda s: s.ndim >= 1)
    if not P.mod:
        raise Skip()
    ax = int(rng.integers(a.ndim))
    newqt = None if rng.random() < 0.4 else gen.mod_valid(gen.rand_charge(rng, P.mod), P.mod)
    new_qconj = None if rng.random() < 0.5 else int(rng.choice([1, -1]))
    P.log.append(['gauge_total_charge', {'a': P.slots.index(a), 'axis': ax, 'newqtotal': None if newqt is None else newqt.tolist(),
                                         'new_qconj': new_qconj}])
    r = a.arr.gauge_total_charge(axis_ref(P, a, ax), newqt, new_qconj)
    qt = np.zeros(len(P.mod), dtype=np.int64) if newqt is None else newqt
    sl = a.legs[ax]
    qc = sl.qconj if new_qconj is None else new_qconj
    # charge rule: qc*q' = sl.qconj*q + (qt_new - qt_old)
    qf = gen.mod_valid(qc * (sl.qconj * sl.qflat + (qt - a.qtotal)[None, :]), P.mod)
    legs = list(a.legs)
    legs[ax] = SLeg(qf, qc, None)
    return {'new': [Slot(r, a.dense, a.labels, legs, qt, 'gauge_total_charge')], 'retkind': 'shallow'}


@op('misc', 3.0)
def op_misc(P):
    rng = P.rng
    a = P.pick_slot()
    kind = str(rng.choice(['copy_deep', 'copy_shallow', 'astype', 'zeros_like', 'ipurge_zeros', 'isort_qdata', 'norm', 'eq',
                           'replace_label', 'iset_leg_labels', 'unary_blockwise', 'as_completely_blocked', 'idrop_labels',
                           'make_pipe_legcharge']))
    P.log.append([kind, {'a': P.slots.index(a)}])
    if kind == 'copy_deep':
        return {'new': [Slot(a.arr.copy(deep=True), a.dense, a.labels, a.legs, a.qtotal, kind)], 'retkind': 'deep'}
    if kind == 'copy_shallow':
        return {'new': [Slot(a.arr.copy(deep=False), a.dense, a.labels, a.legs, a.qtotal, kind)], 'retkind': 'shallow'}
    if kind == 'astype':
        cands = [d for d in P.dtypes if np.can_cast(a.dense.dtype, np.dtype(d), 'same_kind')]
        dt = str(rng.choice(cands))
        if dt in ('float32', 'complex64'):
            P.single = True
        cp = bool(rng.random() < 0.7)
        P.log[-1][1].update(dtype=dt, copy=cp)
        same = np.dtype(dt) == a.arr.dtype
        r = a.arr.astype(dt, copy=cp)
        exp = a.dense.astype(dt)
        # astype never changes `a`; without copy and without a change of type the blocks are shared (documented)
        return {'new': [Slot(r, exp, a.labels, a.legs, a.qtotal, kind)], 'retkind': 'shallow' if (same and not cp) else 'deep'}
    if kind == 'zeros_like':
        return {'new': [Slot(a.arr.zeros_like(), np.zeros_like(a.dense), a.labels, a.legs, a.qtotal, kind)], 'retkind': 'deep'}
    if kind == 'ipurge_zeros':
        cut = float(rng.choice([1e-30, 1e-16, 0.5]))
        P.log[-1][1].update(cutoff=cut)
        # model: blocks whose norm is <= cutoff are dropped => entries set to zero (observable only for cutoff 0.5)
        exp = a.dense.copy()
        arr = a.arr
        for qinds in np.asarray(arr._qdata).tolist():
            sl = tuple(slice(int(l.slices[i]), int(l.slices[i + 1])) for l, i in zip(arr.legs, qinds))
            if np.linalg.norm(exp[sl].astype(complex).ravel()) <= cut * (1 - 1e-9):
                exp[sl] = 0
            elif np.linalg.norm(exp[sl].astype(complex).ravel()) <= cut * (1 + 1e-9):
                raise Skip()
        r = a.arr.ipurge_zeros(cut)
        a.dense = exp
        return {'modified': [a], 'retkind': 'inplace'}
    if kind == 'isort_qdata':
        a.arr.isort_qdata()
        return {'modified': [a], 'retkind': 'inplace'}
    if kind == 'norm':
        o = rng.choice([None, 1, 2, np.inf, 0])
        if o == 0 and a.dense.dtype.kind not in 'fc':
            o = None
        P.log[-1][1].update(ord=repr(o))
        got = npc().norm(a.arr, o) if rng.random() < 0.5 else a.arr.norm(o)
        flat = a.dense.reshape(-1)
        if o == 0:
            exp = np.count_nonzero(flat)
        else:
            exp = np.linalg.norm(flat.astype(np.result_type(a.dense.dtype, 'f4')), o) if flat.size else 0.
        return {'scalar': (got, exp, a.dense.dtype)}
    if kind == 'eq':
        b = a.arr.copy(deep=True)
        same = rng.random() < 0.5
        if not same:
            if b.stored_blocks == 0 or a.dense.dtype.kind in 'iu' and False:
                raise Skip()
            # (the storage order of blocks is not part of the value and may differ between the two implementations: choose from
            #  the sorted list, and consume the same number of draws whatever the size of the block)
            order = sorted(range(len(b._data)), key=lambda k_: np.asarray(b._qdata)[k_].tolist())
            blk = b._data[order[int(rng.integers(len(b._data)))]]
            u = rng.random()
            if blk.size == 0:
                raise Skip()
            blk.flat[min(int(u * blk.size), blk.size - 1)] += 1
        got = (a.arr == b)
        if bool(got) != same:
            P.violation('eq:wrong', '== returned %r for %s arrays' % (got, 'equal' if same else 'different'))
        return {}
    if kind == 'replace_label':
        labs = [l for l in a.labels if l is not None]
        if not labs:
            raise Skip()
        old = labs[int(rng.integers(len(labs)))]
        new = 'r%d' % len(P.log)
        inplace = rng.random() < 0.5
        P.log[-1][1].update(old=old, new=new, inplace=inplace)
        labels = [new if l == old else l for l in a.labels]
        if inplace:
            r = a.arr.ireplace_label(old, new)
            a.labels = labels
            return {'modified': [a], 'retkind': 'inplace'}
        r = a.arr.replace_label(old, new)
        return {'new': [Slot(r, a.dense, labels, a.legs, a.qtotal, kind)], 'retkind': 'shallow'}
    if kind == 'iset_leg_labels':
        labels = gen.rand_labels(rng, a.ndim)
        P.log[-1][1].update(labels=labels)
        a.arr.iset_leg_labels(labels)
        a.labels = list(labels)
        return {'modified': [a], 'retkind': 'inplace'}
    if kind == 'idrop_labels':
        labs = [l for l in a.labels if l is not None]
        if rng.random() < 0.5 or not labs:
            a.arr.idrop_labels()
            a.labels = [None] * a.ndim
        else:
            drop = [labs[int(rng.integers(len(labs)))]]
            P.log[-1][1].update(drop=drop)
            a.arr.idrop_labels(drop)
            a.labels = [None if l in drop else l for l in a.labels]
        return {'modified': [a], 'retkind': 'inplace'}
    if kind == 'unary_blockwise':
        f = str(rng.choice(['real', 'imag', 'abs2', 'negative']))
        P.log[-1][1].update(func=f)
        if f == 'real':
            r, exp = a.arr.unary_blockwise(np.real), np.real(a.dense)
        elif f == 'imag':
            # (numpy's imag of a real array is a read-only array of zeros: make the blocks writeable as numpy users have to)
            r, exp = a.arr.unary_blockwise(lambda x: np.array(np.imag(x))), np.imag(a.dense)
        elif f == 'negative':
            r, exp = a.arr.unary_blockwise(np.negative), -a.dense
        else:
            r, exp = a.arr.unary_blockwise(lambda x, p: np.abs(x)**p, 2), np.abs(a.dense)**2
        return {'new': [Slot(r, exp, a.labels, a.legs, a.qtotal, kind)], 'retkind': 'shallow'}
    if kind == 'as_completely_blocked':
        if a.ndim == 0:
            raise Skip()
        try:
            enc, r = a.arr.as_completely_blocked()
        except ValueError as e:
            # the documented result carries the pipe labels '(label)' of the encapsulated legs: refused if that name is taken
            if 'Duplicate label' in str(e) and any(isinstance(l, str) and ('(' + l + ')') in a.labels for l in a.labels):
                P.count('as_completely_blocked.refused_duplicate_labels')
                raise Skip()
            raise
        for i, l in enumerate(r.legs):
            if not _harness_blocked(l):
                P.violation('as_completely_blocked:leg-not-blocked', 'leg %d charges %r (encapsulated axes %r)' %
                            (i, np.asarray(l.charges).tolist(), list(enc)))
        if not r.is_completely_blocked():
            P.violation('as_completely_blocked:not-blocked', '')
        if len(enc) == 0:
            return {}
        nl = [l for l in a.labels if l is not None]
        back = r.split_legs(list(enc))
        labs_ = [None if (i in list(enc) and isinstance(l, str) and l.startswith('?')) else l for i, l in enumerate(a.labels)]
        sl_ = Slot(back, a.dense, labs_, a.legs, a.qtotal, kind)
        sl_.qmark_ok = True
        return {'new': [sl_], 'retkind': 'deep'}
    if kind == 'make_pipe_legcharge':
        if a.ndim < 2:
            raise Skip()
        axes = [int(x) for x in rng.permutation(a.ndim)[:2]]
        pipe = a.arr.make_pipe([axis_ref(P, a, x) for x in axes], qconj=int(rng.choice([1, -1])))
        r = a.arr.combine_legs([axes], pipes=[pipe])
        sl = _pipe_sleg(P, 'make_pipe', r.legs[min(axes) if True else 0] if False else r.legs[_first_pos(axes)], [a.legs[x] for x in axes])
        exp, final = _combine_dense(a.dense, [axes], [_first_pos(axes)], [sl.pipe['map']])
        lab = placeholder_labels(a.labels)
        labels, legs = [], []
        for f in final:
            if len(f) == 2:
                labels.append('(' + '.'.join(lab[x] for x in f) + ')')
                legs.append(sl)
            else:
                labels.append(a.labels[f[0]])
                legs.append(a.legs[f[0]])
        sl2 = Slot(r, exp, labels, legs, a.qtotal, kind)
        sl2.qmark_ok = True
        return {'new': [sl2], 'retkind': 'deep'}
    raise Skip()


def _first_pos(axes):
    first = axes[0]
    return first - sum(1 for x in axes[1:] if x < first)


# ==========================================================================================
# leg-level operations (C02 flags, C03 immutability, C06 charge preservation)
# ==========================================================================================
def check_leg(P, name, leg, exp_eff=None, n=None):
    """leg invariants (+ optionally: effective charges qconj*q per flat index equal exp_eff mod)."""
    from . import tshadow as T
    out = []
    T.leg_invariants(leg, 'result leg', out)
    if 'c02' in P.monitors or 'c01' in P.monitors:
        for kind, what in out:
            P.violation('%s:%s' % (name, kind), what)
        P.n_inv += 1
    if exp_eff is not None:
        got = gen.mod_valid(leg.qconj * gen.leg_qflat(leg), P.mod)
        if got.shape != exp_eff.shape or not np.array_equal(got, gen.mod_valid(exp_eff, P.mod)):
            P.violation('%s:charges-not-preserved' % name, 'effective charges per index %r expected %r' %
                        (got.tolist(), gen.mod_valid(exp_eff, P.mod).tolist()))
        q2 = np.asarray(leg.to_qflat()).reshape(leg.ind_len, len(P.mod))
        if not np.array_equal(q2, gen.leg_qflat(leg)):
            P.violation('%s:to_qflat-inconsistent' % name, 'to_qflat() disagrees with slices/charges')
        P.n_cmp += 1


@op('legops', 2.0)
def op_legops(P):
    from tenpy.linalg.charges import LegCharge
    rng = P.rng
    if P.pool and rng.random() < 0.7:
        leg = P.pool[int(rng.integers(len(P.pool)))]
    else:
        leg = P.new_leg()
    eff = gen.mod_valid(leg.qconj * gen.leg_qflat(leg), P.mod)
    n = leg.ind_len
    kind = str(rng.choice(['sort', 'sort_nobunch', 'bunch', 'project', 'extend', 'flip', 'conj', 'qdict', 'from_qflat',
                           'get_qindex', 'charge_sectors', 'copy', 'get_qindex_of_charges']))
    P.log.append(['leg.' + kind, {'slices': np.asarray(leg.slices).tolist(), 'charges': np.asarray(leg.charges).tolist(),
                                  'qconj': int(leg.qconj)}])
    name = 'leg.' + kind
    if kind in ('sort', 'sort_nobunch'):
        bunch = kind == 'sort'
        perm_qind, cp = leg.sort(bunch=bunch)
        pf = leg.perm_flat_from_perm_qind(perm_qind)
        if sorted(np.asarray(pf).tolist()) != list(range(n)):
            P.violation(name + ':perm-not-permutation', repr(np.asarray(pf).tolist()))
            return {}
        check_leg(P, name, cp, eff[np.asarray(pf, dtype=np.intp)])
        if not _harness_sorted(cp):
            P.violation(name + ':not-sorted', repr(np.asarray(cp.charges).tolist()))
        if bunch and not _harness_blocked(cp):
            P.violation(name + ':not-blocked', repr(np.asarray(cp.charges).tolist()))
    elif kind == 'bunch':
        idx, cp = leg.bunch()
        check_leg(P, name, cp, eff)
        ch = np.asarray(cp.charges)
        if len(ch) > 1 and np.any(np.all(ch[1:] == ch[:-1], axis=1)):
            P.violation(name + ':not-bunched', repr(ch.tolist()))
        if int(np.asarray(idx)[-1]) != leg.block_number:
            P.violation(name + ':idx-last', repr(np.asarray(idx).tolist()))
    elif kind == 'project':
        if n == 0:
            raise Skip()
        mask = rng.random(n) < 0.6
        map_qind, block_masks, cp = leg.project(mask)
        check_leg(P, name, cp, eff[mask])
        mq = np.asarray(map_qind)
        if len(mq) != leg.block_number or sorted(x for x in mq.tolist() if x >= 0) != list(range(cp.block_number)):
            P.violation(name + ':map_qind-wrong', repr(mq.tolist()))
        if [int(np.sum(b)) for b in block_masks] != np.asarray(cp.get_block_sizes()).tolist():
            P.violation(name + ':block_masks-wrong', '')
    elif kind == 'extend':
        if rng.random() < 0.5:
            k = int(rng.integers(1, 4))
            cp = leg.extend(k)
            exp = np.concatenate([eff, np.zeros((k, len(P.mod)), dtype=np.int64)], axis=0)
        else:
            other = P.new_leg()
            cp = leg.extend(other)
            exp = np.concatenate([eff, gen.mod_valid(other.qconj * gen.leg_qflat(other), P.mod)], axis=0)
        check_leg(P, name, cp, exp)
        if cp.qconj != leg.qconj:
            P.violation(name + ':qconj-changed', '')
    elif kind == 'flip':
        cp = leg.flip_charges_qconj()
        check_leg(P, name, cp, eff)
        if cp.qconj != -leg.qconj:
            P.violation(name + ':qconj-not-flipped', '')
        try:
            leg.test_equal(cp)
            leg.test_contractible(cp.conj())
        except ValueError as e:
            P.violation(name + ':not-equal-to-original', str(e)[:200])
    elif kind == 'conj':
        cp = leg.conj()
        check_leg(P, name, cp, gen.mod_valid(-eff, P.mod))
        try:
            leg.test_contractible(cp)
        except ValueError as e:
            P.violation(name + ':conj-not-contractible', str(e)[:200])
        from tenpy.tools.optimization import optimize, OptimizationFlag
        if n > 0 and len(P.mod) and np.any(eff != 0) and not optimize(OptimizationFlag.skip_arg_checks):
            try:
                leg.test_contractible(leg)
                if np.any(gen.mod_valid(2 * eff, P.mod) != 0):
                    P.violation(name + ':test_contractible-accepts-non-conjugate', '')
            except ValueError:
                pass
    elif kind == 'qdict':
        if not P.mod:
            raise Skip()
        b = leg if _harness_blocked(leg) else leg.sort(bunch=True)[1]
        qd = b.to_qdict()
        # present the dict in a random insertion order
        items = list(qd.items())
        items = [items[i] for i in rng.permutation(len(items))]
        if not items:
            raise Skip()
        cp = LegCharge.from_qdict(P.chinfo, dict(items), qconj=b.qconj)
        check_leg(P, name, cp, gen.mod_valid(b.qconj * gen.leg_qflat(b), P.mod))
        try:
            b.test_equal(cp)
        except ValueError as e:
            P.violation(name + ':roundtrip-not-equal', str(e)[:200])
    elif kind == 'from_qflat':
        qf = gen.leg_qflat(leg)
        cp = LegCharge.from_qflat(P.chinfo, qf if rng.random() < 0.5 else qf.tolist(), leg.qconj) if n else None
        if cp is None:
            raise Skip()
        check_leg(P, name, cp, eff)
    elif kind == 'get_qindex':
        if n == 0:
            raise Skip()
        i = int(rng.integers(n))
        qi, within = leg.get_qindex(i if rng.random() < 0.7 else i - n)
        sl = np.asarray(leg.slices)
        if not (sl[qi] <= i < sl[qi + 1]) or within != i - sl[qi]:
            P.violation(name + ':wrong', 'index %d -> (%r, %r), slices %r' % (i, qi, within, sl.tolist()))
        for bad in (n, n + 3, -n - 1):
            try:
                r = leg.get_qindex(bad)
                P.violation(name + ':accepts-out-of-range-index', 'get_qindex(%d) on length %d returned %r' % (bad, n, r))
            except IndexError:
                pass
    elif kind == 'charge_sectors':
        cs = np.asarray(leg.charge_sectors())
        exp = sorted(set(map(tuple, np.asarray(leg.charges).tolist())))
        if sorted(map(tuple, cs.tolist())) != exp:
            P.violation(name + ':wrong', '')
    elif kind == 'copy':
        cp = leg.copy()
        check_leg(P, name, cp, eff)
        if cp is leg:
            P.violation(name + ':same-object', '')
    elif kind == 'get_qindex_of_charges':
        if leg.block_number == 0:
            raise Skip()
        _, b = leg.sort(bunch=True)
        k = int(rng.integers(b.block_number))
        q = np.asarray(b.get_charge(k))
        got = b.get_qindex_of_charges(q)
        if got != k:
            P.violation(name + ':wrong', 'charges %r are block %d, got %r' % (q.tolist(), k, got))
    return {}


@op('chargeops', 1.0)
def op_chargeops(P):
    """add_charge / drop_charge / change_charge: dense data unchanged, charge rule must hold with the new charges."""
    rng = P.rng
    a = P.pick_slot(lambda s: s.ndim >= 1 and all(l.pipe is None for l in s.legs) and 0 not in s.shape)
    kind = str(rng.choice(['drop_charge', 'change_charge', 'add_charge', 'apply_charge_mapping']))
    nq = len(P.mod)
    if kind == 'apply_charge_mapping' and rng.random() < 0.6:
        try:
            a = P.pick_slot(lambda s: s.ndim >= 1 and any(l.pipe is not None for l in s.legs) and 0 not in s.shape)  # pipes are mapped recursively
        except Skip:
            pass
    P.log.append([kind, {'a': P.slots.index(a)}])
    from .tprog import Prog
    if kind == 'drop_charge':
        if nq == 0:
            raise Skip()
        which = None if rng.random() < 0.3 else int(rng.integers(nq))
        r = a.arr.drop_charge(which)
        keep = [] if which is None else [j for j in range(nq) if j != which]
    elif kind == 'change_charge':
        if nq == 0:
            raise Skip()
        which = int(rng.integers(nq))
        m = P.mod[which]
        # a subgroup: new modulus must divide the old one (or old is U(1))
        cands = [d for d in (1, 2, 3, 4, 5) if (m == 1) or (d > 1 and m % d == 0)]
        newm = int(rng.choice(cands))
        r = a.arr.change_charge(which, newm, 'new')
        keep = None
    elif kind == 'apply_charge_mapping':
        if nq == 0:
            raise Skip()
        # a group homomorphism of the charges: q -> k * q (mod), with an individual integer k for every charge
        ks = np.array([int(rng.choice([-1, 2, 3, -2, 1, 0])) for _ in range(nq)], dtype=np.int64)
        chinfo_ = a.arr.chinfo

        def map_func(charges, factors):
            return chinfo_.make_valid(np.asarray(charges) * factors)

        r = a.arr.apply_charge_mapping(map_func, func_args=(ks, ))
        keep = None
        qt_exp = gen.mod_valid(np.asarray(a.qtotal) * ks, P.mod)
        if not np.array_equal(gen.mod_valid(np.asarray(r.qtotal), P.mod), qt_exp):
            P.violation(kind + ':qtotal', 'qtotal %r expected %r' % (np.asarray(r.qtotal).tolist(), qt_exp.tolist()))
        for ax, l in enumerate(r.legs):
            exp = gen.mod_valid(a.legs[ax].qflat * ks, P.mod)
            got_q = np.asarray(l.to_qflat()).reshape(l.ind_len, nq)
            if l.qconj != a.arr.legs[ax].qconj or not np.array_equal(gen.mod_valid(got_q, P.mod), exp):
                P.violation(kind + ':leg-charges', 'leg %d is not the image of the old charges' % ax)
        if r is a.arr:
            P.violation(kind + ':returns-self', 'inplace=False returned the array itself')
    else:
        # add a second copy of charge structure: legs given as LegCharges of a new ChargeInfo
        from tenpy.linalg.charges import ChargeInfo, LegCharge
        m = int(rng.choice([1, 2, 3]))
        ci = ChargeInfo([m], ['extra'])
        add_legs = []
        for l in a.arr.legs:
            # all-zero extra charge keeps the charge rule for any data
            add_legs.append(LegCharge.from_qflat(ci, np.zeros((l.ind_len, 1), dtype=np.int64), l.qconj) if l.ind_len else
                            LegCharge.from_qind(ci, [0], np.zeros((0, 1), dtype=np.int64), l.qconj))
        r = a.arr.add_charge(add_legs, qtotal=[0])
        keep = None
    # verification is model-free: same dense data, charge rule with the new legs, invariants, original untouched
    from . import tshadow as T
    got = r.to_ndarray()
    if got.shape != a.dense.shape or not np.allclose(got, a.dense, atol=1e-6 if P.single else 1e-12):
        P.violation(kind + ':value', 'dense data changed')
    newmod = [int(x) for x in r.chinfo.mod]
    qfl = [np.asarray(l.to_qflat()).reshape(l.ind_len, len(newmod)) for l in r.legs]
    if a.dense.size and len(newmod):
        mask = gen.charge_mask(qfl, [l.qconj for l in r.legs], np.asarray(r.qtotal), newmod)
        if np.any((np.abs(got) > 1e-6) & ~mask):
            P.violation(kind + ':charge-rule', 'entries violate the charge rule of the new charges')
    if kind == 'drop_charge' and which is not None:
        for ax, l in enumerate(r.legs):
            exp = a.legs[ax].qflat[:, keep]
            if a.legs[ax].qflat is not None and not np.array_equal(gen.mod_valid(qfl[ax], newmod), gen.mod_valid(exp, newmod)):
                P.violation(kind + ':leg-charges', 'remaining charges changed on leg %d' % ax)
    if 'c02' in P.monitors:
        for k2, what in T.array_invariants(r):
            P.violation('%s:%s' % (kind, k2), what)
        P.n_inv += 1
    return {'retkind': None}
