"""Harness-owned dense models for MPS / operators (numpy only; never calls the MPS code under test)."""
import itertools

import numpy as np

from . import gen


# ------------------------------------------------------------------------------------------------
# sites
# ------------------------------------------------------------------------------------------------
SITE_KINDS = ['spinhalf', 'spinhalf_Sz', 'spinhalf_parity', 'spin1_Sz', 'spin1', 'fermion_N', 'fermion_parity', 'fermion',
              'sf_N_Sz', 'sf_parity', 'sf_none', 'boson_N', 'boson', 'mixed_fermion_spin']


def make_sites(rng, L, kind=None):
    """Return (list of Site objects sharing one ChargeInfo, kind string)."""
    from tenpy.networks import site as S
    if kind is None:
        kind = str(rng.choice(SITE_KINDS))
    sort = bool(rng.random() < 0.7)
    if kind.startswith('spinhalf'):
        c = {'spinhalf': None, 'spinhalf_Sz': 'Sz', 'spinhalf_parity': 'parity'}[kind]
        s = S.SpinHalfSite(conserve=c, sort_charge=sort)
        return [s] * L, kind
    if kind.startswith('spin1'):
        s = S.SpinSite(S=1.0, conserve='Sz' if kind == 'spin1_Sz' else None, sort_charge=sort)
        return [s] * L, kind
    if kind.startswith('fermion'):
        c = {'fermion_N': 'N', 'fermion_parity': 'parity', 'fermion': None}[kind]
        s = S.FermionSite(conserve=c)
        return [s] * L, kind
    if kind.startswith('sf_'):
        cN, cS = {'sf_N_Sz': ('N', 'Sz'), 'sf_parity': ('parity', 'parity'), 'sf_none': (None, None)}[kind]
        s = S.SpinHalfFermionSite(cons_N=cN, cons_Sz=cS)
        return [s] * L, kind
    if kind.startswith('boson'):
        s = S.BosonSite(Nmax=2, conserve='N' if kind == 'boson_N' else None)
        return [s] * L, kind
    if kind == 'mixed_fermion_spin':
        f = S.FermionSite(conserve='N')
        sp = S.SpinHalfSite(conserve='Sz', sort_charge=False)
        S.set_common_charges([f, sp], new_charges='independent')
        return [f if (i % 2 == 0) else sp for i in range(L)], kind
    raise ValueError(kind)


def site_qflat(site):
    return gen.leg_qflat(site.leg), site.leg.qconj


def is_fermionic(site):
    return 'JW' in site.opnames and not np.allclose(np.diag(site.get_op('JW').to_ndarray()), 1)


def op_dense(site, name):
    """Dense matrix of a named local operator in the basis of the site's leg (products 'A B' allowed)."""
    return site.get_op(name).to_ndarray()


def jw_diag(site):
    return np.real(np.diag(site.get_op('JW').to_ndarray())) if 'JW' in site.opnames else np.ones(site.dim)


# ------------------------------------------------------------------------------------------------
# states
# ------------------------------------------------------------------------------------------------
def rand_sector_vector(rng, sites, cplx=None, sparse=0.0, fixed_charge=True):
    """Random dense state (shape dims) inside one charge sector. Returns (vec, qtotal)."""
    chinfo = sites[0].leg.chinfo
    mod = [int(m) for m in chinfo.mod]
    dims = [s.dim for s in sites]
    if cplx is None:
        cplx = rng.random() < 0.5
    v = rng.standard_normal(dims)
    if cplx:
        v = v + 1j * rng.standard_normal(dims)
    qfl = [gen.leg_qflat(s.leg) for s in sites]
    qc = [s.leg.qconj for s in sites]
    idx = [int(rng.integers(d)) for d in dims]
    qt = gen.mod_valid(sum(c * q[i] for c, q, i in zip(qc, qfl, idx)), mod) if len(mod) else np.zeros(0, dtype=np.int64)
    mask = gen.charge_mask(qfl, qc, qt, mod)
    v = np.where(mask, v, 0)
    if sparse:
        v = np.where(rng.random(dims) < sparse, 0, v)
        if not np.any(v):
            v[tuple(idx)] = 1.0
    return v, qt


def npc_state(sites, vec, qtotal):
    from tenpy.linalg import np_conserved as npc
    return npc.Array.from_ndarray(vec, [s.leg for s in sites], qtotal=qtotal, labels=['p%d' % i for i in range(len(sites))],
                                  cutoff=0.)


def _spow(S, p):
    S = np.asarray(S)
    if S.ndim != 1:
        raise NotImplementedError('non-diagonal singular values')
    if p == 0:
        return np.ones_like(S, dtype=float)
    if p > 0:
        return S**p
    out = np.zeros_like(S, dtype=float)
    nz = S > 1e-15
    out[nz] = S[nz]**p
    return out


def stored_tensor(psi, i):
    """Raw stored tensor of site i as ndarray with axes (vL, p, vR)."""
    B = psi._B[i]
    idx = [B.get_leg_index(l) for l in ('vL', 'p', 'vR')]
    return np.transpose(B.to_ndarray(), idx)


def tensor_in_form(psi, i, nuL, nuR):
    """Tensor of site i converted by the harness to form (nuL, nuR) from the raw storage."""
    T = stored_tensor(psi, i)
    f = psi.form[i]
    if f is None:
        raise ValueError('non-canonical site')
    SL, SR = psi._S[i], psi._S[(i + 1)] if (i + 1) < len(psi._S) else psi._S[0]
    a, b = nuL - f[0], nuR - f[1]
    return _spow(SL, a)[:, None, None] * T * _spow(SR, b)[None, None, :]


def mps_to_vector(psi, include_norm=True):
    """Dense state of a finite/segment MPS: returns array with axes (vL, p0, ..., p_{L-1}, vR)."""
    L = psi.L
    res = None
    canonical = all(f is not None for f in psi.form)
    for i in range(L):
        T = tensor_in_form(psi, i, 0., 1.) if canonical else stored_tensor(psi, i)
        if res is None:
            res = T
            if canonical:
                res = _spow(psi._S[0], 1.)[:, None, None] * res
        else:
            res = np.tensordot(res, T, axes=[[-1], [0]])
    if include_norm:
        res = res * psi.norm
    return res


def finite_vector(psi, include_norm=True):
    v = mps_to_vector(psi, include_norm)
    if v.shape[0] != 1 or v.shape[-1] != 1:
        raise ValueError('not a finite MPS')
    return v.reshape(v.shape[1:-1])


def schmidt_values(vec, cut):
    """Dense Schmidt values of a finite state (axes p0..p_{L-1}) at the bond left of site `cut`."""
    d = vec.shape
    m = vec.reshape(int(np.prod(d[:cut])) if cut else 1, -1)
    return np.linalg.svd(m, compute_uv=False)


def align_phase(a, b):
    """Return (|<a|b>| / (|a||b|), distance after optimal global phase)."""
    ov = np.vdot(a, b)
    na, nb = np.linalg.norm(a), np.linalg.norm(b)
    if na == 0 or nb == 0:
        return 0.0, float(np.linalg.norm(a - b))
    ph = ov / abs(ov) if abs(ov) > 0 else 1.0
    return abs(ov) / (na * nb), float(np.linalg.norm(a * ph - b))


# ------------------------------------------------------------------------------------------------
# operators on a chain (leg basis of each site), Jordan-Wigner by explicit strings
# ------------------------------------------------------------------------------------------------
def kron_all(mats):
    out = np.array([[1.0]])
    for m in mats:
        out = np.kron(out, m)
    return out


def op_on_chain(sites, ops):
    """ops: dict position -> dense matrix; identity elsewhere.  Returns the D x D matrix (C-order over sites)."""
    mats = [ops.get(i, np.eye(s.dim)) for i, s in enumerate(sites)]
    return kron_all(mats)


def term_matrix(sites, term, autoJW=True):
    """Dense matrix of a product of named operators [(name, i), ...] with the *physical* (fermionic) meaning:
    the operators are applied in the order given (leftmost factor acts last on the ket, i.e. O = O_1 O_2 ...),
    each fermionic operator name carrying its Jordan-Wigner string on all sites to its left."""
    D = int(np.prod([s.dim for s in sites]))
    M = np.eye(D, dtype=complex)
    for name, i in term:
        s = sites[i]
        need = autoJW and s.op_needs_JW(name)
        ops = {i: op_dense(s, name)}
        if need:
            for j in range(i):
                ops[j] = np.diag(jw_diag(sites[j]))
        M = M @ op_on_chain(sites, ops)
    return M


def expval(vec, M):
    v = vec.reshape(-1)
    return np.vdot(v, M @ v) / np.vdot(v, v)


# ------------------------------------------------------------------------------------------------
# MPO -> dense matrix (finite), harness contraction of the raw W tensors
# ------------------------------------------------------------------------------------------------
def mpo_to_matrix(mpo, left=None, right=None):
    """Dense matrix of a finite MPO from its W tensors and the IdL/IdR markers (C-order over sites, leg basis)."""
    L = mpo.L
    res = None
    for i in range(L):
        W = mpo.get_W(i)
        Wd = np.transpose(W.to_ndarray(), [W.get_leg_index(l) for l in ('wL', 'wR', 'p', 'p*')])
        if res is None:
            a = mpo.get_IdL(0) if left is None else left
            if a is None:
                raise ValueError('no IdL')
            res = Wd[a]  # (wR, p, p*)
            res = np.transpose(res, (1, 2, 0))  # (p, p*, wR)
        else:
            # res: (P, P*, w) ; Wd: (w, wR, p, p*)
            res = np.einsum('abw,wrpq->apbqr', res, Wd)
            sh = res.shape
            res = res.reshape(sh[0] * sh[1], sh[2] * sh[3], sh[4])
    b = mpo.get_IdR(L - 1) if right is None else right
    if b is None:
        raise ValueError('no IdR')
    return res[:, :, b]


def is_hermitian(M, tol=1e-10):
    return np.linalg.norm(M - M.conj().T) <= tol * max(1.0, np.linalg.norm(M))


def termlist_term_matrix(sites, term):
    """Matrix of a term as listed by `to_TermList()` of coupling terms: on-site Jordan-Wigner factors are written out in the
    operator names ('Cd JW'), but the string on the sites *between* the listed sites is implied: a JW operator sits on a gap site
    iff the operators to the right of it are in total fermionic (odd number flagged need_JW)."""
    term = sorted(term, key=lambda t: t[1])

    def odd(site, name):
        # physical fermion parity of the written operator (products like 'dNdN JW' are flagged need_JW by the bookkeeping
        # although they commute with the Jordan-Wigner sign): anticommutes with JW <=> odd
        O = op_dense(site, name)
        J = np.diag(jw_diag(site))
        return np.linalg.norm(O @ J + J @ O) < 1e-12 * max(1.0, np.linalg.norm(O)) and np.linalg.norm(O) > 0

    need = [odd(sites[i], n) for n, i in term]
    ops = {}
    for k, (n, i) in enumerate(term):
        if i in ops:
            ops[i] = ops[i] @ op_dense(sites[i], n)
        else:
            ops[i] = op_dense(sites[i], n)
        if k > 0 and sum(need[k:]) % 2 == 1:
            for g in range(term[k - 1][1] + 1, i):
                ops[g] = np.diag(jw_diag(sites[g]))
    return op_on_chain(sites, ops)
