"""Seeded generators for charge structures and block-sparse tensors (harness side).

Everything is a pure function of the numpy Generator passed in.  The *dense* reference data is produced
here with numpy only; tenpy constructors are called to build the object under test from it.
"""
import numpy as np

DTYPES = ['float64', 'complex128', 'float32', 'complex64', 'int64']
LEG_KINDS = ['blocked', 'sorted_dup', 'unsorted', 'dup_nonadjacent', 'single', 'empty']


def mod_valid(q, mod):
    """Harness-owned charge normalisation: q mod m where m>1, identity where m==1."""
    q = np.array(q, dtype=np.int64)
    mod = np.asarray(mod, dtype=np.int64)
    if q.size == 0:
        return q
    m = mod > 1
    if np.any(m):
        q[..., m] = np.mod(q[..., m], mod[m])
    return q


def rand_mod(rng, max_q=3, allow_trivial=True):
    nq = int(rng.choice([0, 1, 1, 1, 2, 2, 3][:] if allow_trivial else [1, 1, 2, 2, 3]))
    nq = min(nq, max_q)
    return [int(rng.choice([1, 1, 2, 3, 4, 5])) for _ in range(nq)]


def rand_chinfo(rng, max_q=3, allow_trivial=True):
    from tenpy.linalg.charges import ChargeInfo
    mod = rand_mod(rng, max_q, allow_trivial)
    names = ['q%d' % i for i in range(len(mod))] if rng.random() < 0.5 else None
    return ChargeInfo(mod, names)


def rand_charge(rng, mod, window=2):
    out = []
    for m in mod:
        if m == 1:
            out.append(int(rng.integers(-1, window + 1)))
        else:
            out.append(int(rng.integers(0, min(m, window + 1))))
    return out


def rand_leg_spec(rng, mod, kind=None, max_blocks=4, max_bs=3, qconj=None, window=2):
    """Return (block_sizes, charges(list of lists), qconj, kind): a harness description of a leg."""
    if kind is None:
        kind = str(rng.choice(LEG_KINDS, p=[0.3, 0.15, 0.25, 0.15, 0.1, 0.05]))
    if qconj is None:
        qconj = int(rng.choice([1, -1]))
    nq = len(mod)
    if kind == 'empty':
        return [], [], qconj, kind
    if kind == 'single' or nq == 0 and kind == 'blocked':
        nb = 1
    else:
        nb = int(rng.integers(1, max_blocks + 1))
    sizes = [int(rng.integers(1, max_bs + 1)) for _ in range(nb)]
    ch = [mod_valid(rand_charge(rng, mod, window), mod).tolist() for _ in range(nb)]
    if kind == 'blocked':
        uniq = sorted(set(map(tuple, ch)), key=lambda c: c[::-1])
        ch = [list(c) for c in uniq]
        sizes = sizes[:len(ch)]
    elif kind == 'sorted_dup':
        ch = ch + [list(ch[int(rng.integers(len(ch)))])]
        sizes = sizes + [int(rng.integers(1, max_bs + 1))]
        order = sorted(range(len(ch)), key=lambda i: tuple(ch[i][::-1]))
        ch = [ch[i] for i in order]
        sizes = [sizes[i] for i in order]
    elif kind == 'dup_nonadjacent':
        if len(ch) < 2:
            ch.append(mod_valid(rand_charge(rng, mod, window), mod).tolist())
            sizes.append(int(rng.integers(1, max_bs + 1)))
        ch = ch + [list(ch[0])]
        sizes = sizes + [int(rng.integers(1, max_bs + 1))]
    elif kind == 'unsorted':
        p = rng.permutation(len(ch))
        ch = [ch[i] for i in p]
    return sizes, ch, qconj, kind


def leg_from_spec(chinfo, sizes, charges, qconj):
    from tenpy.linalg.charges import LegCharge
    slices = np.concatenate([[0], np.cumsum(sizes)]).astype(np.intp)
    ch = np.array(charges, dtype=np.int64).reshape(len(sizes), chinfo.qnumber)
    return LegCharge.from_qind(chinfo, slices, ch, qconj)


def rand_leg(rng, chinfo, **kw):
    mod = [int(m) for m in chinfo.mod]
    sizes, ch, qconj, kind = rand_leg_spec(rng, mod, **kw)
    return leg_from_spec(chinfo, sizes, ch, qconj), kind


def qflat_of_spec(sizes, charges, nq):
    if not sizes:
        return np.zeros((0, nq), dtype=np.int64)
    return np.repeat(np.array(charges, dtype=np.int64).reshape(len(sizes), nq), sizes, axis=0)


def partner_leg(rng, leg, mode=None):
    """A leg contractible with `leg`, produced in one of three documented-equivalent ways."""
    from tenpy.linalg.charges import LegCharge
    if mode is None:
        mode = str(rng.choice(['conj', 'flip', 'rebuild']))
    if mode == 'conj':
        return leg.conj(), mode
    if mode == 'flip':
        # same effective charges, different stored sign: conj then flip_charges_qconj
        return leg.conj().flip_charges_qconj(), mode
    # independently built equal leg
    sl = np.array(leg.slices, dtype=np.intp)
    ch = np.array(leg.charges, dtype=np.int64)
    return LegCharge.from_qind(leg.chinfo, sl, ch, -leg.qconj), mode


# ------------------------------------------------------------------------------------------------
def charge_mask(qflats, qconjs, qtotal, mod):
    """Boolean ndarray: True where sum_i qconj_i * q_i[idx_i] == qtotal (mod)."""
    nq = len(mod)
    shape = tuple(q.shape[0] for q in qflats)
    if nq == 0:
        return np.ones(shape, dtype=bool)
    tot = np.zeros(shape + (nq, ), dtype=np.int64)
    for ax, (q, c) in enumerate(zip(qflats, qconjs)):
        sh = [1] * len(shape) + [nq]
        sh[ax] = shape[ax]
        tot = tot + c * q.reshape(sh)
    tot = tot - np.asarray(qtotal, dtype=np.int64).reshape([1] * len(shape) + [nq])
    return np.all(mod_valid(tot, mod) == 0, axis=-1)


def rand_values(rng, shape, dtype):
    dt = np.dtype(dtype)
    if dt.kind == 'i':
        return rng.integers(-3, 4, size=shape).astype(dt)
    x = rng.standard_normal(shape)
    if dt.kind == 'c':
        x = x + 1j * rng.standard_normal(shape)
    # round so that float32 paths compare cleanly and values are O(1)
    return np.round(x, 3).astype(dt)


def leg_qflat(leg):
    """Harness recomputation of flat charges from slices/charges (does not call to_qflat)."""
    sl = np.asarray(leg.slices)
    ch = np.asarray(leg.charges)
    sizes = sl[1:] - sl[:-1]
    if len(sizes) == 0:
        return np.zeros((0, ch.shape[1] if ch.ndim == 2 else 0), dtype=np.int64)
    return np.repeat(ch, sizes, axis=0).astype(np.int64)


def rand_qtotal(rng, legs, mod, p_zero=0.5):
    """A total charge for which at least one block is allowed (if any index tuple exists)."""
    nq = len(mod)
    if nq == 0:
        return np.zeros(0, dtype=np.int64)
    if rng.random() < p_zero or any(l.ind_len == 0 for l in legs):
        qt = np.zeros(nq, dtype=np.int64)
    else:
        idx = [int(rng.integers(l.ind_len)) for l in legs]
        qt = sum(l.qconj * leg_qflat(l)[i] for l, i in zip(legs, idx))
        qt = mod_valid(qt, mod)
    return qt


def rand_array(rng, legs, dtype='float64', qtotal=None, labels=None, fill=None):
    """Build (Array, dense) for given legs.  `fill`: 'all' | 'missing' | 'zero_blocks' | 'none'."""
    from tenpy.linalg import np_conserved as npc
    chinfo = legs[0].chinfo
    mod = [int(m) for m in chinfo.mod]
    if qtotal is None:
        qtotal = rand_qtotal(rng, legs, mod)
    if fill is None:
        fill = str(rng.choice(['all', 'missing', 'zero_blocks', 'none'], p=[0.5, 0.3, 0.15, 0.05]))
    qfl = [leg_qflat(l) for l in legs]
    mask = charge_mask(qfl, [l.qconj for l in legs], qtotal, mod)
    shape = tuple(l.ind_len for l in legs)
    dense = rand_values(rng, shape, dtype)
    dense = np.where(mask, dense, np.zeros((), dtype=dense.dtype))
    zero_blocks = []
    if fill in ('missing', 'zero_blocks') and dense.size:
        # zero out some complete blocks
        nb = [l.block_number for l in legs]
        for _ in range(int(rng.integers(1, 4))):
            qi = [int(rng.integers(n)) for n in nb]
            sl = tuple(slice(int(l.slices[i]), int(l.slices[i + 1])) for l, i in zip(legs, qi))
            dense[sl] = 0
            zero_blocks.append(qi)
    elif fill == 'none':
        dense[...] = 0
    if fill == 'zero_blocks':
        # stored blocks that are exactly zero: build from all-ones pattern, then overwrite block data
        pattern = np.where(mask, np.ones((), dtype=dense.dtype), np.zeros((), dtype=dense.dtype))
        a = npc.Array.from_ndarray(pattern, legs, dtype=np.dtype(dtype), qtotal=qtotal, labels=labels)
        for qinds, block in zip(a._qdata, a._data):
            sl = tuple(slice(int(l.slices[i]), int(l.slices[i + 1])) for l, i in zip(legs, qinds))
            block[...] = dense[sl]
    else:
        a = npc.Array.from_ndarray(dense, legs, dtype=np.dtype(dtype), qtotal=qtotal, labels=labels)
        if fill in ('missing', 'none'):
            # from_ndarray stores every charge-compatible block, also blocks of zeros: drop them to get blocks that are really absent
            a.ipurge_zeros(0.)
    return a, dense, np.array(qtotal, dtype=np.int64), fill


def rand_labels(rng, n, pool=('a', 'b', 'c', 'd', 'e', 'f', 'g', 'h'), p_none=0.15, p_all_none=0.1):
    if rng.random() < p_all_none:
        return [None] * n
    names = list(rng.permutation(list(pool)))[:n]
    names = [str(x) for x in names]
    while len(names) < n:
        names.append('x%d' % len(names))
    return [None if rng.random() < p_none else x for x in names]


def rand_matrix_legs(rng, chinfo, **kw):
    l0, _ = rand_leg(rng, chinfo, **kw)
    l1, _ = rand_leg(rng, chinfo, **kw)
    return [l0, l1]
