"""Random programs of public np_conserved operations executed on real Arrays with a dense shadow.

Used by C01 (value/label/charge agreement), C02 (invariants after every step), C03 (operands unchanged),
C04 (trace for the two-configuration differential).
"""
import traceback

import numpy as np

from . import gen
from . import tshadow as T
from .tshadow import SLeg, Slot


class Skip(Exception):
    """Operation not applicable to the current state."""


def conj_label(lbl):
    """Harness model of the documented label conjugation: 'a'->'a*', 'a*'->'a', '(a.(b*.c))'->'(a*.(b.c*))'."""
    if lbl is None:
        return None
    out = []
    i = 0
    n = len(lbl)
    name = ''
    for ch in lbl:
        if ch in '(.)':
            if name:
                out.append(name[:-1] if name.endswith('*') else name + '*')
                name = ''
            out.append(ch)
        else:
            name += ch
    if name:
        out.append(name[:-1] if name.endswith('*') else name + '*')
    return ''.join(out)


def drop_dup(la, lb):
    la, lb = list(la), list(lb)
    for i, l in enumerate(la):
        if l is not None and l in lb:
            j = lb.index(l)
            la[i] = None
            lb[j] = None
    return la + lb


def split_label(lbl, count):
    if lbl is None or not (lbl.startswith('(') and lbl.endswith(')')):
        return [None] * count
    res, depth, beg = [], 0, 1
    for i in range(1, len(lbl) - 1):
        c = lbl[i]
        if c == '(':
            depth += 1
        elif c == ')':
            depth -= 1
        elif c == '.' and depth == 0:
            res.append(lbl[beg:i])
            beg = i + 1
    res.append(lbl[beg:len(lbl) - 1])
    return [None if r.startswith('?') else r for r in res]


class Prog:
    def __init__(self, rng, monitors=('c01', ), max_ops=8, weights=None, max_size=400, dtypes=None, tracer=None,
                 legal_only=False, counters=None, readonly_legs=False):
        self.rng = rng
        self.monitors = set(monitors)
        self.max_ops = max_ops
        self.max_size = max_size
        self.slots = []
        self.pool = []  # leg pool (real LegCharge objects) for deliberate sharing
        self.log = []
        self.viol = []  # (key, what)
        self.tracer = tracer
        self.legal_only = legal_only
        self.counters = counters if counters is not None else {}
        self.weights = weights or {}
        self.dtypes = dtypes or gen.DTYPES
        self.features = set()
        self.readonly_legs = readonly_legs
        self.n_cmp = 0
        self.n_inv = 0
        self.n_fp = 0
        self.single = False  # a single-precision array took part in this program
        self.trace = []
        self._fresh = []  # operands created inside the current step: (slot, fingerprint at creation)

    # -- small helpers -----------------------------------------------------------------------
    def count(self, name, n=1):
        self.counters[name] = self.counters.get(name, 0) + n

    def violation(self, key, what):
        self.viol.append((key, what))

    def pick_slot(self, pred=None):
        cands = [s for s in self.slots if s is not None and (pred is None or pred(s))]
        if not cands:
            raise Skip()
        return cands[int(self.rng.integers(len(cands)))]

    def new_leg(self, **kw):
        if self.pool and self.rng.random() < 0.35 and not kw:
            return self.pool[int(self.rng.integers(len(self.pool)))]
        leg, kind = gen.rand_leg(self.rng, self.chinfo, **kw)
        self.features.add('leg:' + kind)
        self.count('leg.' + kind)
        if leg.qconj == -1:
            self.features.add('qconj-')
        if self.readonly_legs:
            leg.slices.setflags(write=False)
            leg.charges.setflags(write=False)
        self.pool.append(leg)
        return leg

    def rand_dtype(self):
        return str(self.rng.choice(self.dtypes))

    def make_array(self, legs, labels=None, qtotal=None, dtype=None, fill=None):
        dtype = dtype or self.rand_dtype()
        if labels is None:
            labels = gen.rand_labels(self.rng, len(legs))
        a, dense, qt, fill = gen.rand_array(self.rng, legs, dtype=dtype, qtotal=qtotal, labels=labels, fill=fill)
        self.features.add('fill:' + fill)
        self.count('fill.' + fill)
        self.count('dtype.' + dtype)
        if dtype in ('float32', 'complex64'):
            self.single = True
        if np.any(qt != 0):
            self.features.add('qtotal!=0')
            self.count('qtotal.nonzero')
        if any(l.ind_len == 0 for l in legs):
            self.count('leg.len0_in_array')
        if self.rng.random() < 0.3 and a.stored_blocks > 1:
            # leave _qdata unsorted through a public route: reverse insertion order via shallow copy trick
            perm = self.rng.permutation(a.stored_blocks)
            a._data = [a._data[i] for i in perm]
            a._qdata = np.ascontiguousarray(a._qdata[perm])
            a._qdata_sorted = False
            self.count('qdata.unsorted_input')
        slot = Slot(a, dense, labels, [self.sleg_of(l) for l in legs], qt, 'make')
        if 'c03' in self.monitors:
            self._fresh.append((slot, T.array_fingerprint(a)))
        return slot

    def sleg_of(self, leg):
        """Shadow of an input leg; an input LegPipe (e.g. the conjugate of a live pipe used as contraction partner) keeps its
        sub-leg structure so that a later split_legs is predicted correctly."""
        from tenpy.linalg.charges import LegPipe
        if isinstance(leg, LegPipe):
            from vf import tops
            return tops._pipe_sleg(self, 'operand', leg, [self.sleg_of(l) for l in leg.legs])
        return SLeg.from_leg(leg)

    def add_slot(self, slot):
        self.slots.append(slot)
        return slot

    def scramble_block_order(self):
        """Put live tensors into the (legal) state 'blocks stored in arbitrary order, _qdata_sorted=False' -- the state every
        transposition leaves behind -- so that operations meet unsorted operands often.  Not observable by itself."""
        for s in self.slots:
            a = s.arr
            if a.stored_blocks > 1 and self.rng.random() < 0.25:
                perm = self.rng.permutation(a.stored_blocks)
                a._data = [a._data[i] for i in perm]
                a._qdata = np.ascontiguousarray(a._qdata[perm])
                a._qdata_sorted = False
                self.count('qdata.scrambled')

    def evict(self):
        while len(self.slots) > 6:
            k = int(self.rng.integers(len(self.slots) - 1))
            self.slots.pop(k)

    # -- program -----------------------------------------------------------------------------
    def init_state(self):
        rng = self.rng
        self.chinfo = gen.rand_chinfo(rng)
        self.mod = [int(m) for m in self.chinfo.mod]
        self.count('nq.%d' % len(self.mod))
        for m in self.mod:
            self.count('mod.%d' % m)
        n0 = int(rng.integers(1, 3))
        for _ in range(n0):
            rank = int(rng.choice([1, 2, 2, 3, 3, 4, 5, 6]))
            legs = self._legs_within_size(rank)
            self.add_slot(self.make_array(legs))
        self.log.append(['init', {'mod': self.mod, 'arrays': [self.describe(s) for s in self.slots]}])
        for s in self.slots:
            self.verify_slot(s, 'from_ndarray')

    def _legs_within_size(self, rank):
        legs = []
        size = 1
        for _ in range(rank):
            for _try in range(6):
                l = self.new_leg()
                if size * max(l.ind_len, 1) <= self.max_size or _try == 5:
                    break
            if size * max(l.ind_len, 1) > self.max_size:
                l = self.new_leg(kind='single', max_bs=1)
            legs.append(l)
            size *= max(l.ind_len, 1)
        return legs

    def describe(self, s):
        return {'shape': list(s.shape), 'dtype': str(s.dense.dtype), 'labels': s.labels, 'qtotal': s.qtotal.tolist(),
                'legs': [[l.qconj, None if l.qflat is None else l.qflat.tolist(), l.pipe is not None] for l in s.legs]}

    def run(self):
        from . import tops
        self.init_state()
        names = list(tops.OPS)
        w = np.array([self.weights.get(n, tops.DEFAULT_WEIGHTS.get(n, 1.0)) for n in names], dtype=float)
        w = w / w.sum()
        n_ops = int(self.rng.integers(1, self.max_ops + 1))
        done = 0
        tries = 0
        self.aborted = False
        while done < n_ops and tries < 6 * n_ops and not self.viol and not self.aborted:
            tries += 1
            name = names[int(self.rng.choice(len(names), p=w))]
            if self.step(name, tops.OPS[name]):
                done += 1
        return self

    def step(self, name, fn):
        """Execute one op with all monitors.  Returns True if the op was applicable."""
        self.evict()
        self.scramble_block_order()
        alias = self.alias_pairs()
        self._fresh = []
        snap = T.snapshot(self.slots, self.pool) if 'c03' in self.monitors else None
        nlog = len(self.log)
        nslots = len(self.slots)
        try:
            res = fn(self)
        except Skip:
            del self.log[nlog:]
            del self.slots[nslots:]
            return False
        except T.Mismatch as m:
            self.violation('%s:%s' % (name, m.kind), m.what)
            return True
        except Exception as e:
            tb = traceback.extract_tb(e.__traceback__)
            in_tenpy = [f for f in tb if '/tenpy/' in f.filename]
            where = in_tenpy[-1].name if in_tenpy else 'harness'
            if not in_tenpy:
                raise
            if 'c04' in self.monitors:
                self.trace.append({'op': name, 'error': type(e).__name__, 'where': where,
                                   'log': repr(self.log[-1])[:300] if len(self.log) > nlog else ''})
                self.aborted = True
                return True
            if 'read-only' in str(e) and self.readonly_legs:
                self.violation('%s:writes-into-shared-leg-array@%s' % (name, where),
                               'write into a (read-only) slices/charges array of a shared leg: %s' % str(e)[:200])
                return True
            if 'c01' not in self.monitors and 'c04' not in self.monitors:
                self.count('raised_but_not_this_property')
                # the state after an exception is unspecified: stop the program here
                self.aborted = True
                return True
            len0 = '+len0' if any(0 in sl.shape for sl in self.slots) else ''
            self.violation('%s:raises-%s@%s%s' % (name, type(e).__name__, where, len0),
                           'legal call raised %s: %s | %s' % (type(e).__name__, str(e)[:300],
                                                             self.log[-1] if len(self.log) > nlog else ''))
            return True
        self.count('op.' + name)
        res = res or {}
        # documented sharing: slots whose data aliased an array modified in place are no longer predictable
        shared_with_modified = []
        for m in res.get('modified', []):
            for x, y in alias:
                other = y if x is m else (x if y is m else None)
                if other is not None and other in self.slots and other not in res.get('modified', []):
                    self.slots.remove(other)
                    shared_with_modified.append(other.arr)
                    self.count('alias.dropped_after_inplace')
        touched = list(res.get('new', [])) + list(res.get('modified', []))
        for s in touched:
            self.verify_slot(s, name)
        if 'scalar' in res:
            got, exp, dt = res['scalar']
            self.check_scalar(name, got, exp, dt)
        if snap is not None:
            self.n_fp += len(snap['arr']) + len(snap['leg'])
            allowed = [s.arr for s in res.get('modified', [])] + list(res.get('replaced_arrays', [])) + shared_with_modified
            for kind, what in T.diff_snapshot(snap, allowed):
                self.violation('%s:%s' % (name, kind), what)
            allowed_ids = {id(a) for a in allowed}
            for fslot, fp in self._fresh:
                if id(fslot.arr) in allowed_ids:
                    continue
                now = T.array_fingerprint(fslot.arr)
                if now != fp:
                    names = ['values', 'dtype', 'shape', 'labels', 'qtotal', 'legs']
                    ch = [names[i] for i in range(len(fp)) if fp[i] != now[i]]
                    self.violation('%s:operand-mutated:%s' % (name, '+'.join(ch)), 'operand created for this call changed: %s' % ch)
            self.check_independence(name, res)
        for s in res.get('new', []):
            if s not in self.slots:
                self.add_slot(s)
        if 'c04' in self.monitors:
            rec = {'op': name, 'log': repr(self.log[-1])[:300] if len(self.log) > nlog else '',
                   'slots': [observe_array(s.arr) for s in touched]}
            if 'scalar' in res:
                rec['scalar'] = complex(res['scalar'][0]) if np.ndim(res['scalar'][0]) == 0 else repr(res['scalar'][0])
            self.trace.append(rec)
        return True

    def alias_pairs(self):
        """Pairs of live slots whose Arrays share storage (shallow copies etc.)."""
        out = []
        sl = [s for s in self.slots if s is not None]
        for i in range(len(sl)):
            for j in range(i + 1, len(sl)):
                x, y = sl[i].arr, sl[j].arr
                if x is y or x._data is y._data or x._qdata is y._qdata or any(
                        bx.size and any(np.shares_memory(bx, by) for by in y._data) for bx in x._data):
                    out.append((sl[i], sl[j]))
        return out

    def verify_slot(self, s, name):
        if 'c01' in self.monitors:
            self.n_cmp += 1
            try:
                T.compare_slot(s, self.mod, single=self.single)
            except T.Mismatch as m:
                self.violation('%s:%s' % (name, m.kind), m.what + ' | ' + repr(self.log[-1])[:600])
        if 'c02' in self.monitors:
            self.n_inv += 1
            for kind, what in T.array_invariants(s.arr):
                self.violation('%s:%s' % (name, kind), what)

    def check_scalar(self, name, got, exp, dt):
        if 'c01' not in self.monitors:
            return
        self.n_cmp += 1
        try:
            g = complex(got)
        except Exception:
            self.violation('%s:scalar-type' % name, 'returned %r (%s) instead of scalar' % (got, type(got)))
            return
        e = complex(exp)
        tol = (3e-4 if self.single else T.tol_for(dt)) * max(1.0, abs(e)) * 10
        if not abs(g - e) <= tol:
            self.violation('%s:value' % name, 'scalar %r expected %r | %r' % (got, exp, self.log[-1]))

    # -- C03: independence of results ----------------------------------------------------------
    def check_independence(self, name, res):
        kind = res.get('retkind')
        if kind is None:
            return
        others = [s.arr for s in self.slots if s is not None]
        for s in res.get('new', []):
            r = s.arr
            for o in others:
                if o is r:
                    continue
                if r._labels is o._labels:
                    self.violation('%s:result-shares-label-list' % name, 'result._labels is operand._labels')
                if r.legs is o.legs:
                    self.violation('%s:result-shares-legs-list' % name, 'result.legs is operand.legs')
                if kind == 'deep':
                    for b in r._data:
                        if b.size and any(np.shares_memory(b, ob) for ob in o._data):
                            self.violation('%s:deep-result-shares-block-memory' % name,
                                           'a block of the result aliases a block of an operand')
                            break
        # mutate-result / recheck-operands: results documented as deep copies must be fully independent
        if kind == 'deep' and res.get('new') and self.rng.random() < 0.3:
            s = res['new'][0]
            r = s.arr
            snap = T.snapshot([x for x in self.slots if x is not s], self.pool)
            how = self.mutate_in_place(r)
            for k2, what in T.diff_snapshot(snap):
                self.violation('%s:mutating-deep-result-changes-operand:%s' % (name, k2),
                               'after %s on the result of %s: %s' % (how, name, what))
            self.count('independence.mutation_checks')
            res['new'] = [x for x in res['new'] if x is not s]
            if s in self.slots:
                self.slots.remove(s)

    def mutate_in_place(self, r):
        """Apply every applicable public in-place method to `r` (which is discarded afterwards)."""
        done = []
        try:
            if r.rank >= 1:
                labs = ['m%d' % i for i in range(r.rank)]
                r.iset_leg_labels(labs)
                r.ireplace_label('m0', 'mm0')
                done.append('labels')
            r.iscale_prefactor(3)
            done.append('iscale_prefactor')
            if r.rank >= 1 and r.shape[0] > 0:
                r.iscale_axis(np.arange(1, r.shape[0] + 1), 0)
                done.append('iscale_axis')
            for blk_q in [q for q in np.asarray(r._qdata).tolist()][:2]:
                idx = tuple(int(l.slices[qi]) for l, qi in zip(r.legs, blk_q))
                if all(l.ind_len > 0 for l in r.legs):
                    r[idx] = 7
                    done.append('setitem')
            r.iconj()
            done.append('iconj')
            if r.rank >= 2:
                r.itranspose(list(range(r.rank))[::-1])
                r.iswapaxes(0, 1)
                done.append('itranspose')
            r.isort_qdata()
            r.ipurge_zeros()
            if r.rank >= 1 and r.shape[0] > 1:
                m = np.zeros(r.shape[0], dtype=bool)
                m[0] = True
                r.iproject(m, 0)
                done.append('iproject')
            r.iadd_prefactor_other(2, r.copy(deep=True))
            done.append('iadd')
        except Exception as e:
            done.append('stopped:%s' % type(e).__name__)
        return '+'.join(done)


def observe_array(a):
    """Everything observable about an Array, for the two-configuration differential (C04)."""
    blocks = []
    for q, b in zip(np.asarray(a._qdata).tolist(), a._data):
        blocks.append((tuple(q), np.array(b)))
    blocks.sort(key=lambda x: x[0])
    return {
        'shape': tuple(a.shape),
        'dtype': str(a.dtype),
        'labels': list(a._labels),
        'qtotal': np.asarray(a.qtotal).tolist(),
        'legs': [(type(l).__name__, int(l.qconj), np.asarray(l.slices).tolist(), np.asarray(l.charges).tolist()) for l in a.legs],
        'blocks': blocks,
        'block_dtypes': sorted(set(str(b.dtype) for b in a._data)),
    }


def compare_observations(x, y, single=False):
    """Return None if equal (values up to tolerance), else a (kind, text) describing the first difference."""
    # dtype is not compared: C04 names legs, labels, total charge, block structure and values
    for key in ('shape', 'labels', 'qtotal', 'legs'):
        if x[key] != y[key]:
            return key, '%s: %r vs %r' % (key, x[key], y[key])
    # the declared dtype may legitimately be derived differently (not judged), but within one configuration the stored blocks have
    # the declared dtype, and the two configurations store the same kinds of numbers
    for o in (x, y):
        if o.get('block_dtypes') and o['block_dtypes'] != [o['dtype']]:
            return 'block-dtype', 'declared dtype %s, stored blocks %r' % (o['dtype'], o['block_dtypes'])
    qx = [q for q, _ in x['blocks']]
    qy = [q for q, _ in y['blocks']]
    if qx != qy:
        # a stored block that is numerically zero in one configuration and absent in the other is still a
        # difference in "block structure" (the statement of C04 names it)
        return 'block-structure', 'stored blocks %r vs %r' % (qx, qy)
    tol = 3e-4 if single else 1e-10
    for (q, bx), (_, by) in zip(x['blocks'], y['blocks']):
        if bx.shape != by.shape:
            return 'block-shape', 'block %r: %s vs %s' % (q, bx.shape, by.shape)
        if bx.size:
            scale = max(1.0, float(np.max(np.abs(bx))))
            if not np.all(np.abs(bx - by) <= tol * scale):
                return 'value', 'block %r differs by %r' % (q, float(np.max(np.abs(bx - by))))
    return None
