"""Overlay + out-of-tree build of tenpy's Cython extension from the *current* working tree.

The overlay is a directory of symlinks to every file of ``$VERIF_REPO/tenpy`` in which the only real
file is a freshly built ``_npc_helper*.so`` (compiled from the current ``.pyx``).  The in-repo ``.so`` is
git-ignored and may be stale, so it is never used.
"""
import hashlib
import os
import shutil
import subprocess
import sys
import sysconfig
import tempfile
import fcntl
import time

VERIF = os.path.dirname(os.path.dirname(os.path.abspath(__file__)))
PY = '/venv/bin/python'
BUILD_ROOT = os.path.join(VERIF, '.build')


def repo():
    return os.environ.get('VERIF_REPO', '/repo')


class BuildFailed(Exception):
    pass


def _flags(kind):
    if kind == 'compiled':
        return ['g++', '-O2', '-shared', '-fPIC', '-w']
    if kind == 'asan':
        return [
            'clang++', '-O1', '-g', '-shared', '-fPIC', '-w', '-fsanitize=address,undefined',
            '-fno-omit-frame-pointer'
        ]
    raise ValueError(kind)


def source_hash(kind):
    h = hashlib.sha256()
    lin = os.path.join(repo(), 'tenpy', 'linalg')
    for fn in sorted(os.listdir(lin)):
        if fn.endswith('.pyx') or fn.endswith('.pxd'):
            h.update(fn.encode())
            with open(os.path.join(lin, fn), 'rb') as f:
                h.update(f.read())
    h.update(' '.join(_flags(kind)).encode())
    h.update(sys.version.encode())
    return h.hexdigest()[:20]


def build_so(kind='compiled', verbose=False):
    """Return path of a `.so` built from the current `.pyx` (cached by content hash)."""
    hsh = source_hash(kind)
    outdir = os.path.join(BUILD_ROOT, f'{kind}-{hsh}')
    suffix = sysconfig.get_config_var('EXT_SUFFIX')
    target = os.path.join(outdir, '_npc_helper' + suffix)
    if os.path.exists(target):
        return target
    os.makedirs(BUILD_ROOT, exist_ok=True)
    lockfile = os.path.join(BUILD_ROOT, f'{kind}.lock')
    with open(lockfile, 'w') as lf:
        fcntl.flock(lf, fcntl.LOCK_EX)
        if os.path.exists(target):
            return target
        t0 = time.time()
        tmp = tempfile.mkdtemp(prefix='vfbuild-')
        try:
            lin = os.path.join(repo(), 'tenpy', 'linalg')
            pk = os.path.join(tmp, 'tenpy', 'linalg')
            os.makedirs(pk)
            open(os.path.join(tmp, 'tenpy', '__init__.py'), 'w').close()
            open(os.path.join(pk, '__init__.py'), 'w').close()
            for fn in os.listdir(lin):
                if fn.endswith('.pyx') or fn.endswith('.pxd'):
                    shutil.copy(os.path.join(lin, fn), pk)
            cpp = os.path.join(tmp, 'npc.cpp')
            r = subprocess.run([
                PY, '-m', 'cython', '-3', '--cplus', '-X', 'embedsignature=True', '-E', 'HAVE_MKL=0',
                'tenpy/linalg/_npc_helper.pyx', '-o', cpp
            ],
                               cwd=tmp,
                               capture_output=True,
                               text=True)
            if r.returncode != 0 or not os.path.exists(cpp):
                raise BuildFailed('cython failed:\n' + r.stdout[-3000:] + r.stderr[-3000:])
            import numpy
            inc = ['-I' + sysconfig.get_paths()['include'], '-I' + numpy.get_include()]
            tmpso = os.path.join(tmp, 'out.so')
            r = subprocess.run(_flags(kind) + inc + [cpp, '-o', tmpso], capture_output=True, text=True)
            if r.returncode != 0:
                raise BuildFailed('c++ compile failed:\n' + r.stderr[-3000:])
            os.makedirs(outdir, exist_ok=True)
            os.replace(tmpso, target) if os.stat(tmpso).st_dev == os.stat(outdir).st_dev else shutil.move(
                tmpso, target)
        finally:
            shutil.rmtree(tmp, ignore_errors=True)
        # keep at most 2 generations per kind
        gens = sorted((d for d in os.listdir(BUILD_ROOT) if d.startswith(kind + '-')),
                      key=lambda d: os.path.getmtime(os.path.join(BUILD_ROOT, d)))
        for d in gens[:-2]:
            shutil.rmtree(os.path.join(BUILD_ROOT, d), ignore_errors=True)
        if verbose:
            print(f'[build] {kind} .so built in {time.time()-t0:.1f}s -> {target}', flush=True)
    return target


def make_overlay(so_path=None):
    """Create a symlink overlay of $VERIF_REPO/tenpy in a fresh temp dir; return the dir to put on sys.path."""
    root = tempfile.mkdtemp(prefix='vfoverlay-')
    src = os.path.join(repo(), 'tenpy')
    dst = os.path.join(root, 'tenpy')
    os.makedirs(dst)
    for name in os.listdir(src):
        s = os.path.join(src, name)
        if name == 'linalg':
            os.makedirs(os.path.join(dst, 'linalg'))
            for fn in os.listdir(s):
                if fn.endswith('.so') or fn == '__pycache__' or fn.endswith('.cpp') or fn.endswith('.c'):
                    continue
                os.symlink(os.path.join(s, fn), os.path.join(dst, 'linalg', fn))
            if so_path is not None:
                os.symlink(so_path, os.path.join(dst, 'linalg', os.path.basename(so_path)))
        elif name == '__pycache__':
            continue
        else:
            os.symlink(s, os.path.join(dst, name))
    return root


def asan_runtime():
    r = subprocess.run(['clang', '-print-file-name=libclang_rt.asan-x86_64.so'], capture_output=True, text=True)
    p = r.stdout.strip()
    return p if os.path.exists(p) else None


def env_for(config, overlay_root, extra=None):
    """Environment of a worker subprocess for configuration `config`.

    config: 'compiled' | 'pure' | 'asan'; optionally suffixed ':O<level>' for TENPY_OPTIMIZE.
    """
    env = dict(os.environ)
    base, _, opt = config.partition(':O')
    env['PYTHONPATH'] = overlay_root + os.pathsep + VERIF
    env['PYTHONHASHSEED'] = '0'
    env['PYTHONDONTWRITEBYTECODE'] = '1'
    env['OMP_NUM_THREADS'] = '1'
    env['OPENBLAS_NUM_THREADS'] = '1'
    env['MKL_NUM_THREADS'] = '1'
    env['PYTHONWARNINGS'] = 'ignore'
    env['VERIF_CONFIG'] = config
    env.pop('TENPY_NO_CYTHON', None)
    env.pop('TENPY_OPTIMIZE', None)
    if base == 'pure':
        env['TENPY_NO_CYTHON'] = '1'
    if base == 'asan':
        rt = asan_runtime()
        if rt is None:
            raise BuildFailed('no asan runtime')
        env['LD_PRELOAD'] = rt
        env['ASAN_OPTIONS'] = 'detect_leaks=0:halt_on_error=0:abort_on_error=0:log_path=' + os.path.join(
            overlay_root, 'asan.log')
        env['UBSAN_OPTIONS'] = 'print_stacktrace=1:halt_on_error=0:log_path=' + os.path.join(
            overlay_root, 'ubsan.log')
    if opt:
        env['TENPY_OPTIMIZE'] = opt
    if extra:
        env.update(extra)
    return env
