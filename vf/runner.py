"""Driver: builds the overlay, shards cases over worker subprocesses, classifies, writes evidence."""
import importlib
import json
import os
import shutil
import subprocess
import sys
import tempfile
import time
from concurrent.futures import ThreadPoolExecutor

from . import build, findings, evidence

VERIF = build.VERIF
PY = build.PY


class Driver:
    def __init__(self, prop, tier, seed, jobs):
        self.prop = prop
        self.tier = tier
        self.seed = seed
        self.jobs = jobs
        self.overlays = {}
        self.tmp = tempfile.mkdtemp(prefix='vfrun-')
        self.inconclusive = []
        self.t0 = time.time()

    # -- overlay -----------------------------------------------------------------------------
    def overlay(self, config):
        base = config.split(':')[0]
        kind = 'asan' if base == 'asan' else 'compiled'
        if kind not in self.overlays:
            so = build.build_so(kind)
            self.overlays[kind] = build.make_overlay(so)
        return self.overlays[kind]

    def cleanup(self):
        for d in self.overlays.values():
            shutil.rmtree(d, ignore_errors=True)
        shutil.rmtree(self.tmp, ignore_errors=True)

    # -- running units -----------------------------------------------------------------------
    def run_unit(self, unit):
        """unit: dict(config, lo, hi, timeout, [extra keys passed to the worker])."""
        config = unit['config']
        ov = self.overlay(config)
        out = os.path.join(self.tmp, 'u%06d.json' % unit['_id'])
        env = build.env_for(config, ov, unit.get('env'))
        cmd = [
            PY, '-m', 'vf.worker', self.prop, self.tier,
            str(self.seed), config,
            str(unit['lo']),
            str(unit['hi']), out,
            json.dumps({k: v
                        for k, v in unit.items() if k not in ('env', )})
        ]
        t0 = time.time()
        try:
            r = subprocess.run(cmd,
                               env=env,
                               cwd=VERIF,
                               capture_output=True,
                               text=True,
                               timeout=unit.get('timeout', 600))
            rc, err = r.returncode, (r.stderr or '')[-3000:] + (r.stdout or '')[-1000:]
        except subprocess.TimeoutExpired:
            rc, err = 'timeout', ''
        res = None
        if os.path.exists(out):
            try:
                with open(out) as f:
                    res = json.load(f)
            except Exception as e:
                err += '\nunreadable worker output: %r' % e
        if res is None:
            res = {
                'status': 'died',
                'config': config,
                'lo': unit['lo'],
                'hi': unit['hi'],
                'evaluations': 0,
                'counters': {},
                'sigs': {},
                'violations': [],
                'violation_counts': {},
                'samples': [],
                'notes': [],
                'obs': {},
                'anchors': {},
            }
        res['rc'] = rc
        res['stderr_tail'] = err if (rc != 0 or res['status'] != 'ok') else ''
        res['unit'] = unit
        res['unit_wall_s'] = time.time() - t0
        return res

    def run_units(self, units):
        for k, u in enumerate(units):
            u['_id'] = k + getattr(self, '_uid', 0)
        self._uid = getattr(self, '_uid', 0) + len(units)
        # build overlays up front (serial) so the threads do not race on it
        for u in units:
            self.overlay(u['config'])
        with ThreadPoolExecutor(max_workers=self.jobs) as ex:
            return list(ex.map(self.run_unit, units))


def shard(config, n, nshards, **kw):
    """Split case range [0, n) into nshards contiguous units for `config`."""
    nshards = max(1, min(nshards, n))
    step = -(-n // nshards)
    units = []
    for lo in range(0, n, step):
        u = dict(config=config, lo=lo, hi=min(n, lo + step))
        u.update(kw)
        units.append(u)
    return units


def aggregate(results):
    agg = {
        'evaluations': 0,
        'counters': {},
        'sigs': {},
        'violations': [],
        'violation_counts': {},
        'samples': [],
        'notes': [],
        'anchors': {},
        'by_config': {},
        'problems': [],
    }
    for r in results:
        agg['evaluations'] += r.get('evaluations', 0)
        bc = agg['by_config'].setdefault(r['config'], {'evaluations': 0, 'units': 0})
        bc['evaluations'] += r.get('evaluations', 0)
        bc['units'] += 1
        for k, v in r.get('counters', {}).items():
            agg['counters'][k] = agg['counters'].get(k, 0) + v
        for k, v in r.get('sigs', {}).items():
            agg['sigs'][k] = agg['sigs'].get(k, False) or v
        agg['violations'].extend(r.get('violations', []))
        for k, v in r.get('violation_counts', {}).items():
            agg['violation_counts'][k] = agg['violation_counts'].get(k, 0) + v
        if len(agg['samples']) < 4:
            agg['samples'].extend(r.get('samples', [])[:2])
        agg['notes'].extend(r.get('notes', [])[:5])
        for k, (seen, tot) in r.get('anchors', {}).items():
            a = agg['anchors'].setdefault(k, [0, 0])
            a[0] = max(a[0], seen)
            a[1] = max(a[1], tot)
        if os.environ.get('VERIF_DEBUG'):
            print('[unit] %s %s-%s part=%s evals=%d wall=%.1fs' % (r['config'], r['lo'], r['hi'], r['unit'].get('part'),
                                                                 r.get('evaluations', 0), r.get('unit_wall_s', 0)))
        if r.get('status') != 'ok' or r.get('rc') != 0:
            agg['problems'].append({
                'config': r['config'],
                'range': [r['lo'], r['hi']],
                'status': r.get('status'),
                'rc': r.get('rc'),
                'stderr': r.get('stderr_tail', '')[-1500:],
                'notes': r.get('notes', [])[-2:],
            })
    return agg


def run_check(prop, tier, seed, jobs=16, replay=None):
    sys.path.insert(0, VERIF)
    mod = importlib.import_module('checks.' + prop)
    drv = Driver(prop, tier, seed, jobs)
    t0 = time.time()
    try:
        try:
            if replay is not None:
                with open(replay) as f:
                    rec = json.load(f)
                unit = dict(rec.get('unit') or {})
                unit.update(config=rec['config'], lo=rec['case_index'], hi=rec['case_index'] + 1)
                unit.pop('time_budget', None)
                drv.seed = rec.get('seed', seed)
                drv.tier = rec.get('tier', tier)
                results = drv.run_units([unit])
                agg = aggregate(results)
                post = {}
            elif hasattr(mod, 'drive'):
                agg, post = mod.drive(drv)
            else:
                units = mod.plan(tier, seed, jobs)
                results = drv.run_units(units)
                agg = aggregate(results)
                post = mod.post(drv, results, agg) if hasattr(mod, 'post') else {}
        except build.BuildFailed as e:
            print('INCONCLUSIVE property=%s reason=build-failed' % prop)
            print(str(e)[-2000:])
            return 2
        return finish(mod, drv, agg, post or {}, time.time() - t0, write_evidence=(replay is None))
    finally:
        drv.cleanup()


def finish(mod, drv, agg, post, wall, write_evidence=True):
    prop = drv.prop
    kf = findings.load()
    # ---- classify violations
    unknown, known = findings.classify(prop, agg['violations'], kf)
    replay_dir = os.path.join(os.environ.get('VERIF_EVIDENCE_DIR') or os.path.join(VERIF, 'evidence'), 'replay')
    lines = []
    known_keys = sorted({v['key'] for v in known})
    for key in known_keys:
        lines.append('KNOWN-FINDING: property=%s %s' % (prop, findings.describe(prop, key, kf)))
    rc = 0
    seen_keys = set()
    for v in unknown:
        if v['key'] in seen_keys:
            continue
        seen_keys.add(v['key'])
        os.makedirs(replay_dir, exist_ok=True)
        safe = ''.join(c if c.isalnum() or c in '-_.' else '_' for c in v['key'])[:80]
        path = os.path.join(replay_dir, '%s-%s-s%s-c%s.json' % (prop, safe, v.get('seed'), v.get('case_index')))
        with open(path, 'w') as f:
            json.dump(v, f, indent=1)
        lines.append('VIOLATION property=%s replay=%s' % (prop, path))
        lines.append('  key=%s config=%s :: %s' % (v['key'], v.get('config'), v['what'][:600].replace('\n', ' | ')))
        rc = 1
    # ---- inconclusive conditions
    inconclusive = list(drv.inconclusive)
    for p in agg['problems']:
        inconclusive.append('worker %s range=%s status=%s rc=%s %s %s' %
                            (p['config'], p['range'], p['status'], p['rc'], p['stderr'][-400:], p['notes']))
    required = getattr(mod, 'REQUIRED_COUNTERS', {})
    if isinstance(required, dict) and required and set(required) <= {'quick', 'thorough'}:
        required = required.get(drv.tier, {})
    for name, minimum in (required.items() if isinstance(required, dict) else [(n, 1) for n in required]):
        if agg['counters'].get(name, 0) < minimum:
            inconclusive.append('mechanism counter %s=%d < %d' % (name, agg['counters'].get(name, 0), minimum))
    for name in getattr(mod, 'REQUIRED_ANCHORS', []):
        if agg['anchors'].get(name, [0, 0])[0] == 0:
            inconclusive.append('anchor %s never executed' % name)
    if agg['evaluations'] == 0:
        inconclusive.append('no evaluations')
    if rc == 0 and inconclusive:
        rc = 2
    if write_evidence:
        evidence.write(mod, drv, agg, post, wall, n_viol=len(seen_keys), known_keys=known_keys,
                       inconclusive=inconclusive)
    for l in lines:
        print(l)
    if rc == 2:
        for r in inconclusive[:10]:
            print('INCONCLUSIVE property=%s reason=%s' % (prop, r[:1500]))
    nd = sum(1 for v in agg['sigs'].values() if v)
    print('%s tier=%s seed=%d: %s; evaluations=%d distinct_nontrivial=%d known=%d wall=%.1fs' %
          (prop, drv.tier, drv.seed, {
              0: 'HELD',
              1: 'VIOLATED',
              2: 'INCONCLUSIVE'
          }[rc], agg['evaluations'], nd, len(known_keys), wall))
    return rc
