"""Worker process: runs a range of cases of one check in one configuration and dumps a JSON report.

usage: python -m vf.worker <prop> <tier> <seed> <config> <lo> <hi> <outfile> [unit-json]
"""
import hashlib
import importlib
import json
import os
import sys
import time
import traceback

import numpy as np


class Ctx:
    """What a check's `run_case` gets: rng, counters, violation sink."""

    def __init__(self, prop, tier, seed, config, unit):
        self.prop = prop
        self.tier = tier
        self.seed = seed
        self.config = config
        self.unit = unit or {}
        self.counters = {}
        self.sigs = {}  # hash -> nontrivial?
        self.violations = []
        self.samples = []
        self.notes = []
        self.evaluations = 0
        self.case_index = None
        self.rng = None
        self.deadline = None
        self.max_samples = 3
        self.obs = {}  # per-case observations for offline checkers (C04, ...)
        self._vkeys = {}

    # -- bookkeeping -------------------------------------------------------------------------
    def count(self, name, n=1):
        self.counters[name] = self.counters.get(name, 0) + n

    def sig(self, signature, nontrivial=True):
        h = hashlib.blake2b(repr(signature).encode(), digest_size=6).hexdigest()
        self.sigs[h] = bool(self.sigs.get(h, False) or nontrivial)

    def sample(self, case):
        if len(self.samples) < self.max_samples:
            self.samples.append(case)

    def note(self, text):
        if len(self.notes) < 20:
            self.notes.append(text)

    def violation(self, key, what, case=None, **extra):
        """Record a violation with mechanism key `key` (op + failure kind; never random values)."""
        n = self._vkeys.get(key, 0)
        self._vkeys[key] = n + 1
        if n >= 3:  # keep at most 3 witnesses per key per worker, but count all
            return
        rec = {
            'key': key,
            'what': str(what)[:2000],
            'config': self.config,
            'seed': self.seed,
            'tier': self.tier,
            'case_index': self.case_index,
            'case': case,
            'unit': self.unit,
        }
        rec.update(extra)
        self.violations.append(rec)

    def out_of_time(self):
        return self.deadline is not None and time.time() > self.deadline


def case_rng(seed, prop, tier, i, salt=0):
    pn = int(''.join(c for c in prop if c.isdigit()) or 0)
    return np.random.default_rng([int(seed), pn, 0 if tier == 'quick' else 1, int(i), int(salt)])


def jsonable(x):
    if isinstance(x, dict):
        return {str(k): jsonable(v) for k, v in x.items()}
    if isinstance(x, (list, tuple, set, frozenset)):
        return [jsonable(v) for v in x]
    if isinstance(x, np.ndarray):
        if x.size > 64:
            return {'ndarray': list(x.shape), 'dtype': str(x.dtype)}
        if np.iscomplexobj(x):
            return [str(v) for v in x.ravel().tolist()]
        return x.tolist()
    if isinstance(x, (np.integer, )):
        return int(x)
    if isinstance(x, (np.floating, )):
        return float(x)
    if isinstance(x, (np.complexfloating, complex)):
        return str(complex(x))
    if isinstance(x, (np.bool_, )):
        return bool(x)
    if isinstance(x, (str, int, float, bool)) or x is None:
        return x
    return repr(x)[:300]


def main(argv):
    prop, tier, seed, config, lo, hi, outfile = argv[:7]
    unit = json.loads(argv[7]) if len(argv) > 7 else {}
    seed, lo, hi = int(seed), int(lo), int(hi)
    mod = importlib.import_module('checks.' + prop)
    ctx = Ctx(prop, tier, seed, config, unit)
    budget = float(unit.get('time_budget', 0) or 0)
    if budget:
        ctx.deadline = time.time() + budget
    from vf import monitor
    cov = None
    anchors = getattr(mod, 'ANCHORS', None)
    if anchors:
        cov = monitor.LineCoverage(anchors)
        cov.start()
    fcov = None
    if os.environ.get('VERIF_FUNCCOV'):
        fcov = monitor.FuncCoverage()
        fcov.start()
    t0 = time.time()
    status = 'ok'
    try:
        if hasattr(mod, 'worker_init'):
            mod.worker_init(ctx)
        if hasattr(mod, 'run_range'):
            mod.run_range(ctx, lo, hi)
        else:
            for i in range(lo, hi):
                if ctx.out_of_time():
                    ctx.count('_stopped_on_time_budget')
                    break
                ctx.case_index = i
                ctx.rng = case_rng(seed, prop, tier, i)
                try:
                    mod.run_case(ctx, i)
                except monitor.HarnessSkip:
                    ctx.count('_skipped_cases')
                ctx.evaluations += 1
        if hasattr(mod, 'worker_finish'):
            mod.worker_finish(ctx)
    except BaseException:
        status = 'harness-crash'
        ctx.notes.append('worker crashed at case %r: %s' % (ctx.case_index, traceback.format_exc()[-3000:]))
    if cov is not None:
        cov.stop()
    if fcov is not None:
        fcov.stop()
        os.makedirs(os.environ['VERIF_FUNCCOV'], exist_ok=True)
        with open(os.path.join(os.environ['VERIF_FUNCCOV'], '%s-%d.json' % (prop, os.getpid())), 'w') as f:
            json.dump(sorted(fcov.seen), f)
    out = {
        'status': status,
        'config': config,
        'lo': lo,
        'hi': hi,
        'evaluations': ctx.evaluations,
        'counters': ctx.counters,
        'sigs': ctx.sigs,
        'violations': ctx.violations,
        'violation_counts': ctx._vkeys,
        'samples': ctx.samples,
        'notes': ctx.notes,
        'obs': ctx.obs,
        'anchors': cov.report() if cov is not None else {},
        'wall_s': time.time() - t0,
    }
    with open(outfile, 'w') as f:
        json.dump(jsonable(out), f)
    return 0


if __name__ == '__main__':
    sys.exit(main(sys.argv[1:]))
