"""Evidence writer: /verif/evidence/<id>.json, schema-validated before it is written."""
import json
import os

VERIF = os.path.dirname(os.path.dirname(os.path.abspath(__file__)))
SCHEMA = '/root/.vp/EVIDENCE.schema.json'


def write(mod, drv, agg, post, wall, n_viol, known_keys, inconclusive):
    nd = sum(1 for v in agg['sigs'].values() if v)
    cov = {
        'evaluations': int(agg['evaluations']),
        'distinct_nontrivial': int(nd),
        'distinct_signatures': len(agg['sigs']),
        'rule': getattr(mod, 'RULE', ''),
        'samples': agg['samples'][:4] or [],
        'mechanism_counters': dict(sorted(agg['counters'].items())),
        'anchor_lines_seen': {k: '%d/%d' % tuple(v) for k, v in sorted(agg['anchors'].items())},
        'configs': agg['by_config'],
        'known_findings_reproduced': known_keys,
        'violation_counts_by_key': agg['violation_counts'],
        'inconclusive_reasons': inconclusive[:20],
        'notes': agg['notes'][:10],
    }
    cov.update(post or {})
    ev = {
        'property_id': drv.prop,
        'tier': drv.tier,
        'seed': int(drv.seed),
        'level': getattr(mod, 'LEVEL', 'exploration'),
        'coverage': cov,
        'assumptions': list(getattr(mod, 'ASSUMPTIONS', [])),
        'wall_s': round(float(wall), 2),
        'violations': int(n_viol),
    }
    try:
        import jsonschema
        if os.path.exists(SCHEMA):
            with open(SCHEMA) as f:
                jsonschema.validate(ev, json.load(f))
    except ImportError:
        pass
    except Exception as e:  # schema violation: still write, but say so loudly
        print('EVIDENCE-SCHEMA-PROBLEM %s: %s' % (drv.prop, str(e)[:300]))
    evdir = os.environ.get('VERIF_EVIDENCE_DIR') or os.path.join(VERIF, 'evidence')
    os.makedirs(evdir, exist_ok=True)
    path = os.path.join(evdir, drv.prop + '.json')
    with open(path, 'w') as f:
        json.dump(ev, f, indent=1, sort_keys=True)
    return path
