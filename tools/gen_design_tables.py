#!/venv/bin/python
"""Regenerate the generated tables of DESIGN.md (between the BEGIN/END GENERATED markers) from known_findings.json and seeded/*/meta.json."""
import glob
import json
import os
import re

VERIF = os.path.dirname(os.path.dirname(os.path.abspath(__file__)))


def tables():
    kf = json.load(open(os.path.join(VERIF, 'known_findings.json')))
    out = []
    out.append('#### Repaired defects (`fix:` commits in /repo; a fixed entry suppresses nothing)\n')
    out.append('| property | commit | what failed on the unchanged tree |')
    out.append('|---|---|---|')
    for line in kf['fixed']:
        m = re.match(r'fixed: property=(\S+) (\S+) (.*)', line)
        if m:
            out.append('| %s | `%s` | %s |' % (m.group(1), m.group(2), m.group(3).replace('|', '\\|')))
    out.append('')
    out.append('#### Recorded findings (genuine, not repaired; printed as KNOWN-FINDING, exit 0)\n')
    out.append('| property | mechanism key | what fails |')
    out.append('|---|---|---|')
    for f in kf['findings']:
        out.append('| %s | `%s` | %s |' % (f['property'], f['key'], f['what'].replace('|', '\\|')))
    out.append('')
    out.append('#### Seeded property-breaking changes (`seeded/<id>/`) and the checks that catch them\n')
    out.append('| id | breaks | needs to manifest | caught by |')
    out.append('|---|---|---|---|')
    for p in sorted(glob.glob(os.path.join(VERIF, 'seeded', '*', 'meta.json'))):
        d = json.load(open(p))
        out.append('| %s | %s | %s | %s |' % (d['id'], d['breaks_property'], str(d.get('needs_to_manifest', '')).replace('|', '\\|'),
                                             ', '.join(d.get('caught_by', [])) or '**not caught**'))
    return '\n'.join(out) + '\n'


def main():
    p = os.path.join(VERIF, 'DESIGN.md')
    s = open(p).read()
    a, b = '<!-- BEGIN GENERATED TABLES -->', '<!-- END GENERATED TABLES -->'
    if a not in s:
        raise SystemExit('markers missing in DESIGN.md')
    s = s[:s.index(a) + len(a)] + '\n' + tables() + s[s.index(b):]
    open(p, 'w').write(s)
    print('DESIGN.md tables regenerated')


if __name__ == '__main__':
    main()
