#!/bin/bash
# usage: [SRCROOT=/tmp/wtout] [ID=<seed id>] tools/seed_batch.sh <prop> <A|B> "<tests>" "<needs>" [extra checks]  -> confirm + drill; appends to /tmp/seedlog.txt
prop=$1; ab=$2; tests=$3; needs=$4; shift 4
cd /verif
src=${SRCROOT:-/tmp/wtout}/$prop/$ab
id=${ID:-$prop-$ab}
echo "=== $id" >> /tmp/seedlog.txt
tools/confirm_seed.sh $src $id $prop "$tests" "$needs" 2>&1 | grep -v conda >> /tmp/seedlog.txt
if [ -d seeded/$id ]; then
  tools/drill.sh seeded/$id/patch.diff $prop "$@" 2>&1 | grep -v conda >> /tmp/seedlog.txt
fi
