#!/venv/bin/python
"""Regenerate /verif/MANIFEST.json from the table below (keeps the manifest valid at all times)."""
import json
import os
import subprocess

VERIF = os.path.dirname(os.path.dirname(os.path.abspath(__file__)))

# property -> (category, technique, text, note, design_ref)
CHECKS = {
    'C10': ('exploration', 'reference matrix built by the harness from the recorded add_* calls (own lattice enumerator, explicit JW '
            'matrices) compared with every representation of the model in one basis',
            'Random CouplingModels (on-site, two-site, multi-site, exponentially decaying, local terms; real/complex/site-'
            'dependent strengths; plus_hc / explicit_plus_hc) on chains, ladders and small 2D lattices with spin, boson, fermion '
            'and mixed sites: calc_H_MPO, term lists, MPOGraph.from_term_list, calc_H_bond and the MPO<->bond conversions, '
            'get_numpy_Hamiltonian / get_scipy_sparse_Hamiltonian (both basis conventions), ExactDiag, sort_legcharges and '
            'group_sites all have to reproduce the reference matrix; infinite models are compared through energy densities of '
            'product states; predefined models (by reflection) must be Hermitian with agreeing representations; grouping by up to 4 '
            'sites incl. the bond operators of grouped NearestNeighborModels; exporters of plain MPOModels / ExactDiag.from_H_mpo for '
            'MPOs that carry explicit_plus_hc.',
            'C19 and C12; Hilbert-space dimension <= 1100; explicit_plus_hc models are generated Hermitian as documented',
            'DESIGN.md §C10'),
    'C11': ('exploration', 'dense matrix of every MPO obtained by the harness contraction of the W tensors (IdL/IdR) compared with the '
            'dense result of the same operation on matrices; step-size family for make_U order',
            'Random MPOs from term lists, grids and models (finite and infinite windows): addition, prefactor, dagger, is_hermitian, '
            'is_equal, to_TermList round trip, sort_legcharges, group_sites, expectation_value / variance / '
            'expectation_value_power, apply (zip_up, SVD, variational) on entangled MPS, MPOEnvironment contractions at every '
            'bond, make_U_I / make_U_II against the dense exponential over a family of time steps (error must shrink at second '
            'order or better), MPO.distance.',
            'both make_U_I and make_U_II have a single-step error O(dt^2); slopes >= 1.5 are demanded', 'DESIGN.md §C11'),
    'C13': ('exploration', 'per-update monitor on update_local (logged energy vs dense <H> of the state just written, energy '
            'monotonicity) plus dense eigen-decomposition of the same Hamiltonian as oracle for the returned state',
            'Random Hermitian models (complex couplings, longer range, fermions, random fields) on chains of 3-8 sites x engines '
            '(two-site / single-site DMRG) x mixers x diag_method x chi_list x sweep counts x combine: returned state '
            'normalised, canonical, in the start sector, reported energy equals <H> within the reported truncation, never below '
            'the exact sector minimum; untruncated two-site DMRG with a mixer reaches the minimum of the H-invariant subspace; '
            'EffectiveH.to_matrix equals matvec in a fresh environment; orthogonal_to yields an orthogonal state above lambda_1; '
            'VUMPS on infinite Ising chains against the exact energy density (also stopped early, also with explicit_plus_hc MPOs); '
            'infinite DMRG: ledger over sweep() calls for the reported truncation statistics, canonical form, energy density vs '
            'H_MPO.expectation_value and the exact Ising value; a quarter of the finite models has explicit_plus_hc; runs that end with '
            'the mixer on and a binding chi_max; stored Schmidt values of the result normalised and none vanishing.',
            'convergence is judged only where the nearest-neighbour terms connect the invariant subspace and a random field breaks '
            'hidden symmetries (elsewhere a stuck local optimisation is a limit of the algorithm); orthogonal_to is judged only for '
            'negative target energies (documented limitation)', 'DESIGN.md §C13'),
    'C14': ('exploration', 'dense exp(-iHt) reference at successively halved step sizes (observed order), exact ledgers of evolved_time '
            'and of the truncation error (engine attribute vs sum of evolve() returns vs probe on every truncate() call), '
            'conservation monitors, exhaustive check of the Suzuki-Trotter schedules',
            'Random (optionally time-dependent) Hermitian chains of 4-7 sites x TEBD (orders 1, 2, 4, 4_opt), QR-based TEBD, one- and '
            'two-site TDVP (Lanczos/Arnoldi, Krylov basis extension), ExpMPOEvolution (I/II, order 1/2, SVD/zip_up/variational) and '
            'the TimeDependent* variants x real and imaginary steps x splits of the total time into run() calls x preserve_norm x '
            'start_time / start_trunc_err: the state equals the dense reference with an error that shrinks at the documented order, '
            'stays in its charge sector, norm and energy are conserved (exactly for one-site TDVP even when truncating), '
            'evolved_time == start + steps*dt, trunc_err == start + sum of the errors of the truncations performed, and a split of '
            'the time over several run() calls gives the same state; suzuki_trotter_decomposition composes to exactly N_steps on '
            'even and odd bonds for all N_steps <= 40; imaginary-time TEBD sweeps (update_imag) with a truncation ledger, split '
            'independence and the direction of exp(-tau H); TEBD trunc_err_bonds add up to the step errors.',
            'exactness is judged only where no truncation is requested or reported and (for TDVP) where the manifold is complete '
            '(saturated bonds, or two-site TDVP with nearest-neighbour H); under imaginary steps only the direction of the state is '
            'judged; time-dependent engines are compared with the documented first-order product of exponentials', 'DESIGN.md §C14'),
    'C17': ('exploration', 'round-trip monitors over generated object graphs: generic structural comparator (types, dtypes, values, leg '
            'structure), test_sanity and dense observables of the loaded objects, and a sharing monitor comparing the partition of '
            'container slots by object identity before and after',
            'Graphs of scalars, arrays, masked arrays, dtype, range, nested list/tuple/set/dict (simple and general keys), shared '
            'references, self-referential containers, objects without a format of their own (Hdf5Exportable subclass, pickle-protocol '
            'fallback with state / listitems / dictitems) and instances of the tenpy classes offering save_hdf5 (charge info incl. '
            'dipolar, legs of every kind, pipes, Arrays, all site classes, GroupedSite, finite/segment/infinite/purification/uniform '
            'MPS, MPO, every lattice class, random and all predefined models by reflection, term classes, TruncationError, Config) go '
            'through HDF5 with format selection None/blocks/compact/flat, hdf5_io.save/load with .h5/.pkl/.pklz, pickle protocols '
            '2/4/5 and deepcopy, in the compiled and the pure-Python configuration.',
            "documented exceptions honoured: tuples inside reference cycles, 'flat' only for plain LegCharges (insufficient for "
            'blocks), saves that fail loudly (bytes with NUL, classes with __slots__) are not failures of the round trip; cache '
            'attributes (_mps_sites_cache, _BZ, _reciprocal_basis, UniformMPS._S) are compared through observables instead',
            'DESIGN.md §C17'),
    'C18': ('exploration', 'SIGKILL fault injection with strace at the entry of every file-system call on the output and backup file '
            '(child processes running real Simulations), loader-based classification of the files left behind against the recorded '
            'checkpoints of an uninterrupted run; offline comparison of resumed and uninterrupted histories',
            'Ground-state searches (two-site DMRG, single-site DMRG with mixer) and real-time evolutions (TEBD, two-site TDVP, '
            'ExpMPOEvolution) with pickle and HDF5 output, safe_write on and a save at every checkpoint: (1) the run is killed at the '
            'k-th openat / write / pwrite64 / rename / unlink / close ... touching the two files (all occurrences; an even sample of '
            'the ~1300 HDF5 data writes) and a complete results file of the last completed or the current checkpoint must remain; '
            '(2) the run is resumed from every recorded checkpoint and must end with the same final state, energy, measurement '
            'history (none lost, none duplicated) and a sweep history that is the exact tail of the uninterrupted one; (3) from the '
            'file set a first crash leaves (partial output + backup, complete output, only the backup), the resumed run is killed at '
            'every file-system call of its first save; (4) engine level: psi, options and get_resume_data() are kept at every '
            'checkpoint of DMRG runs (with and without orthogonal_to), a fresh engine is resumed and must reproduce the result; '
            '(5) resume also for TEBD on sites grouped in pairs; every third crash case uses output names with a dot in the stem and lets '
            'a sibling simulation finish in the same directory before the files of the killed run are inspected.',
            'process death = SIGKILL at system-call entry (page-cache contents survive; power loss is out of reach); a checkpoint is '
            'identified by the deterministic part of the results', 'DESIGN.md §C18'),
    'C12': ('exploration', 'dense operator identities evaluated on every configuration of the (finite, exhaustively enumerated) '
            'site-option grid; kron/JW reference for grouped sites; explicit Jordan-Wigner matrices for many-body CAR',
            'Every site class x parameters x conserve option x sort_charge: operators mapped through perm equal the textbook '
            'matrices and the conserve=None instance, satisfy their algebra, declared hc pairs are adjoints, qtotal equals the '
            'charge difference of every matrix element, need_JW <=> anticommutes with JW, op-name products, state labels, and '
            'rename/remove/add/sort_charge histories; GroupedSite for heterogeneous sites and every charge policy equals kron with '
            'JW of the left sites (basis identified through state labels); fermionic bilinears and quartics in every order built via '
            'TermList->MPOGraph->MPO and CouplingModel.add_(multi_)coupling equal explicit JW matrices and satisfy the CAR.',
            'textbook matrices in the documented state order', 'DESIGN.md §C12'),
    'C09': ('exploration', 'dense shadow state (norm included) updated by the harness after every MPS transformation and compared '
            'with the harness contraction of the MPS; window density matrices for infinite MPS',
            'Random histories of apply_local_op / apply_product_op / apply_local_term, swap_sites / permute_sites (fermionic '
            'signs), add, group_sites-group_split, enlarge_chi, perturb, compress(_svd), spatial_inversion, gauge_total_charge, '
            'convert_form on entangled states with non-uniform bond dimensions; compression must stay within the reported '
            'truncation error; for infinite MPS with non-uniform forms roll/enlarge must keep canonical form and all window '
            'density matrices up to relabelling.',
            'permute_sites follows the implemented and unit-tested convention (old site i moves to perm[i]); the docstring '
            'states the inverse', 'DESIGN.md §C09'),
    'C08': ('exploration', 'dense <bra|O|ket> reference with operators built by explicit kron and Jordan-Wigner strings; per-sample '
            'Born-amplitude monitor for sample_measurements',
            'For random entangled states in random canonical forms (and a second state for bra != ket with non-unit norms) every '
            'measurement function (expectation_value variants, correlation_function incl. opstr/str_on_first/autoJW and the '
            'mixed-JW error, term correlation functions in both directions, terms sums, overlap, environments, reduced density '
            'matrices, segment entropies, mutual information, charge statistics) is compared with dense linear algebra; each '
            'sampled outcome must come with exactly its Born amplitude / probability.',
            'single-site operator matrices are taken from the Site objects (verified separately in C12)', 'DESIGN.md §C08'),
    'C07': ('exploration', 'harness contraction of the raw stored MPS tensors (with the recorded form exponents) compared with the '
            'source state; dense Schmidt spectra at every cut; window density matrices for infinite MPS',
            'MPS are built by every constructor from harness-generated dense states / tensors; the harness contracts the raw '
            'tensors itself and compares with the source (norm attribute included), then runs random histories of convert_form / '
            'canonical_form / copy / get_B-set_B and re-checks; in canonical form the stored singular values, entropies, '
            'spectra, chi, norm_test and total charge are compared with the dense Schmidt decomposition; infinite MPS are '
            'checked through exact transfer-matrix density matrices and windows crossing the unit-cell boundary.',
            'form exponents as documented in the module docstring of mps.py', 'DESIGN.md §C07'),
    'C19': ('exploration', 'integer brute-force lattice enumerator as reference model: multiset equality of enumerated couplings for '
            'ALL displacement vectors of every generated lattice; round trips of the index maps; tagged-array placement',
            'Lattices of every class (by reflection), ordering, boundary combination and MPS boundary are generated; for each, '
            'possible_couplings / possible_multi_couplings for all |dx_a| <= Ls[a] and all (u1,u2) are compared with a harness '
            'enumeration over integer coordinates (open: both inside, periodic: wrap incl. bc_shift, infinite: one '
            'representative per translation class in the first unit cell), strengths with unique entries identify which '
            'coupling got which value, pairs lists are compared with Euclidean distances, and mps2lat_values(_masked) with a '
            'tagged array.',
            'lat.order defines the snake; shifted boundaries only with a periodic first direction', 'DESIGN.md §C19'),
    'C16': ('exploration', 'recorded-matvec operator wrapper + dense eigh/eig/expm ground truth per solver run; N_cache sweeps and '
            'operator-reuse histories',
            'Every Krylov run (Lanczos ground state/evolution, Arnoldi, ArnoldiEvolution, GMRES, gram_schmidt, Flat operators, '
            'Shift/Sum/Orthogonal wrappers) is judged against the dense sector block: normalisation, Rayleigh quotient, lower '
            'bound, exactness at full Krylov dimension, independence of N_cache (forcing the basis-rebuild path), E_shift and '
            'orthogonal projection semantics including reuse of one operator object for several runs, expm action, Ritz '
            'residuals and ordering, GMRES residual.',
            'operator norms are kept in the regime where the solvers\' absolute breakdown cutoff (100 eps) works; nearly '
            'dependent Gram-Schmidt input is not judged', 'DESIGN.md §C16'),
    'C05': ('exploration', 'residual and structure monitors on every factorization call (dense reconstruction, isometry/unitarity, '
            'spectra against numpy, Moore-Penrose identities, charge/leg bookkeeping, storage invariants of the factors)',
            'Random rank-2 block-sparse inputs (pipes from combined legs, non-blocked legs, one-sided sectors, stored-zero and '
            'rank-deficient blocks, nonzero qtotal, complex) are passed through svd/qr/lq/eigh/eig/eigvals(h)/expm/pinv/polar/'
            'orthogonal_columns/speigs over their option lattice; each result is judged by residuals and structure, never by '
            'comparing factors to numpy factors (gauge freedom).',
            'numpy/scipy spectra and expm as ground truth; tolerance 1e-9 relative', 'DESIGN.md §C05'),
    'C06': ('exploration', 'bijection / placement (unique-id tensor) / fusion-rule monitors over an exhaustively enumerated space of '
            'small legs and pipes plus random larger pipes',
            'For every enumerated pipe map_incoming_flat is evaluated on ALL index tuples and must be a bijection that agrees '
            'with where combine_legs places the entries of a unique-id tensor, the outgoing charges must obey the fusion rule, '
            'split(combine(a)) must equal a exactly, and conj/outer_conj/to_LegCharge/sort/bunch/project/extend/flip must '
            'preserve the charge of every surviving index. All single small legs are enumerated (exhaustive); pairs are '
            'enumerated in a fixed order (strided in quick, all in thorough).',
            'small space: 1-3 blocks, sizes 1-2, 3 charge values, one charge with mod 1-3', 'DESIGN.md §C06'),
    'C01': ('exploration', 'dense numpy shadow model stepped in lock-step with random programs of public np_conserved operations '
            '(reference-model monitor after every step)',
            'Random programs (1-8 quick / 1-20 thorough public operations) run on the real Arrays in the compiled and the '
            'pure-Python configuration; a harness-owned numpy shadow predicts values, labels, leg charges/directions and total '
            'charge of every result and of every tensor modified in place, and exceptions on legal calls are violations. '
            'Held means: no disagreement on the executions listed in the evidence.',
            'numpy as ground truth; LegPipe index order is observed through map_incoming_flat (its correctness is C06); '
            'dtype widening is not judged', 'DESIGN.md §C01'),
    'C02': ('exploration', 'strict storage-invariant monitor (own test_sanity at level 0 + harness recomputation of every cached '
            'claim) evaluated on every touched tensor after every step of the random programs, at TENPY_OPTIMIZE 0/1/3',
            'After each step the monitor recomputes: unique block rows, charge rule per stored block, block shapes/dtypes, '
            'C-contiguous intp _qdata, truth of _qdata_sorted / sorted / bunched / blocked claims, LegPipe q_map structure and '
            'fusion rule, and the qtotal arithmetic through the shadow. Latent false claims are made to matter by later '
            'trusting operations in the same program.',
            'invariants are those documented in doc/intro/npc.rst and checked by test_sanity', 'DESIGN.md §C02'),
    'C03': ('exploration', 'identity-keyed fingerprints of every live Array/LegCharge/LegPipe/ChargeInfo before and after each '
            'step; alias monitor (shared block memory / label list / leg list) and mutate-result-recheck-operand for deep results',
            'Every live object is fingerprinted (dense bytes, labels, qtotal, dtype, slices, charges, flags, q_map) before a '
            'step and compared afterwards; only the receiver of an in-place method and arrays documented to share its data '
            'may change, legs never. Results documented as deep copies are then mutated with every public in-place method and '
            'the operands are re-checked. Network part: the tensors, singular values and sites lists of MPS / MPO are fingerprinted '
            'around accessors, in-place methods on results and on copies, and binary operations with a second state; linalg part: '
            'operands and shared legs around every factorization.',
            'return-kind table (deep/shallow/in-place) taken from the docstrings', 'DESIGN.md §C03'),
    'C04': ('exploration', 'offline differential checker over per-step observation traces recorded from two interpreter processes '
            '(compiled extension rebuilt from the current .pyx vs TENPY_NO_CYTHON)',
            'The same seeded programs run in both configurations at optimisation levels 1 and 3; shapes, labels, qtotal, '
            'leg structure, the set of stored blocks, block values (to tolerance), scalar results and error classes are compared '
            'step by step; the sixteen paired functions are also called directly and small DMRG/TEBD/TDVP runs are compared. '
            'Each worker asserts which implementation (Cython or Python twin) is actually bound.',
            'the extension is always rebuilt from the working tree (content-hash cache); dtype is not compared', 'DESIGN.md §C04'),
    'C15': ('exploration', 'brute-force-over-all-cuts reference monitor on truncate(); reconstruction-residual monitors on '
            'svd_theta/eigh_rho/decompose_theta_qr_based',
            'Every generated spectrum/option set is executed on the real truncate() and compared with a harness oracle that '
            'enumerates all cuts and folds the documented constraints in priority order; universal monitors (never discard a '
            'larger value than one kept, eps == discarded weight, norm_new) run on every call; truncated decompositions are '
            'reconstructed densely and compared with the reported error. Held means: no disagreement on the executions '
            'listed in the evidence.',
            'numpy SVD/eigh as ground truth; near-ties (<1e-9 relative, not exact) are skipped and counted', 'DESIGN.md §C15'),
    'C20': ('exploration', 'dict/list reference models on recorded histories; deterministic scheduler over shimmed '
            'queue/threading sync points (DFS + random schedules), deadlock detector, fault-injected storage; real-thread '
            'yield-injection cross-check',
            'Cache histories with uniquely tagged values are run on every storage class against a dict model; for the '
            'threaded storage the worker/caller interleavings at the synchronisation points are enumerated (exhaustively '
            'for short histories) by a scheduler that replaces queue/threading inside tenpy.tools.thread, with virtual-time '
            'timeouts, a deadlock detector and storages that fail at the j-th call; event handlers are compared with a '
            'sorted-list model.',
            'sync points = the queue/threading calls of tenpy.tools.thread; worker code between two sync points is atomic',
            'DESIGN.md §C20'),
}

NOT_YET = 'check not built yet in this round (see DESIGN.md for the planned runtime monitor)'


def main():
    props = [json.loads(l)['id'] for l in open(os.path.join(VERIF, 'properties.jsonl'))]
    commits = subprocess.run(['git', '-C', '/repo', 'log', '--format=%h %s'], capture_output=True, text=True).stdout
    hook_commits = [l.split()[0] for l in commits.splitlines() if l.split(' ', 1)[1].startswith('verif-hook:')]
    checks = []
    for pid in props:
        if pid not in CHECKS or not os.path.exists(os.path.join(VERIF, 'checks', pid + '.py')):
            continue
        cat, tech, text, note, ref = CHECKS[pid]
        checks.append({
            'property_id': pid,
            'quick_cmd': './check %s --tier quick' % pid,
            'thorough_cmd': './check %s --tier thorough' % pid,
            'evidence_file': 'evidence/%s.json' % pid,
            'replay_cmd_template': './check %s --replay {path}' % pid,
            'engine': 'vf-runtime-monitor',
            'level_claimed': {'category': cat, 'text': text, 'design_ref': ref},
            'level_note': note,
            'technique': tech,
        })
    claimed = {c['property_id'] for c in checks}
    man = {
        'version': 1,
        'setup_cmd': './check --setup',
        'hooks': {
            'guard': 'TENPY_VERIF',
            'enable': 'no source hooks: all instrumentation is applied from the harness (wrappers, sys.monitoring, '
                      'namespace shims, strace); checks import tenpy from a symlink overlay of /repo with a freshly '
                      'built Cython extension',
            'baseline_off_cmd': 'cd /repo && /venv/bin/python -m pytest -ra -q -p no:cacheprovider --timeout=900 '
                                '--continue-on-collection-errors',
            'source_commits': hook_commits,
            'add_only': True,
        },
        'engines': [{
            'name': 'vf-runtime-monitor',
            'path': 'vf/',
            'serves_properties': sorted(claimed),
            'kind_free_text': 'runtime monitoring: seeded workloads on the real code in subprocess workers, reference-model '
                              'and invariant monitors, deterministic scheduler, fault injection, anchor-line coverage',
        }],
        'checks': checks,
        'notes': 'Exit codes: 0 held, 1 violation (VIOLATION line), 2 inconclusive (INCONCLUSIVE line; never folded '
                 'into held). Known findings: known_findings.json (committed, never written at run time).',
        'not_applicable': [{'property_id': p, 'reason': NOT_YET} for p in props if p not in claimed],
    }
    with open(os.path.join(VERIF, 'MANIFEST.json'), 'w') as f:
        json.dump(man, f, indent=1)
    try:
        import jsonschema
        jsonschema.validate(man, json.load(open('/root/.vp/MANIFEST.schema.json')))
        print('MANIFEST.json valid; claimed:', sorted(claimed))
    except ImportError:
        print('written (jsonschema not available)')


if __name__ == '__main__':
    main()
