#!/bin/bash
# usage: tools/drill.sh <patch.diff> <Cxx> [more Cxx ...]   -- run checks against a scratch worktree of /repo with the patch applied
# env: DRILL_TIER (default quick)
set -u
patch=$(realpath "$1"); shift
wt=$(mktemp -d /tmp/drill-XXXXXX)
ev=$(mktemp -d /tmp/drillev-XXXXXX)
git -C /repo worktree add -q --detach "$wt" HEAD || exit 3
if ! git -C "$wt" apply "$patch"; then echo "PATCH DOES NOT APPLY"; git -C /repo worktree remove --force "$wt"; exit 3; fi
cd /verif
for c in "$@"; do
  VERIF_REPO="$wt" VERIF_EVIDENCE_DIR="$ev" ./check "$c" --tier "${DRILL_TIER:-quick}" 2>&1 | grep -v "conda.cli" | grep -E "^(VIOLATION|KNOWN|INCONCLUSIVE|  key=|C[0-9]+ tier)" | cut -c1-400 | head -${DRILL_LINES:-12}
done
git -C /repo worktree remove --force "$wt"
rm -rf "$ev"
