#!/usr/bin/env python3
"""Audit aid: which public functions of the property-relevant tenpy modules were never entered by any check?

usage: VERIF_FUNCCOV=/some/dir ./check Cxx ... (for all checks), then tools/cov_audit.py /some/dir [module-substring]
"""
import ast
import glob
import json
import os
import sys

REPO = os.environ.get('VERIF_REPO', '/repo')
MODULES = ['linalg/np_conserved.py', 'linalg/charges.py', 'linalg/krylov_based.py', 'linalg/truncation.py', 'linalg/sparse.py',
           'linalg/random_matrix.py', 'networks/mps.py', 'networks/mpo.py', 'networks/site.py', 'networks/terms.py',
           'networks/purification_mps.py', 'networks/uniform_mps.py', 'networks/momentum_mps.py',
           'models/model.py', 'models/lattice.py', 'algorithms/dmrg.py', 'algorithms/mps_common.py', 'algorithms/tebd.py',
           'algorithms/tdvp.py', 'algorithms/mpo_evolution.py', 'algorithms/algorithm.py', 'algorithms/truncation.py',
           'algorithms/vumps.py', 'algorithms/exact_diag.py', 'algorithms/network_contractor.py', 'algorithms/purification.py',
           'tools/hdf5_io.py', 'tools/cache.py', 'tools/events.py', 'tools/thread.py', 'tools/misc.py', 'tools/math.py',
           'tools/params.py', 'tools/fit.py', 'tools/string.py', 'simulations/simulation.py', 'simulations/measurement.py',
           'simulations/ground_state_search.py', 'simulations/time_evolution.py', 'simulations/post_processing.py']


def functions(path):
    tree = ast.parse(open(path).read())
    out = []

    def visit(node, prefix):
        for ch in node.body:
            if isinstance(ch, (ast.FunctionDef, ast.AsyncFunctionDef)):
                out.append(prefix + ch.name)
            elif isinstance(ch, ast.ClassDef):
                visit(ch, prefix + ch.name + '.')

    visit(tree, '')
    return out


def main():
    d = sys.argv[1]
    sub = sys.argv[2] if len(sys.argv) > 2 else ''
    seen = {}
    for fn in glob.glob(os.path.join(d, '*.json')):
        prop = os.path.basename(fn).split('-')[0]
        for f, q in json.load(open(fn)):
            seen.setdefault((f, q.split('.<locals>')[0]), set()).add(prop)
    for m in MODULES:
        if sub not in m:
            continue
        path = os.path.join(REPO, 'tenpy', m)
        if not os.path.exists(path):
            continue
        fs = functions(path)
        missing = [q for q in fs if ('tenpy/' + m, q) not in seen and not q.split('.')[-1].startswith('__')]
        pub = [q for q in missing if not q.split('.')[-1].startswith('_')]
        print('== %s: %d functions, %d never entered (%d public)' % (m, len(fs), len(missing), len(pub)))
        for q in pub:
            print('     ', q)


if __name__ == '__main__':
    main()
