#!/bin/bash
# usage: tools/confirm_seed.sh <srcdir with patch.diff demo.py notes.md> <seed-id> <property> "<pytest files>" "<needs text>" [checks...]
# Confirms in a scratch worktree: demo passes on HEAD, fails with patch; given tests pass with patch; then stores under seeded/<id>/
set -u
src=$1; id=$2; prop=$3; tests=$4; needs=$5; shift 5
wt=$(mktemp -d /tmp/seedwt-XXXXXX)
git -C /repo worktree add -q --detach "$wt" HEAD || exit 3
# extension of the unchanged tree (the build cache also holds extensions built from patched sources during drills)
cp /repo/tenpy/linalg/_npc_helper*.so "$wt/tenpy/linalg/"
cd "$wt"
/venv/bin/python "$src/demo.py" > /tmp/seed_clean.log 2>&1; rc_clean=$?
if ! git apply "$src/patch.diff"; then echo "PATCH DOES NOT APPLY on current HEAD"; cd /; git -C /repo worktree remove --force "$wt"; exit 3; fi
if git diff --name-only | grep -q "\.pyx"; then
  /venv/bin/python -m cython -3 --cplus -X embedsignature=True -E HAVE_MKL=0 tenpy/linalg/_npc_helper.pyx -o /tmp/seednpc.cpp >/dev/null 2>&1 && g++ -O2 -shared -fPIC -w -I$(/venv/bin/python -c "import sysconfig;print(sysconfig.get_paths()['include'])" 2>/dev/null) -I$(/venv/bin/python -c "import numpy;print(numpy.get_include())" 2>/dev/null) /tmp/seednpc.cpp -o tenpy/linalg/_npc_helper$(/venv/bin/python -c "import sysconfig;print(sysconfig.get_config_var('EXT_SUFFIX'))" 2>/dev/null); rm -f /tmp/seednpc.cpp
fi
/venv/bin/python "$src/demo.py" > /tmp/seed_patched.log 2>&1; rc_patched=$?
tests_res="not run"
if [ -n "$tests" ]; then
  OMP_NUM_THREADS=1 /venv/bin/python -m pytest -q -p no:cacheprovider --timeout=900 -x $tests > /tmp/seed_tests.log 2>&1; tests_res="exit $? : $(tail -1 /tmp/seed_tests.log)"
fi
cd /verif
echo "demo clean rc=$rc_clean patched rc=$rc_patched ; tests: $tests_res"
if [ $rc_clean -ne 0 ] || [ $rc_patched -eq 0 ]; then echo "NOT CONFIRMED"; tail -5 /tmp/seed_clean.log /tmp/seed_patched.log; git -C /repo worktree remove --force "$wt"; exit 4; fi
mkdir -p seeded/$id
cp "$src/patch.diff" seeded/$id/patch.diff; cp "$src/demo.py" seeded/$id/demo.py; [ -f "$src/notes.md" ] && cp "$src/notes.md" seeded/$id/notes.md
/venv/bin/python - "$id" "$prop" "$needs" "$rc_clean" "$rc_patched" "$tests" "$tests_res" <<'PY'
import json,sys
id,prop,needs,rc1,rc2,tests,tres=sys.argv[1:8]
json.dump({'id':id,'breaks_property':prop,'needs_to_manifest':needs,
 'confirmed':{'demo_on_unchanged_tree_exit':int(rc1),'demo_with_patch_exit':int(rc2),'existing_tests_with_patch':{'files':tests,'result':tres},
 'how':'tools/confirm_seed.sh: scratch worktree of /repo HEAD + freshly built extension; demo run before and after git apply'},
 'caught_by':[]}, open('seeded/%s/meta.json'%id,'w'), indent=1)
PY
git -C /repo worktree remove --force "$wt"
echo "CONFIRMED and stored in seeded/$id"
