"""C04 — compiled and pure-Python tensor kernels are observationally equivalent (offline differential).

Stage 1: the program stream runs in the `pure` configuration and dumps per-step observations (pickle, per shard).
Stage 2: the same seeds run in the `compiled` configuration; each step's observation is compared with the dump.
Extra parts: direct calls of the paired helper functions with adversarial arguments; small algorithm runs.
"""
import os
import pickle
import warnings

import numpy as np

from vf.runner import shard, aggregate
from checks import C01 as base

PROP = 'C04'
LEVEL = 'exploration'
RULE = ('the C01/C02 program stream (same seeds) is executed in two interpreter processes (TENPY_NO_CYTHON set / unset, '
        'extension rebuilt from the current .pyx) at TENPY_OPTIMIZE 1 and 3; per step the observations (shape, dtype, '
        'labels, qtotal, per-leg type/qconj/slices/charges, set of stored blocks, block values to tolerance, scalar '
        'results, or the class of the raised error) are compared offline; plus direct calls of the paired helper '
        'functions and small DMRG/TEBD runs. non-trivial = program with >=2 ops on legs with >=2 blocks; distinct as C01')
ASSUMPTIONS = ['both configurations import the same .py files; only the use_cython replacements differ',
               'tolerance 1e-10 (double) / 3e-4 (programs involving single precision)']
ANCHORS = {'tenpy/linalg/np_conserved.py': ['*'], 'tenpy/linalg/charges.py': ['*'], 'tenpy/tools/optimization.py': ['*']}
REQUIRED_COUNTERS = {'diff.steps_compared': 2000, 'paired.calls': 200, 'algo.runs_compared': 2,
                     'impl.compiled_functions_seen': 10, 'impl.python_twins_seen': 10}
N = {'quick': [(':O1', 1300, 9), (':O3', 500, 4)], 'thorough': [(':O1', 40000, 10), (':O3', 20000, 6)]}
PAIRED = [('tenpy.linalg.charges', 'ChargeInfo.make_valid'), ('tenpy.linalg.charges', 'ChargeInfo.check_valid'),
          ('tenpy.linalg.charges', 'LegPipe._init_from_legs'), ('tenpy.linalg.charges', '_find_row_differences'),
          ('tenpy.linalg.charges', '_map_blocks'), ('tenpy.linalg.charges', '_sliced_copy'),
          ('tenpy.linalg.charges', '_make_stride'), ('tenpy.linalg.np_conserved', 'Array.itranspose'),
          ('tenpy.linalg.np_conserved', 'Array.iadd_prefactor_other'), ('tenpy.linalg.np_conserved', 'Array.iscale_prefactor'),
          ('tenpy.linalg.np_conserved', 'Array._imake_contiguous'), ('tenpy.linalg.np_conserved', '_combine_legs_worker'),
          ('tenpy.linalg.np_conserved', '_split_legs_worker'), ('tenpy.linalg.np_conserved', '_tensordot_transpose_axes'),
          ('tenpy.linalg.np_conserved', '_tensordot_worker'), ('tenpy.linalg.np_conserved', '_inner_worker')]


def drive(drv):
    tier = drv.tier
    dumpdir = os.path.join(drv.tmp, 'dump')
    os.makedirs(dumpdir, exist_ok=True)
    stage1, stage2 = [], []
    for opt, n, nsh in N[tier]:
        for u in shard('pure' + opt, n, nsh, part='prog', role='dump', dumpdir=dumpdir, timeout=3000,
                       time_budget=60 if tier == 'quick' else 1500):
            stage1.append(u)
        for u in shard('compiled' + opt, n, nsh, part='prog', role='compare', dumpdir=dumpdir, timeout=3000,
                       time_budget=80 if tier == 'quick' else 1800):
            stage2.append(u)
    npair = 600 if tier == 'quick' else 20000
    stage1 += shard('pure:O1', npair, 2, part='paired', role='dump', dumpdir=dumpdir, timeout=3000)
    stage2 += shard('compiled:O1', npair, 2, part='paired', role='compare', dumpdir=dumpdir, timeout=3000)
    nalgo = 3 if tier == 'quick' else 12
    stage1 += shard('pure:O1', nalgo, nalgo, part='algo', role='dump', dumpdir=dumpdir, timeout=3000)
    stage2 += shard('compiled:O1', nalgo, nalgo, part='algo', role='compare', dumpdir=dumpdir, timeout=3000)
    r1 = drv.run_units(stage1)
    r2 = drv.run_units(stage2)
    agg = aggregate(r1 + r2)
    return agg, {'stale_in_repo_binary': _stale_binary_note()}


def _stale_binary_note():
    """Informational: does the git-ignored in-repo .so correspond to the current .pyx?  (checks never use it)"""
    import glob
    import hashlib
    from vf import build
    sos = glob.glob(os.path.join(build.repo(), 'tenpy', 'linalg', '_npc_helper*.so'))
    if not sos:
        return 'no in-repo binary present'
    fresh = build.build_so('compiled')
    same = hashlib.sha256(open(sos[0], 'rb').read()).hexdigest() == hashlib.sha256(open(fresh, 'rb').read()).hexdigest()
    return 'in-repo binary %s the fresh build of the current .pyx (checks always use the fresh build)' % (
        'is byte-identical to' if same else 'DIFFERS from')


def worker_init(ctx):
    warnings.simplefilter('ignore')
    ctx.dump = {}
    ctx.ref = None
    u = ctx.unit
    ctx.path = os.path.join(u['dumpdir'], '%s-%s-%d-%d.pkl' % (u['part'], ctx.config.split(':')[1], u['lo'], u['hi']))
    if u['role'] == 'compare':
        if not os.path.exists(ctx.path):
            ctx.note('reference dump missing: ' + ctx.path)
            raise RuntimeError('reference dump missing')
        with open(ctx.path, 'rb') as f:
            ctx.ref = pickle.load(f)
    # which implementation is active?
    import importlib
    for modname, qual in PAIRED:
        obj = importlib.import_module(modname)
        for part in qual.split('.'):
            obj = getattr(obj, part)
        m = getattr(obj, '__module__', None) or type(obj).__module__
        if 'npc_helper' in str(m) or 'cython' in type(obj).__name__.lower() or not hasattr(obj, '__code__'):
            ctx.count('impl.compiled_functions_seen')
            if ctx.config.startswith('pure'):
                ctx.violation('config:pure-uses-compiled-function', '%s is %r in the pure configuration' % (qual, obj))
        else:
            ctx.count('impl.python_twins_seen')
            if ctx.config.startswith('compiled'):
                ctx.violation('config:compiled-uses-python-twin', '%s is the Python twin in the compiled configuration '
                              '(extension not loaded / replacement missing)' % qual)


def worker_finish(ctx):
    if ctx.unit['role'] == 'dump':
        with open(ctx.path, 'wb') as f:
            pickle.dump(ctx.dump, f, protocol=4)


def run_case(ctx, i):
    globals()['case_' + ctx.unit['part']](ctx, i)


def case_prog(ctx, i):
    from vf.tprog import Prog, compare_observations
    P = Prog(ctx.rng, monitors=('c04', ), max_ops=base.MAX_OPS[ctx.tier], counters=ctx.counters,
             weights={'legops': 0.5, 'chargeops': 0.5})
    try:
        P.run()
        crashed = None
    except Exception as e:  # harness-level exception (e.g. shadow bookkeeping after divergent behaviour)
        crashed = '%s: %s' % (type(e).__name__, str(e)[:200])
    trace = P.trace
    if ctx.unit['role'] == 'dump':
        ctx.dump[i] = {'trace': trace, 'single': P.single, 'crashed': crashed}
        return
    ref = ctx.ref.get(i)
    case = {'program': P.log}
    if ref is None:
        ctx.count('diff.reference_missing')
        return
    single = P.single or ref['single']
    n = min(len(trace), len(ref['trace']))
    for k in range(n):
        x, y = ref['trace'][k], trace[k]
        ctx.count('diff.steps_compared')
        if x['op'] != y['op'] or x.get('log') != y.get('log'):
            ctx.violation('%s:program-diverged' % x['op'], 'step %d: pure ran %r, compiled ran %r (an earlier result differed '
                          'in a way the generator depends on)' % (k, x.get('log'), y.get('log')), case)
            return
        if ('error' in x) != ('error' in y):
            e = x.get('error') or y.get('error')
            ctx.violation('%s:error-in-one-config-only:%s@%s' % (x['op'], e, x.get('where') or y.get('where')),
                          'step %d %s: pure %s, compiled %s' % (k, x.get('log'), x.get('error', 'ok'), y.get('error', 'ok')), case)
            return
        if 'error' in x:
            if x['error'] != y['error']:
                ctx.violation('%s:different-error-class' % x['op'], 'pure %s compiled %s' % (x['error'], y['error']), case)
            ctx.count('diff.errors_compared')
            return
        if len(x['slots']) != len(y['slots']):
            ctx.violation('%s:different-number-of-results' % x['op'], '', case)
            return
        for sx, sy in zip(x['slots'], y['slots']):
            d = compare_observations(sx, sy, single)
            if d is not None:
                ctx.violation('%s:%s' % (x['op'], d[0]), 'step %d %s: pure vs compiled: %s' % (k, x.get('log'), d[1]), case)
                return
        if ('scalar' in x) != ('scalar' in y):
            ctx.violation('%s:scalar-vs-array' % x['op'], '', case)
            return
        if 'scalar' in x:
            a, b = x['scalar'], y['scalar']
            if isinstance(a, complex) and isinstance(b, complex):
                if abs(a - b) > (3e-3 if single else 1e-9) * max(1.0, abs(a)):
                    ctx.violation('%s:scalar-value' % x['op'], 'pure %r compiled %r' % (a, b), case)
                    return
    if len(trace) != len(ref['trace']) or (crashed is None) != (ref['crashed'] is None):
        ctx.violation('program:different-length', 'pure %d steps (crash %r), compiled %d steps (crash %r)' %
                      (len(ref['trace']), ref['crashed'], len(trace), crashed), case)
    ops = [l[0] for l in P.log[1:]]
    multi = any(k.startswith('leg:') and k not in ('leg:single', 'leg:empty') for k in P.features)
    ctx.sig((tuple(sorted(P.features)), tuple(sorted(ops)), tuple(P.mod)), nontrivial=multi and len(ops) >= 2)
    if i % 500 == 0:
        ctx.sample(case)


# ------------------------------------------------------------------------------------------------
def case_paired(ctx, i):
    """Direct calls of paired helper functions with adversarial arguments; results dumped / compared."""
    from tenpy.linalg import charges as C
    from tenpy.linalg import np_conserved as npc
    from vf import gen
    rng = ctx.rng
    which = i % 8
    out = {}
    try:
        if which == 0:
            nq = int(rng.integers(0, 3))
            L = int(rng.choice([0, 1, 2, 5]))
            q = rng.integers(-1, 2, size=(L, nq)).astype(np.int64)
            if rng.random() < 0.5:
                q = np.sort(q, axis=0)
            out = {'fn': '_find_row_differences', 'args': q.tolist(), 'res': np.asarray(C._find_row_differences(q)).tolist()}
        elif which == 1:
            rank = int(rng.integers(1, 5))
            shape = [int(x) for x in rng.integers(1, 4, size=rank)]
            cstyle = bool(rng.random() < 0.5)
            out = {'fn': '_make_stride', 'args': [shape, cstyle], 'res': np.asarray(C._make_stride(shape, cstyle)).tolist()}
        elif which == 2:
            mod = gen.rand_mod(rng)
            ci = C.ChargeInfo(mod)
            shape = (int(rng.integers(0, 4)), len(mod)) if rng.random() < 0.7 else (len(mod), )
            q = rng.integers(-7, 8, size=shape).astype(np.int64)
            qin = q.copy()
            r = ci.make_valid(q if (rng.random() < 0.5 or q.size == 0) else q.tolist())
            out = {'fn': 'make_valid', 'args': [mod, qin.tolist()], 'res': np.asarray(r).tolist(),
                   'input_unchanged': bool(np.array_equal(q, qin)), 'check_valid': bool(ci.check_valid(np.atleast_2d(r))),
                   'check_valid_raw': bool(ci.check_valid(np.atleast_2d(qin)))}
        elif which == 3:
            rank = int(rng.integers(1, 4))
            dshape = [int(x) for x in rng.integers(1, 5, size=rank)]
            sshape = [int(x) for x in rng.integers(1, 5, size=rank)]
            sl = [int(rng.integers(1, min(a, b) + 1)) for a, b in zip(dshape, sshape)]
            db = [int(rng.integers(0, a - s + 1)) for a, s in zip(dshape, sl)]
            sb = [int(rng.integers(0, a - s + 1)) for a, s in zip(sshape, sl)]
            dest = np.zeros(dshape)
            src = rng.standard_normal(sshape)
            C._sliced_copy(dest, np.array(db, dtype=np.intp), src, np.array(sb, dtype=np.intp), np.array(sl, dtype=np.intp))
            exp = np.zeros(dshape)
            exp[tuple(slice(b, b + s) for b, s in zip(db, sl))] = src[tuple(slice(b, b + s) for b, s in zip(sb, sl))]
            if not np.array_equal(dest, exp):
                ctx.violation('_sliced_copy:wrong', 'dest differs from numpy slicing', {'dshape': dshape, 'sshape': sshape})
            out = {'fn': '_sliced_copy', 'res': dest.tolist()}
        elif which == 4:
            bs = [int(x) for x in rng.integers(1, 4, size=int(rng.integers(0, 5)))]
            out = {'fn': '_map_blocks', 'args': bs, 'res': np.asarray(C._map_blocks(np.array(bs, dtype=np.intp))).tolist()}
        elif which in (6, 7):
            # the paired linear-algebra kernels on the dtypes that do NOT take the BLAS path, with different sets of stored blocks
            ci = gen.rand_chinfo(rng, max_q=1)
            # few distinct charges, several blocks per charge: many blocks are allowed by the charge rule
            l0 = gen.rand_leg(rng, ci, max_blocks=5, max_bs=2, window=1, kind=str(rng.choice(['unsorted', 'dup_nonadjacent', 'sorted_dup'])))[0]
            legs = [l0, l0.conj()]
            dt = str(rng.choice(['float32', 'complex64', 'int64', 'float64', 'complex128'], p=[0.3, 0.25, 0.25, 0.1, 0.1]))
            qt = np.zeros(ci.qnumber, dtype=np.int64)
            a = gen.rand_array(rng, legs, dtype=dt, qtotal=qt, labels=['l%d' % k for k in range(len(legs))], fill='missing')[0]
            # `other` stores (nearly) all blocks, so that some exist only in `other`; same or narrower type keeps the result type
            b = gen.rand_array(rng, legs, dtype=dt if rng.random() < 0.7 else {'complex64': 'float32', 'int64': 'int64'}.get(dt, dt),
                               qtotal=qt, labels=['l%d' % k for k in range(len(legs))], fill='all' if rng.random() < 0.7 else 'missing')[0]
            if a.stored_blocks > 1:
                # make sure some blocks exist only in `other` (the state ipurge_zeros would leave behind)
                keep = sorted(int(x) for x in rng.permutation(a.stored_blocks)[:int(rng.integers(0, a.stored_blocks))])
                a._data = [a._data[k] for k in keep]
                a._qdata = np.ascontiguousarray(a._qdata[keep])
            b0 = b.to_ndarray().copy()
            pre = [3, -2, 1, -1][int(rng.integers(4))] if dt == 'int64' and rng.random() < 0.7 else \
                [3, -2, 0.5, 1.5 - 0.5j, 1, -1][int(rng.integers(6))]
            if which == 6:
                r = a.iadd_prefactor_other(pre, b)
                name = 'iadd_prefactor_other'
            else:
                r = a.iscale_prefactor(pre)
                name = 'iscale_prefactor'
            out = {'fn': name, 'args': [dt, str(b.dtype), repr(pre)], 'res': np.round(r.to_ndarray().astype(complex), 5).tolist(),
                   'dtype': str(r.dtype), 'other_unchanged': bool(np.array_equal(b.to_ndarray(), b0)),
                   'blocks': sorted(map(tuple, np.asarray(r._qdata).tolist()))}
        else:
            ci = gen.rand_chinfo(rng)
            legs = [gen.rand_leg(rng, ci, max_blocks=3, max_bs=2)[0] for _ in range(int(rng.integers(1, 4)))]
            p = C.LegPipe(legs, qconj=int(rng.choice([1, -1])), sort=bool(rng.random() < 0.6), bunch=bool(rng.random() < 0.6))
            out = {'fn': 'LegPipe', 'q_map': np.asarray(p.q_map).tolist(), 'slices': np.asarray(p.slices).tolist(),
                   'charges': np.asarray(p.charges).tolist(), 'q_map_slices': np.asarray(p.q_map_slices).tolist(),
                   'perm': None if p._perm is None else np.asarray(p._perm).tolist(),
                   'strides': np.asarray(p._strides).tolist(), 'flags': [bool(p.sorted), bool(p.bunched)]}
    except Exception as e:
        out = {'fn': 'which%d' % which, 'error': type(e).__name__}
    ctx.count('paired.calls')
    ctx.sig(('paired', which, repr(out.get('args'))[:80]), nontrivial=True)
    if ctx.unit['role'] == 'dump':
        ctx.dump[i] = out
        return
    ref = ctx.ref.get(i)
    if ref != out:
        keys = [k for k in set(ref) | set(out) if ref.get(k) != out.get(k)]
        ctx.violation('paired.%s:differs:%s' % (out.get('fn'), '+'.join(sorted(keys))),
                      'pure %r vs compiled %r' % ({k: ref.get(k) for k in keys}, {k: out.get(k) for k in keys}),
                      {'args': out.get('args')})


def case_algo(ctx, i):
    """One small algorithm run per case; energies/entropies must agree to 1e-9 between configurations."""
    import tenpy
    from tenpy.models.xxz_chain import XXZChain
    from tenpy.networks.mps import MPS
    kind = ['dmrg', 'tebd', 'tdvp'][i % 3]
    L = 6
    M = XXZChain({'L': L, 'Jxx': 1., 'Jz': 0.7 + 0.1 * (i // 3), 'hz': 0.1, 'bc_MPS': 'finite', 'sort_charge': True})
    psi = MPS.from_product_state(M.lat.mps_sites(), ['up', 'down'] * (L // 2), bc='finite')
    if kind == 'dmrg':
        from tenpy.algorithms import dmrg
        eng = dmrg.TwoSiteDMRGEngine(psi, M, {'trunc_params': {'chi_max': 16, 'svd_min': 1e-12}, 'max_sweeps': 4,
                                              'mixer': True})
        E, _ = eng.run()
        res = [float(E)] + [float(x) for x in psi.entanglement_entropy()]
    elif kind == 'tebd':
        from tenpy.algorithms import tebd
        eng = tebd.TEBDEngine(psi, M, {'dt': 0.05, 'N_steps': 4, 'order': 2, 'trunc_params': {'chi_max': 16, 'svd_min': 1e-12}})
        eng.run()
        res = [float(x) for x in psi.entanglement_entropy()] + [float(x) for x in psi.expectation_value('Sz')]
    else:
        from tenpy.algorithms import tdvp
        eng = tdvp.TwoSiteTDVPEngine(psi, M, {'dt': 0.05, 'N_steps': 3, 'trunc_params': {'chi_max': 16, 'svd_min': 1e-12}})
        eng.run()
        res = [float(x) for x in psi.entanglement_entropy()] + [float(x) for x in psi.expectation_value('Sz')]
    ctx.sig(('algo', kind, i), nontrivial=True)
    if ctx.unit['role'] == 'dump':
        ctx.dump[i] = res
        return
    ref = ctx.ref.get(i)
    ctx.count('algo.runs_compared')
    if ref is None or len(ref) != len(res) or max(abs(a - b) for a, b in zip(ref, res)) > 1e-9:
        ctx.violation('algo.%s:results-differ' % kind, 'pure %r compiled %r' % (ref, res), {'kind': kind, 'i': i})
