"""C05 — matrix factorizations are exact, structured and charge-compatible (residual/structure monitors per call)."""
import traceback
import warnings

import numpy as np

from vf.runner import shard

PROP = 'C05'
LEVEL = 'exploration'
RULE = ('random rank-2 block-sparse matrices (optionally obtained from rank-3/4 tensors by combine_legs, non-blocked / unsorted '
        'legs, partner legs stored with flipped sign, sectors present on one side only, missing and stored-zero blocks, '
        'rank-deficient blocks, nonzero qtotal, complex entries) x the full option lattice of each routine; every call is '
        'judged by dense residuals and structure (never by comparing factors with numpy factors). non-trivial = matrix with '
        '>=2 charge sectors; distinct = (routine, options, charge-structure features) signature')
ASSUMPTIONS = ['numpy/scipy svd, eigvals, expm as ground truth for spectra and exponentials',
               'residual tolerance 1e-9 * max(1, |a|)']
ANCHORS = {'tenpy/linalg/np_conserved.py': ['svd', '_svd_worker', 'qr', 'lq', 'eigh', 'eig', 'eigvalsh', 'eigvals', '_eig_worker',
                                            '_eigvals_worker', 'expm', 'pinv', 'polar', 'orthogonal_columns', 'speigs',
                                            'Array.as_completely_blocked']}
REQUIRED_COUNTERS = {'svd.calls': 100, 'qr.calls': 100, 'eigh.calls': 50, 'eig.calls': 30, 'expm.calls': 20, 'pinv.calls': 20,
                     'polar.calls': 20, 'orthogonal_columns.calls': 20, 'speigs.calls': 10, 'feature.piped_input': 20,
                     'feature.rank_deficient': 20, 'feature.nonzero_qtotal': 20, 'feature.missing_sector': 20}
ROUTINES = ['svd', 'svd', 'svd', 'qr', 'qr', 'lq', 'eigh', 'eig', 'eigvals', 'expm', 'pinv', 'polar', 'orthogonal_columns',
            'speigs']


def plan(tier, seed, jobs):
    q = tier == 'quick'
    return (shard('compiled', 4200 if q else 80000, 12 if q else 12, timeout=3000, time_budget=70 if q else 1500) +
            shard('pure', 1000 if q else 30000, 4 if q else 6, timeout=3000, time_budget=70 if q else 1500))


def worker_init(ctx):
    warnings.simplefilter('ignore')


TOL = 1e-9


def gen_matrix(ctx, rng, square=False, hermitian=False, allow_qtotal=True, tall=False):
    """Returns (Array a, dense, features set)."""
    from vf import gen
    from tenpy.linalg import np_conserved as npc
    feats = set()
    chinfo = gen.rand_chinfo(rng, max_q=2)
    mod = [int(m) for m in chinfo.mod]
    dtype = 'complex128' if rng.random() < 0.4 else 'float64'
    piped = (not square) and rng.random() < 0.3
    if square:
        l0, k0 = gen.rand_leg(rng, chinfo, max_blocks=4, max_bs=3)
        if l0.ind_len == 0:
            return None
        l1, mode = gen.partner_leg(rng, l0)
        feats.add('leg:' + k0)
        feats.add('partner:' + mode)
        legs = [l0, l1]
        qt = np.zeros(len(mod), dtype=np.int64)
        mask = gen.charge_mask([gen.leg_qflat(l) for l in legs], [l.qconj for l in legs], qt, mod)
        d = gen.rand_values(rng, (l0.ind_len, l0.ind_len), dtype)
        d = np.where(mask, d, 0)
        if hermitian:
            d = d + d.conj().T
        a = npc.Array.from_ndarray(d, legs, qtotal=qt, labels=['a', 'b'], cutoff=0.)
        if rng.random() < 0.35 and a.stored_blocks:
            # charge sectors without any stored block (as after ipurge_zeros, or for operators assembled from outer products)
            for _ in range(int(rng.integers(1, 3))):
                k_ = int(rng.integers(a.stored_blocks))
                qi, qj = [int(x) for x in a._qdata[k_]]
                si, sj = l0.get_slice(qi), l1.get_slice(qj)
                d[si, sj] = 0
                d[sj, si] = 0  # (keeps a Hermitian matrix Hermitian; the transposed block has the same charges for partner legs)
            mask2 = gen.charge_mask([gen.leg_qflat(l) for l in legs], [l.qconj for l in legs], qt, mod)
            d = np.where(mask2, d, 0)
            a = npc.Array.from_ndarray(d, legs, qtotal=qt, labels=['a', 'b'], cutoff=0.)
            a.ipurge_zeros()  # (from_ndarray stores every charge-compatible block, also blocks of zeros)
            feats.add('unstored_sector')
            ctx.count('feature.square_with_unstored_sector')
        feats.add('square')
    elif piped:
        # rank 3/4 tensor, then combine legs => pipe legs on the matrix
        rank = int(rng.choice([3, 4]))
        legs = [gen.rand_leg(rng, chinfo, max_blocks=3, max_bs=2)[0] for _ in range(rank)]
        if any(l.ind_len == 0 for l in legs):
            return None
        t, _, qt, fill = gen.rand_array(rng, legs, dtype=dtype, labels=['w', 'x', 'y', 'z'][:rank],
                                        qtotal=None if allow_qtotal else np.zeros(len(mod), dtype=np.int64),
                                        fill=str(rng.choice(['all', 'missing', 'zero_blocks'], p=[0.6, 0.3, 0.1])))
        perm = [int(x) for x in rng.permutation(rank)]
        k = int(rng.integers(1, rank))
        g0, g1 = perm[:k], perm[k:]
        a = t.combine_legs([g0, g1], qconj=[int(rng.choice([1, -1])), int(rng.choice([1, -1]))])
        if tall and a.shape[0] < a.shape[1]:
            a = a.itranspose()
        d = a.to_ndarray()
        feats.update(['piped', 'fill:' + fill])
        ctx.count('feature.piped_input')
    else:
        l0, k0 = gen.rand_leg(rng, chinfo, max_blocks=4, max_bs=3)
        l1, k1 = gen.rand_leg(rng, chinfo, max_blocks=4, max_bs=3)
        if l0.ind_len == 0 or l1.ind_len == 0:
            return None
        if tall and l0.ind_len < l1.ind_len:
            l0, l1 = l1, l0
        feats.update(['leg:' + k0, 'leg:' + k1])
        fill = str(rng.choice(['all', 'missing', 'zero_blocks'], p=[0.6, 0.25, 0.15]))
        a, d, qt, fill = gen.rand_array(rng, [l0, l1], dtype=dtype, labels=['a', 'b'],
                                        qtotal=None if allow_qtotal else np.zeros(len(mod), dtype=np.int64), fill=fill)
        feats.add('fill:' + fill)
    d = np.array(a.to_ndarray())
    if np.any(np.asarray(a.qtotal) != 0):
        feats.add('qtotal!=0')
        ctx.count('feature.nonzero_qtotal')
    # rank deficiency inside a stored block (duplicate a row / zero a column)
    if not hermitian and rng.random() < 0.3 and a.stored_blocks:
        blk = a._data[int(rng.integers(a.stored_blocks))]
        if blk.shape[0] >= 2 and rng.random() < 0.5:
            blk[1, :] = blk[0, :]
        elif blk.shape[1] >= 1:
            blk[:, 0] = 0
        d = np.array(a.to_ndarray())
        feats.add('rank_deficient')
        ctx.count('feature.rank_deficient')
    # sectors present on one side only
    r = _sector_sets(a)
    if r[0] != r[1]:
        feats.add('missing_sector')
        ctx.count('feature.missing_sector')
    if len(r[0] | r[1]) >= 2:
        feats.add('multi_sector')
    feats.add(dtype)
    return a, d, feats


def _sector_sets(a):
    from vf import gen
    mod = [int(m) for m in a.chinfo.mod]
    l0, l1 = a.legs
    rows = set(map(tuple, gen.mod_valid(l0.qconj * gen.leg_qflat(l0), mod).tolist()))
    cols = set(map(tuple, gen.mod_valid(np.asarray(a.qtotal)[None, :] - l1.qconj * gen.leg_qflat(l1), mod).tolist()))
    return rows, cols


def nrm(x):
    return float(np.linalg.norm(x))


def run_case(ctx, i):
    rng = ctx.rng
    routine = ROUTINES[int(rng.integers(len(ROUTINES)))]
    try:
        feats, opts = globals()['do_' + routine](ctx, rng)
    except _Skip:
        ctx.count('skipped')
        return
    ctx.count(routine + '.calls')
    ctx.sig((routine, tuple(sorted(map(str, opts.items()))), tuple(sorted(feats))), nontrivial='multi_sector' in feats)
    if i % 700 == 0:
        ctx.sample({'routine': routine, 'options': {k: repr(v) for k, v in opts.items()}, 'features': sorted(feats)})


class _Skip(Exception):
    pass


def _case(a, opts, feats):
    return {'shape': list(a.shape), 'mod': [int(m) for m in a.chinfo.mod], 'qtotal': np.asarray(a.qtotal).tolist(),
            'legs': [[np.asarray(l.slices).tolist(), np.asarray(l.charges).tolist(), int(l.qconj), type(l).__name__] for l in a.legs],
            'dense': a.to_ndarray(), 'options': {k: repr(v) for k, v in opts.items()}, 'features': sorted(feats)}


def _invariants(ctx, name, arrs, case):
    from vf import tshadow
    for x in arrs:
        for kind, what in tshadow.array_invariants(x):
            ctx.violation('%s:%s' % (name, kind), what, case)


def do_svd(ctx, rng):
    from tenpy.linalg import np_conserved as npc
    from vf import gen
    g = gen_matrix(ctx, rng)
    if g is None:
        raise _Skip()
    a, d, feats = g
    mod = [int(m) for m in a.chinfo.mod]
    full = bool(rng.random() < 0.25)
    cutoff = None if (full or rng.random() < 0.6) else float(rng.choice([1e-12, 0.3, 1.0]))
    compute_uv = True if full else bool(rng.random() < 0.85)
    opts = {'full_matrices': full, 'cutoff': cutoff, 'compute_uv': compute_uv}
    r = rng.random()
    if r < 0.3 and mod:
        qL = gen.mod_valid(gen.rand_charge(rng, mod), mod)
        opts['qtotal_LR'] = [qL, None] if rng.random() < 0.5 else [None, gen.mod_valid(np.asarray(a.qtotal) - qL, mod)]
        if rng.random() < 0.3:
            opts['qtotal_LR'] = [qL, gen.mod_valid(np.asarray(a.qtotal) - qL, mod)]
    if rng.random() < 0.5:
        opts['inner_qconj'] = int(rng.choice([1, -1]))
    if rng.random() < 0.5:
        opts['inner_labels'] = ['iL', 'iR']
    case = _case(a, opts, feats)
    before = a.to_ndarray().copy()
    sv0 = np.linalg.svd(d, compute_uv=False)
    none_left = not np.any(sv0 > (cutoff if cutoff is not None else 0.))
    NAME = 'svd(full_matrices)' if full else 'svd'
    try:
        res = npc.svd(a, **opts)
    except RuntimeError as e:
        if none_left and 'no singular values' in str(e):
            raise _Skip()  # documented failure mode
        ctx.violation(NAME + ':raises-RuntimeError', traceback.format_exc()[-600:], case)
        return feats, opts
    except Exception as e:
        ctx.violation('%s:raises-%s' % (NAME, type(e).__name__), traceback.format_exc()[-600:], case)
        return feats, opts
    if not np.array_equal(a.to_ndarray(), before):
        ctx.violation('svd:mutates-input', '', case)
    sv = np.linalg.svd(d, compute_uv=False)
    scale = max(1.0, nrm(d))
    if not compute_uv:
        S = np.asarray(res)
        _check_S(ctx, 'svd', S, sv, cutoff, scale, case)
        return feats, opts
    U, S, VH = res
    _check_S(ctx, 'svd', S, sv, cutoff, scale, case)
    Ud, Vd = U.to_ndarray(), VH.to_ndarray()
    M, N = d.shape
    K = len(S)
    if np.any(~np.isfinite(Ud)) or np.any(~np.isfinite(Vd)) or np.any(~np.isfinite(S)):
        ctx.violation('svd:nan', 'non-finite factors', case)
        return feats, opts
    if full:
        if Ud.shape != (M, M) or Vd.shape != (N, N):
            ctx.violation('svd:full_matrices-shape', 'U %s VH %s' % (Ud.shape, Vd.shape), case)
        else:
            eu, ev = nrm(Ud.conj().T @ Ud - np.eye(M)), nrm(Vd @ Vd.conj().T - np.eye(N))
            if eu > TOL or ev > TOL:
                which = 'missing-sector' if 'missing_sector' in feats or any(f.startswith('fill:') and f != 'fill:all' for f in feats) else 'generic'
                ctx.violation('svd:full_matrices-not-unitary:%s' % which, '|U^dU-1|=%g |VV^d-1|=%g' % (eu, ev), case)
            else:
                D = Ud.conj().T @ d @ Vd.conj().T
                big = np.abs(D) > 1e-8 * scale
                if np.any(big.sum(axis=0) > 1) or np.any(big.sum(axis=1) > 1):
                    ctx.violation('svd:full_matrices-not-diagonalising', 'U^d a V has several entries per row/column', case)
                vals = np.sort(np.abs(D[big]))[::-1]
                Sp = np.sort(S[S > 1e-8 * scale])[::-1]
                if len(vals) != len(Sp) or (len(vals) and np.max(np.abs(vals - Sp)) > 1e-8 * scale):
                    ctx.violation('svd:full_matrices-S-mismatch', 'diag %r vs S %r' % (vals[:5], Sp[:5]), case)
    else:
        if Ud.shape != (M, K) or Vd.shape != (K, N):
            ctx.violation('svd:shape', 'U %s S %d VH %s' % (Ud.shape, K, Vd.shape), case)
            return feats, opts
        rec = (Ud * S[None, :]) @ Vd
        bound = TOL * scale if cutoff is None else (np.sqrt(np.sum(sv[sv <= cutoff * (1 + 1e-9)]**2)) + TOL * scale)
        if nrm(rec - d) > bound:
            ctx.violation('svd:reconstruction', '|U S VH - a| = %g > %g' % (nrm(rec - d), bound), case)
        if nrm(Ud.conj().T @ Ud - np.eye(K)) > TOL or nrm(Vd @ Vd.conj().T - np.eye(K)) > TOL:
            ctx.violation('svd:not-isometric', '', case)
        try:
            U.legs[1].test_contractible(VH.legs[0])
        except ValueError as e:
            ctx.violation('svd:inner-legs-not-contractible', str(e)[:200], case)
    if VH.legs[0].qconj != opts.get('inner_qconj', 1):
        ctx.violation(NAME + ':inner_qconj', 'VH.legs[0].qconj=%d' % VH.legs[0].qconj, case)
    qL, qR = opts.get('qtotal_LR', [None, None])
    aq = np.asarray(a.qtotal)
    if qL is None and qR is None:
        qR = aq
    if qL is None:
        qL = gen.mod_valid(aq - qR, mod)
    if qR is None:
        qR = gen.mod_valid(aq - qL, mod)
    if not np.array_equal(np.asarray(U.qtotal), gen.mod_valid(qL, mod)) or not np.array_equal(np.asarray(VH.qtotal), gen.mod_valid(qR, mod)):
        ctx.violation(NAME + ':qtotal_LR', 'U.qtotal %r VH.qtotal %r requested %r %r' %
                      (np.asarray(U.qtotal).tolist(), np.asarray(VH.qtotal).tolist(), np.asarray(qL).tolist(), np.asarray(qR).tolist()), case)
    il = opts.get('inner_labels', [None, None])
    if U.get_leg_labels() != ['a' if 'piped' not in feats else U.get_leg_labels()[0], il[0]] or VH.get_leg_labels()[0] != il[1]:
        ctx.violation(NAME + ':labels', 'U %r VH %r' % (U.get_leg_labels(), VH.get_leg_labels()), case)
    _invariants(ctx, NAME, [U, VH], case)
    return feats, opts


def _check_S(ctx, name, S, sv, cutoff, scale, case):
    if np.any(S < 0):
        ctx.violation(name + ':negative-singular-values', repr(S[S < 0][:4]), case)
    if cutoff is not None:
        if np.any(np.abs(sv - cutoff) < 1e-7 * max(cutoff, 1e-300)):
            return
        exp = np.sort(sv[sv > cutoff])[::-1]
        got = np.sort(S)[::-1]
        if len(exp) != len(got) or (len(exp) and np.max(np.abs(exp - got)) > 1e-8 * scale):
            ctx.violation(name + ':cutoff-spectrum', 'S %r expected (> %g) %r' % (got[:6], cutoff, exp[:6]), case)
    else:
        got = np.sort(S)[::-1]
        K = len(got)
        ref = sv[:K] if K <= len(sv) else np.concatenate([sv, np.zeros(K - len(sv))])
        if K > len(sv) or not (np.max(np.abs(ref - got), initial=0) <= 1e-8 * scale) or np.any(sv[K:] > 1e-8 * scale):
            ctx.violation(name + ':spectrum', 'S %r numpy %r' % (got[:6], sv[:6]), case)


def do_qr(ctx, rng, lq=False):
    from tenpy.linalg import np_conserved as npc
    from vf import gen
    g = gen_matrix(ctx, rng)
    if g is None:
        raise _Skip()
    a, d, feats = g
    mod = [int(m) for m in a.chinfo.mod]
    mode = str(rng.choice(['reduced', 'complete'], p=[0.7, 0.3]))
    cutoff = None if (mode == 'complete' or rng.random() < 0.7) else 1e-10
    pos = bool(rng.random() < 0.5)
    opts = {'mode': mode, 'cutoff': cutoff, ('pos_diag_L' if lq else 'pos_diag_R'): pos}
    if rng.random() < 0.4 and mod:
        opts['qtotal_Q'] = gen.mod_valid(gen.rand_charge(rng, mod), mod) if rng.random() < 0.6 else np.asarray(a.qtotal).copy()
    if rng.random() < 0.5:
        opts['inner_qconj'] = int(rng.choice([1, -1]))
    if rng.random() < 0.4:
        opts['inner_labels'] = ['iL', 'iR']
    name = 'lq' if lq else 'qr'
    case = _case(a, opts, feats)
    try:
        if lq:
            L, Q = npc.lq(a, **opts)
            R = L
        else:
            Q, R = npc.qr(a, **opts)
    except Exception as e:
        ctx.violation('%s:raises-%s' % (name, type(e).__name__), traceback.format_exc()[-600:], case)
        return feats, opts
    Qd, Rd = Q.to_ndarray(), R.to_ndarray()
    scale = max(1.0, nrm(d))
    if np.any(~np.isfinite(Qd)) or np.any(~np.isfinite(Rd)):
        kind = 'rank-deficient' if 'rank_deficient' in feats or any(f in feats for f in ('fill:zero_blocks', )) else 'generic'
        ctx.violation('%s:nan-in-factors:%s:pos_diag=%s' % (name, kind, pos), 'non-finite entries in Q or R', case)
        return feats, opts
    rec = (Rd @ Qd) if lq else (Qd @ Rd)
    if rec.shape != d.shape or nrm(rec - d) > (TOL if cutoff is None else 1e-8) * scale:
        ctx.violation('%s:reconstruction' % name, '|QR - a| = %g' % (nrm(rec - d) if rec.shape == d.shape else -1), case)
    Qm = Qd.conj().T if lq else Qd  # columns orthonormal
    K = Qm.shape[1]
    if nrm(Qm.conj().T @ Qm - np.eye(K)) > TOL:
        ctx.violation('%s:Q-not-isometric' % name, '|Q^dQ-1| = %g' % nrm(Qm.conj().T @ Qm - np.eye(K)), case)
    if mode == 'complete':
        M = d.shape[1] if lq else d.shape[0]
        if Qm.shape != (M, M):
            ctx.violation('%s:complete-shape' % name, 'Q %s' % (Qm.shape, ), case)
        elif nrm(Qm @ Qm.conj().T - np.eye(M)) > TOL:
            ctx.violation('%s:complete-not-unitary' % name, '', case)
    # triangular structure and positive diagonal: per stored block of R (blocks are per charge sector)
    if 'piped' not in feats and all(_blocked_sorted(l) for l in a.legs):
        for blk in R._data:
            b = blk.conj().T if lq else blk
            if nrm(np.tril(b, -1)) > TOL * scale:
                ctx.violation('%s:R-block-not-triangular' % name, '', case)
                break
    if pos and 'piped' not in feats and all(_blocked_sorted(l) for l in a.legs):
        for blk in R._data:
            dg = np.diagonal(blk)
            if np.any(np.abs(dg.imag) > 1e-10 * scale) or np.any(dg.real < -1e-10 * scale):
                ctx.violation('%s:pos_diag-violated' % name, 'diagonal %r' % dg[:5], case)
                break
    qt = opts.get('qtotal_Q')
    exp_q = np.zeros(len(mod), dtype=np.int64) if qt is None else gen.mod_valid(qt, mod)
    if not np.array_equal(np.asarray(Q.qtotal), exp_q):
        ctx.violation('%s:qtotal_Q' % name, 'Q.qtotal %r requested %r' % (np.asarray(Q.qtotal).tolist(), exp_q.tolist()), case)
    if not np.array_equal(gen.mod_valid(np.asarray(Q.qtotal) + np.asarray(R.qtotal), mod), gen.mod_valid(np.asarray(a.qtotal), mod)):
        ctx.violation('%s:qtotal-sum' % name, '', case)
    try:
        if lq:
            R.legs[1].test_contractible(Q.legs[0])
        else:
            Q.legs[1].test_contractible(R.legs[0])
    except ValueError as e:
        ctx.violation('%s:inner-legs-not-contractible' % name, str(e)[:200], case)
    inner = (Q.legs[0] if lq else R.legs[0])
    if not lq and inner.qconj != opts.get('inner_qconj', 1):
        ctx.violation('qr:inner_qconj', 'R.legs[0].qconj = %d' % inner.qconj, case)
    _invariants(ctx, name, [Q, R], case)
    return feats, opts


def _blocked_sorted(l):
    ch = [tuple(c[::-1]) for c in np.asarray(l.charges).tolist()]
    return all(ch[i] < ch[i + 1] for i in range(len(ch) - 1))


def do_lq(ctx, rng):
    return do_qr(ctx, rng, lq=True)


def do_eigh(ctx, rng):
    from tenpy.linalg import np_conserved as npc
    g = gen_matrix(ctx, rng, square=True, hermitian=True)
    if g is None:
        raise _Skip()
    a, d, feats = g
    opts = {'UPLO': str(rng.choice(['L', 'U'])), 'sort': rng.choice([None, 'm>', 'm<', '>', '<'])}
    case = _case(a, opts, feats)
    vals_only = rng.random() < 0.25
    try:
        if vals_only:
            W = npc.eigvalsh(a, **opts)
            V = None
        else:
            W, V = npc.eigh(a, **opts)
    except Exception as e:
        ctx.violation('eigh:raises-%s' % type(e).__name__, traceback.format_exc()[-600:], case)
        return feats, opts
    ref = np.linalg.eigvalsh(d)
    scale = max(1.0, nrm(d))
    if len(W) != len(ref) or not (np.max(np.abs(np.sort(W) - ref)) <= 1e-8 * scale):
        ctx.violation('eigh:spectrum', 'W %r numpy %r' % (np.sort(W)[:5], ref[:5]), case)
    if V is not None:
        Vd = V.to_ndarray()
        n = d.shape[0]
        if Vd.shape != (n, n) or nrm(Vd.conj().T @ Vd - np.eye(n)) > TOL:
            ctx.violation('eigh:V-not-unitary', '', case)
        elif nrm(d @ Vd - Vd * W[None, :]) > 1e-8 * scale:
            ctx.violation('eigh:eigenpairs', '|aV - VW| = %g' % nrm(d @ Vd - Vd * W[None, :]), case)
        # sort option within each block of the new leg
        srt = opts['sort']
        leg = V.legs[1]
        for b, e in zip(leg.slices[:-1], leg.slices[1:]):
            w = W[b:e]
            key = {None: w, '<': w, '>': -w, 'm<': np.abs(w), 'm>': -np.abs(w)}[srt]
            if np.any(np.diff(key) < -1e-9 * scale):
                ctx.violation('eigh:sort-option-not-respected', 'sort=%r block %r' % (srt, w), case)
                break
        if V.get_leg_labels() != ['a', 'eig']:
            ctx.violation('eigh:labels', repr(V.get_leg_labels()), case)
        _invariants(ctx, 'eigh', [V], case)
    return feats, opts


def _match_spectra(w, ref, tol):
    """Greedy matching of two complex multisets."""
    w, ref = list(w), list(ref)
    if len(w) != len(ref):
        return False
    for x in w:
        j = int(np.argmin([abs(x - y) for y in ref]))
        if not (abs(x - ref[j]) <= tol):
            return False
        ref.pop(j)
    return True


def do_eig(ctx, rng):
    from tenpy.linalg import np_conserved as npc
    g = gen_matrix(ctx, rng, square=True)
    if g is None:
        raise _Skip()
    a, d, feats = g
    opts = {'sort': rng.choice([None, 'm>', 'm<', '>', '<'])}
    case = _case(a, opts, feats)
    try:
        W, V = npc.eig(a, **opts)
    except Exception as e:
        ctx.violation('eig:raises-%s' % type(e).__name__, traceback.format_exc()[-600:], case)
        return feats, opts
    scale = max(1.0, nrm(d))
    ref = np.linalg.eigvals(d)
    # defective / ill-conditioned matrices: use a loose tolerance on the spectrum, strict on the residual
    if not _match_spectra(W, ref, 1e-5 * scale):
        ctx.violation('eig:spectrum', 'W %r numpy %r' % (np.sort_complex(W)[:5], np.sort_complex(ref)[:5]), case)
    Vd = V.to_ndarray()
    if nrm(d @ Vd - Vd * W[None, :]) > 1e-7 * scale * max(1.0, nrm(Vd)):
        ctx.violation('eig:eigenpairs', '|aV - VW| = %g' % nrm(d @ Vd - Vd * W[None, :]), case)
    _invariants(ctx, 'eig', [V], case)
    return feats, opts


def do_eigvals(ctx, rng):
    from tenpy.linalg import np_conserved as npc
    g = gen_matrix(ctx, rng, square=True)
    if g is None:
        raise _Skip()
    a, d, feats = g
    opts = {'sort': rng.choice([None, 'm>', '<'])}
    case = _case(a, opts, feats)
    try:
        W = npc.eigvals(a, **opts)
    except Exception as e:
        ctx.violation('eigvals:raises-%s' % type(e).__name__, traceback.format_exc()[-600:], case)
        return feats, opts
    if not _match_spectra(W, np.linalg.eigvals(d), 1e-5 * max(1.0, nrm(d))):
        ctx.violation('eigvals:spectrum', '', case)
    ctx.count('eig.calls')
    return feats, opts


def do_expm(ctx, rng):
    import scipy.linalg
    from tenpy.linalg import np_conserved as npc
    g = gen_matrix(ctx, rng, square=True)
    if g is None:
        raise _Skip()
    a, d, feats = g
    case = _case(a, {}, feats)
    try:
        E = npc.expm(a)
    except Exception as e:
        ctx.violation('expm:raises-%s' % type(e).__name__, traceback.format_exc()[-600:], case)
        return feats, {}
    ref = scipy.linalg.expm(d)
    if nrm(E.to_ndarray() - ref) > 1e-9 * max(1.0, nrm(ref)):
        ctx.violation('expm:value', '|expm - scipy| = %g' % nrm(E.to_ndarray() - ref), case)
    if E.get_leg_labels() != a.get_leg_labels():
        ctx.violation('expm:labels', repr(E.get_leg_labels()), case)
    _invariants(ctx, 'expm', [E], case)
    return feats, {}


def _well_conditioned(d):
    sv = np.linalg.svd(d, compute_uv=False)
    nz = sv[sv > 0]
    return len(nz) == 0 or (nz.min() > 1e-6 * max(1.0, sv.max()) and not np.any((sv > 0) & (sv < 1e-12)))


def do_pinv(ctx, rng):
    from tenpy.linalg import np_conserved as npc
    g = gen_matrix(ctx, rng)
    if g is None:
        raise _Skip()
    a, d, feats = g
    sv = np.linalg.svd(d, compute_uv=False)
    # only inputs whose singular values are clearly above or (numerically) at zero: the cutoff decision is then unambiguous
    if np.any((sv > 1e-13) & (sv < 1e-6)) or not np.any(sv > 1e-6):
        raise _Skip()
    case = _case(a, {}, feats)
    try:
        B = npc.pinv(a)
    except Exception as e:
        ctx.violation('pinv:raises-%s' % type(e).__name__, traceback.format_exc()[-600:], case)
        return feats, {}
    Bd = B.to_ndarray()
    s = max(1.0, nrm(d)) * max(1.0, nrm(Bd))
    ids = [nrm(d @ Bd @ d - d), nrm(Bd @ d @ Bd - Bd), nrm((d @ Bd).conj().T - d @ Bd), nrm((Bd @ d).conj().T - Bd @ d)]
    if Bd.shape != d.shape[::-1] or not (max(ids) <= 1e-8 * s * max(1.0, nrm(Bd))):
        ctx.violation('pinv:moore-penrose', 'residuals %r' % ids, case)
    _invariants(ctx, 'pinv', [B], case)
    return feats, {}


def do_polar(ctx, rng):
    from tenpy.linalg import np_conserved as npc
    g = gen_matrix(ctx, rng)
    if g is None:
        raise _Skip()
    a, d, feats = g
    left = bool(rng.random() < 0.5)
    opts = {'left': left}
    sv = np.linalg.svd(d, compute_uv=False)
    if np.any((sv > 1e-14) & (sv < 1e-6)) or not np.any(sv > 1e-6):
        raise _Skip()
    case = _case(a, opts, feats)
    try:
        u, p, s = npc.polar(a, left=left)
    except Exception as e:
        ctx.violation('polar:raises-%s' % type(e).__name__, traceback.format_exc()[-600:], case)
        return feats, opts
    ud, pd = u.to_ndarray(), p.to_ndarray()
    scale = max(1.0, nrm(d))
    rec = (pd @ ud) if left else (ud @ pd)
    if rec.shape != d.shape or nrm(rec - d) > 1e-8 * scale:
        ctx.violation('polar:reconstruction', '|%s - a| = %g' % ('pu' if left else 'up', nrm(rec - d) if rec.shape == d.shape else -1), case)
    if nrm(pd - pd.conj().T) > 1e-8 * scale or (pd.size and np.linalg.eigvalsh((pd + pd.conj().T) / 2).min() < -1e-8 * scale):
        ctx.violation('polar:p-not-psd-hermitian', '', case)
    # u is a partial isometry: u u^d u = u
    if nrm(ud @ ud.conj().T @ ud - ud) > 1e-8:
        ctx.violation('polar:u-not-partial-isometry', '', case)
    _invariants(ctx, 'polar', [u, p], case)
    return feats, opts


def do_orthogonal_columns(ctx, rng):
    from tenpy.linalg import np_conserved as npc
    g = gen_matrix(ctx, rng, tall=True, allow_qtotal=True)
    if g is None:
        raise _Skip()
    a, d, feats = g
    M, N = d.shape
    if M < N or 'rank_deficient' in feats:
        raise _Skip()
    # documented assumption: full column rank (globally AND it must be full rank within each charge sector)
    if np.linalg.matrix_rank(d) < N:
        raise _Skip()
    opts = {'new_label': None if rng.random() < 0.5 else 'nl'}
    case = _case(a, opts, feats)
    try:
        o = npc.orthogonal_columns(a, **opts)
    except Exception as e:
        ctx.violation('orthogonal_columns:raises-%s' % type(e).__name__, traceback.format_exc()[-600:], case)
        return feats, opts
    od = o.to_ndarray()
    if od.shape != (M, M - N):
        ctx.violation('orthogonal_columns:shape', '%s expected %s' % (od.shape, (M, M - N)), case)
        return feats, opts
    if nrm(od.conj().T @ od - np.eye(M - N)) > TOL:
        ctx.violation('orthogonal_columns:not-isometric', '', case)
    if nrm(od.conj().T @ d) > 1e-8 * max(1.0, nrm(d)):
        ctx.violation('orthogonal_columns:not-orthogonal-to-a', '|o^d a| = %g' % nrm(od.conj().T @ d), case)
    _invariants(ctx, 'orthogonal_columns', [o], case)
    return feats, opts


def do_speigs(ctx, rng):
    from tenpy.linalg import np_conserved as npc
    from vf import gen
    g = gen_matrix(ctx, rng, square=True)
    if g is None:
        raise _Skip()
    a, d, feats = g
    mod = [int(m) for m in a.chinfo.mod]
    l0 = a.legs[0]
    effq = gen.mod_valid(l0.qconj * gen.leg_qflat(l0), mod)
    sectors = sorted(set(map(tuple, effq.tolist())))
    sec = sectors[int(rng.integers(len(sectors)))]
    idx = [i for i, q in enumerate(map(tuple, effq.tolist())) if q == sec]
    block = d[np.ix_(idx, idx)]
    if len(idx) < 4:
        raise _Skip()
    k = int(rng.integers(1, len(idx) - 1))
    opts = {'k': k, 'which': 'LM'}
    case = _case(a, dict(opts, sector=list(sec)), feats)
    try:
        W, V = npc.speigs(a, list(sec), k, which='LM')
    except Exception as e:
        if 'ARPACK' in str(e) or 'ArpackNoConvergence' in type(e).__name__:
            raise _Skip()
        ctx.violation('speigs:raises-%s' % type(e).__name__, traceback.format_exc()[-600:], case)
        return feats, opts
    ref = np.linalg.eigvals(block)
    ref = ref[np.argsort(-np.abs(ref))]
    scale = max(1.0, nrm(block))
    for w, v in zip(W, V):
        vd = v.to_ndarray()
        if nrm(d @ vd - w * vd) > 1e-6 * scale * max(nrm(vd), 1e-300):
            ctx.violation('speigs:eigenpair', '|Av - wv| = %g' % nrm(d @ vd - w * vd), case)
            break
        if np.min(np.abs(ref - w)) > 1e-6 * scale:
            ctx.violation('speigs:eigenvalue-not-in-sector-spectrum', 'w %r' % w, case)
            break
        if not np.array_equal(np.asarray(v.qtotal), gen.mod_valid(np.array(sec), mod)):
            ctx.violation('speigs:vector-qtotal', '%r vs sector %r' % (np.asarray(v.qtotal).tolist(), sec), case)
            break
    return feats, opts
