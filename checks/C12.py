"""C12 — local Hilbert spaces: operator algebra, basis bookkeeping and fermionic signs (dense identities over the option grid)."""
import itertools
import traceback
import warnings

import numpy as np

from vf.runner import shard

PROP = 'C12'
LEVEL = 'exploration'
RULE = ('part "grid": EVERY site class (by reflection) x parameters (S <= 3, Nmax <= 4, q <= 5, fillings) x every '
        'conserve/cons_N/cons_Sz option x sort_charge is enumerated (exhaustive); each named operator mapped back through '
        '`perm` is compared with the harness textbook matrix and with the conserve=None instance, algebra identities, '
        'hc pairs, charge of every matrix element, JW flags, op-name products, state labels, and histories of '
        'rename/remove/add/change_charge/sort_charge; part "grouped": 2-3 heterogeneous sites x every charge policy: grouped '
        'operators equal dense kron with JW of the left sites; part "car": on chains of <= 5 sites all pairs (sampled '
        'quadruples) of fermionic operators in every order go through TermList->MPOGraph->MPO, CouplingModel.add_coupling / '
        'add_multi_coupling and GroupedSite and are compared with explicit Jordan-Wigner matrices; {c_i, c_j^dagger} = delta_ij. '
        'non-trivial = site with conserved charge or fermionic operator; distinct = configuration signature'
        ' Also: correlation functions (the C08 oracles) on fermionic chains, kron of member-site operators.')
ASSUMPTIONS = ['textbook matrices in the documented state order of each site class', 'basis permutation `perm` as documented: leg index k holds standard state perm[k]']
ANCHORS = {'tenpy/networks/site.py': ['*'], 'tenpy/networks/terms.py': ['*']}
REQUIRED_COUNTERS = {'grid.configs': 40, 'grid.ops_checked': 300, 'grouped.configs': 20, 'car.pairs': 20, 'car.multi': 8,
                     'car.coupling_model': 8}
REQUIRED_ANCHORS = ['site.py:GroupedSite.__init__', 'site.py:set_common_charges', 'site.py:Site.change_charge', 'site.py:Site.add_op',
                    'terms.py:CouplingTerms.coupling_term_handle_JW', 'terms.py:MultiCouplingTerms.multi_coupling_term_handle_JW',
                    'terms.py:order_combine_term']


def grid():
    """All site configurations: (class name, kwargs)."""
    g = []
    for c in ('Sz', 'parity', None):
        for sc in (True, False):
            g.append(('SpinHalfSite', dict(conserve=c, sort_charge=sc)))
    for S in (0.5, 1.0, 1.5, 2.0, 3.0):
        for c in ('Sz', 'parity', None, 'dipole'):
            for sc in (True, False):
                g.append(('SpinSite', dict(S=S, conserve=c, sort_charge=sc)))
    for c in ('N', 'parity', None):
        for f in (0.5, 0.25):
            g.append(('FermionSite', dict(conserve=c, filling=f)))
    for cN in ('N', 'parity', None):
        for cS in ('Sz', 'parity', None):
            g.append(('SpinHalfFermionSite', dict(cons_N=cN, cons_Sz=cS)))
            g.append(('SpinHalfHoleSite', dict(cons_N=cN, cons_Sz=cS)))
    for n in (1, 2, 3, 4):
        for c in ('N', 'parity', None, 'dipole'):
            g.append(('BosonSite', dict(Nmax=n, conserve=c, filling=0.0 if n % 2 else 0.5)))
    for q in (2, 3, 4, 5):
        for c in ('Z', None):
            for sc in (True, False):
                g.append(('ClockSite', dict(q=q, conserve=c, sort_charge=sc)))
    return g


def plan(tier, seed, jobs):
    q = tier == 'quick'
    n = len(grid())
    return (shard('compiled', n, 6, part='grid', timeout=3000) +
            shard('compiled', 150 if q else 3000, 4, part='grouped', timeout=3000, time_budget=150 if q else 1500) +
            shard('compiled', 150 if q else 2000, 6, part='car', timeout=3000, time_budget=150 if q else 1500))


def worker_init(ctx):
    warnings.simplefilter('ignore')
    import logging
    logging.disable(logging.CRITICAL)
    import inspect
    from tenpy.networks import site as S
    found = sorted(n for n, c in vars(S).items() if inspect.isclass(c) and issubclass(c, S.Site) and c not in (S.Site, S.GroupedSite))
    have = {c for c, _ in grid()}
    for n in found:
        if n not in have:
            ctx.note('site class without factory: ' + n)
            ctx.count('classes_without_factory')
    ctx.count('classes_discovered', len(found))


def run_case(ctx, i):
    try:
        globals()['case_' + ctx.unit['part']](ctx, i)
    except _Skip:
        ctx.count('skipped')


class _Skip(Exception):
    pass


# ------------------------------------------------------------------------------------------------
# textbook matrices in the documented standard order
# ------------------------------------------------------------------------------------------------
def textbook(cls, kw):
    ops, labels = {}, {}
    if cls == 'SpinHalfSite':
        ops['Sz'] = np.diag([0.5, -0.5])
        ops['Sp'] = np.array([[0, 1.], [0, 0]])
        ops['Sm'] = ops['Sp'].T
        ops['Sx'] = 0.5 * (ops['Sp'] + ops['Sm'])
        ops['Sy'] = -0.5j * (ops['Sp'] - ops['Sm'])
        ops['Sigmaz'], ops['Sigmax'], ops['Sigmay'] = 2 * ops['Sz'], 2 * ops['Sx'], 2 * ops['Sy']
        labels = {'up': 0, 'down': 1}
    elif cls == 'SpinSite':
        S = kw['S']
        d = int(round(2 * S + 1))
        m = -S + np.arange(d)
        ops['Sz'] = np.diag(m)
        Sp = np.zeros((d, d))
        for n in range(d - 1):
            Sp[n + 1, n] = np.sqrt(S * (S + 1) - m[n] * (m[n] + 1))
        ops['Sp'], ops['Sm'] = Sp, Sp.T
        ops['Sx'] = 0.5 * (Sp + Sp.T)
        ops['Sy'] = -0.5j * (Sp - Sp.T)
        labels = {'down': 0, 'up': d - 1}
    elif cls == 'FermionSite':
        f = kw['filling']
        C = np.array([[0, 1.], [0, 0]])
        ops.update(C=C, Cd=C.T, N=np.diag([0., 1]), dN=np.diag([0., 1]) - f * np.eye(2), dNdN=(np.diag([0., 1]) - f * np.eye(2))**2 * 1.0,
                   JW=np.diag([1., -1]))
        ops['dNdN'] = (np.diag([0., 1]) - f * np.eye(2)) @ (np.diag([0., 1]) - f * np.eye(2))
        labels = {'empty': 0, 'full': 1}
    elif cls == 'BosonSite':
        n = kw['Nmax']
        d = n + 1
        B = np.zeros((d, d))
        for k in range(1, d):
            B[k - 1, k] = np.sqrt(k)
        N = np.diag(np.arange(d) * 1.0)
        f = kw['filling']
        ops.update(B=B, Bd=B.T, N=N, NN=N @ N, dN=N - f * np.eye(d), dNdN=(N - f * np.eye(d)) @ (N - f * np.eye(d)),
                   P=np.diag((-1.0)**np.arange(d)))
        labels = {'vac': 0, str(n): n}
    elif cls in ('SpinHalfFermionSite', 'SpinHalfHoleSite'):
        # states: empty, up, down, full(= Cd_up Cd_down |0>?)  documented order: ['empty', 'up', 'down', 'full']
        hole = cls == 'SpinHalfHoleSite'
        d = 3 if hole else 4
        Nu = np.diag([0., 1, 0, 1][:d])
        Nd = np.diag([0., 0, 1, 1][:d])
        JWu, JWd = np.diag(1 - 2 * np.diag(Nu)), np.diag(1 - 2 * np.diag(Nd))
        Cu = np.zeros((d, d))
        Cu[0, 1] = 1
        Cd_noJW = np.zeros((d, d))
        Cd_noJW[0, 2] = 1
        if not hole:
            Cu[2, 3] = 1
            Cd_noJW[1, 3] = 1
        Cd = JWu @ Cd_noJW
        ops.update(Nu=Nu, Nd=Nd, Ntot=Nu + Nd, Cu=Cu, Cdu=Cu.T, Cd=Cd, Cdd=Cd.T, JW=JWu @ JWd, JWu=JWu, JWd=JWd,
                   Sz=0.5 * (Nu - Nd), Sp=Cu.T @ Cd, Sm=Cd.T @ Cu)
        ops['Sx'] = 0.5 * (ops['Sp'] + ops['Sm'])
        ops['Sy'] = -0.5j * (ops['Sp'] - ops['Sm'])
        if not hole:
            ops['NuNd'] = Nu @ Nd
        labels = {'empty': 0, 'up': 1, 'down': 2}
        if not hole:
            labels['full'] = 3
    elif cls == 'ClockSite':
        q = kw['q']
        X = np.eye(q, k=1) + np.eye(q, k=1 - q)
        Z = np.diag(np.exp(2j * np.pi * np.arange(q) / q))
        ops.update(X=X, Xhc=X.conj().T, Z=Z, Zhc=Z.conj().T, Xphc=X + X.conj().T, Zphc=Z + Z.conj().T)
        labels = {'0': 0}
    return ops, labels


def algebra(cls, kw, get, ctx, case):
    """Defining algebra evaluated on the matrices returned by the site (leg basis)."""
    def chk(name, A, B, tol=1e-12):
        if not (np.linalg.norm(A - B) <= tol * max(1.0, np.linalg.norm(B))):
            ctx.violation('%s:algebra:%s' % (cls, name), '|lhs - rhs| = %g' % np.linalg.norm(A - B), case)

    def comm(a, b):
        return a @ b - b @ a

    def acomm(a, b):
        return a @ b + b @ a

    if cls in ('SpinHalfSite', 'SpinSite', 'SpinHalfFermionSite', 'SpinHalfHoleSite'):
        Sz, Sp, Sm = get('Sz'), get('Sp'), get('Sm')
        chk('[Sz,Sp]=Sp', comm(Sz, Sp), Sp)
        chk('[Sp,Sm]=2Sz', comm(Sp, Sm), 2 * Sz)
        chk('Sm=Sp^dagger', Sm, Sp.conj().T)
        if has(get, 'Sx'):
            Sx, Sy = get('Sx'), get('Sy')
            chk('[Sx,Sy]=iSz', comm(Sx, Sy), 1j * Sz)
            chk('Sp=Sx+iSy', Sp, Sx + 1j * Sy)
        if cls in ('SpinHalfSite', 'SpinSite'):
            S = kw.get('S', 0.5)
            d = Sz.shape[0]
            S2 = Sz @ Sz + 0.5 * (Sp @ Sm + Sm @ Sp)
            chk('S^2=S(S+1)', S2, S * (S + 1) * np.eye(d))
            if not np.allclose(np.sort(np.diag(Sz).real), -S + np.arange(d)):
                ctx.violation('%s:algebra:Sz-spectrum' % cls, repr(np.diag(Sz)), case)
    if cls == 'FermionSite':
        C, Cd, N, JW = get('C'), get('Cd'), get('N'), get('JW')
        chk('{C,Cd}=1', acomm(C, Cd), np.eye(2))
        chk('C^2=0', C @ C, 0 * C)
        chk('N=CdC', N, Cd @ C)
        chk('JW=1-2N', JW, np.eye(2) - 2 * N)
    if cls == 'BosonSite':
        B, Bd, N = get('B'), get('Bd'), get('N')
        d = N.shape[0]
        c = comm(B, Bd)
        exp = np.eye(d)
        kmax = int(np.argmax(np.diag(N).real))  # the basis may be permuted by charge sorting
        exp[kmax, kmax] = -(d - 1)
        chk('[B,Bd]=1(truncated)', c, exp)
        chk('N=BdB', N, Bd @ B)
        chk('P=(-1)^N', get('P'), np.diag((-1.0)**np.round(np.diag(N).real)))
    if cls in ('SpinHalfFermionSite', 'SpinHalfHoleSite'):
        Cu, Cdu, Cd, Cdd = get('Cu'), get('Cdu'), get('Cd'), get('Cdd')
        d = Cu.shape[0]
        if cls == 'SpinHalfFermionSite':
            chk('{Cu,Cdu}=1', acomm(Cu, Cdu), np.eye(d))
            chk('{Cd,Cdd}=1', acomm(Cd, Cdd), np.eye(d))
        chk('{Cu,Cd}=0', acomm(Cu, Cd), np.zeros((d, d)))
        if cls == 'SpinHalfFermionSite':  # in the projected (no double occupancy) space this relation does not hold
            chk('{Cu,Cdd}=0', acomm(Cu, Cdd), np.zeros((d, d)))
        chk('Nu=CduCu', get('Nu'), Cdu @ Cu)
        chk('Nd=CddCd', get('Nd'), Cdd @ Cd)
        chk('JW=(-1)^Ntot', get('JW'), np.diag((-1.0)**np.round(np.diag(get('Ntot')).real)))
    if cls == 'ClockSite':
        q = kw['q']
        X, Z = get('X'), get('Z')
        w = np.exp(2j * np.pi / q)
        # one of the two conventions ZX = w XZ or XZ = w ZX must hold (documented: clock relation)
        if min(np.linalg.norm(Z @ X - w * X @ Z), np.linalg.norm(X @ Z - w * Z @ X)) > 1e-12:
            ctx.violation('ClockSite:algebra:ZX=wXZ', '', case)
        chk('X^q=1', np.linalg.matrix_power(X, q), np.eye(q))
        chk('Z^q=1', np.linalg.matrix_power(Z, q), np.eye(q))


def has(get, name):
    try:
        get(name)
        return True
    except Exception:
        return False


def check_site(ctx, cls, kw, site, ref_site, case, full=True):
    """All single-site monitors for one configuration."""
    from vf import gen
    d = site.dim
    perm = np.asarray(site.perm)
    if sorted(perm.tolist()) != list(range(d)):
        ctx.violation('%s:perm-not-permutation' % cls, repr(perm.tolist()), case)
        return
    try:
        site.test_sanity()
    except Exception as e:
        ctx.violation('%s:test_sanity-raises' % cls, repr(e)[:300], case)
    tb_ops, tb_labels = textbook(cls, kw)
    mod = [int(m) for m in site.leg.chinfo.mod]
    qfl = gen.mod_valid(site.leg.qconj * gen.leg_qflat(site.leg), mod)

    def get(name):
        return site.get_op(name).to_ndarray()

    for name in sorted(site.opnames):
        ctx.count('grid.ops_checked')
        op = site.get_op(name)
        M = op.to_ndarray()
        std = np.zeros_like(M)
        std[np.ix_(perm, perm)] = M  # M[k,l] = std[perm[k], perm[l]]
        if name in tb_ops:
            if not (np.linalg.norm(std - tb_ops[name]) <= 1e-12):
                ctx.violation('%s:op-differs-from-textbook:%s' % (cls, name), 'standard-basis matrix %r expected %r' %
                              (np.round(std, 4).tolist(), np.round(tb_ops[name], 4).tolist()), case)
        if ref_site is not None and name in ref_site.opnames:
            R = ref_site.get_op(name).to_ndarray()
            rp = np.asarray(ref_site.perm)
            Rstd = np.zeros_like(R)
            Rstd[np.ix_(rp, rp)] = R
            if not (np.linalg.norm(std - Rstd) <= 1e-12):
                ctx.violation('%s:op-differs-between-conserve-options:%s' % (cls, name), '', case)
        # charge of every non-zero matrix element: q_row - q_col == op.qtotal
        if len(mod):
            qt = np.asarray(op.qtotal)
            nz = np.argwhere(np.abs(M) > 1e-13)
            for (r, c) in nz:
                if not np.array_equal(gen.mod_valid(qfl[r] - qfl[c], mod), gen.mod_valid(qt, mod)):
                    ctx.violation('%s:op-qtotal-inconsistent:%s' % (cls, name), 'element (%d,%d) changes charge by %r, qtotal %r' %
                                  (r, c, gen.mod_valid(qfl[r] - qfl[c], mod).tolist(), qt.tolist()), case)
                    break
        # hc pairs
        hc = site.hc_ops.get(name)
        if hc is not None:
            if hc not in site.opnames or not (np.linalg.norm(get(hc) - M.conj().T) <= 1e-12):
                ctx.violation('%s:hc_ops-not-adjoint:%s' % (cls, name), 'declared hc %r' % hc, case)
            if site.get_hc_op_name(name) != hc:
                ctx.violation('%s:get_hc_op_name:%s' % (cls, name), '', case)
        # JW flags: anticommutes with JW <=> need_JW (bookkeeping operators JW* excluded)
        if 'JW' in site.opnames and not name.startswith('JW') and not (np.linalg.norm(M) <= 0):
            JW = get('JW')
            anti = np.linalg.norm(JW @ M + M @ JW) < 1e-12
            commu = np.linalg.norm(JW @ M - M @ JW) < 1e-12
            if anti != bool(site.op_needs_JW(name)) and (anti or commu):
                ctx.violation('%s:need_JW-flag-wrong:%s' % (cls, name), 'anticommutes with JW: %r, flag %r' % (anti, site.op_needs_JW(name)), case)
    if full:
        algebra(cls, kw, get, ctx, case)
    # state labels
    for lab, k in tb_labels.items():
        if lab in site.state_labels:
            idx = site.state_labels[lab]
            if perm[idx] != k:
                ctx.violation('%s:state_label-wrong:%s' % (cls, lab), 'label %r -> leg index %d = standard state %d, expected %d' %
                              (lab, idx, perm[idx], k), case)
        else:
            ctx.violation('%s:state_label-missing:%s' % (cls, lab), '', case)
    # products of operator names
    names = [n for n in sorted(site.opnames)]
    rng = ctx.rng
    for _ in range(3):
        a, b = names[int(rng.integers(len(names)))], names[int(rng.integers(len(names)))]
        try:
            P = site.get_op(a + ' ' + b).to_ndarray()
        except Exception as e:
            if len(mod):
                continue
            ctx.violation('%s:get_op-product-raises' % cls, '%r: %r' % (a + ' ' + b, e), case)
            continue
        if not (np.linalg.norm(P - get(a) @ get(b)) <= 1e-12):
            ctx.violation('%s:get_op-product-wrong' % cls, '%r' % (a + ' ' + b), case)
        combined = site.multiply_op_names([a, b])
        if not (np.linalg.norm(site.get_op(combined).to_ndarray() - get(a) @ get(b)) <= 1e-12):
            ctx.violation('%s:multiply_op_names-wrong' % cls, '%r -> %r' % ([a, b], combined), case)
        need = site.op_needs_JW(a) != site.op_needs_JW(b)
        if site.op_needs_JW(combined) != need and not (a.startswith('JW') or b.startswith('JW')):
            ctx.violation('%s:op_needs_JW-of-product' % cls, '%r' % combined, case)


def make(cls, kw):
    from tenpy.networks import site as S
    return getattr(S, cls)(**kw)


def none_kwargs(cls, kw):
    k = dict(kw)
    for key in ('conserve', 'cons_N', 'cons_Sz'):
        if key in k:
            k[key] = None
    return k


def case_grid(ctx, i):
    cls, kw = grid()[i]
    case = {'part': 'grid', 'class': cls, 'kwargs': kw}
    try:
        site = make(cls, kw)
        ref = make(cls, none_kwargs(cls, kw))
    except Exception as e:
        ctx.violation('%s:construct-raises-%s' % (cls, type(e).__name__), traceback.format_exc()[-500:], case)
        return
    ctx.count('grid.configs')
    check_site(ctx, cls, kw, site, ref, case)
    # histories: rename / remove / add / sort_charge / change_charge keep everything consistent
    rng = ctx.rng
    try:
        names = sorted(n for n in site.opnames if n not in ('Id', 'JW'))
        a = names[int(rng.integers(len(names)))]
        M = site.get_op(a).to_ndarray().copy()
        hc = site.hc_ops.get(a)
        site.rename_op(a, 'Renamed')
        if 'Renamed' not in site.opnames or a in site.opnames or not (np.linalg.norm(site.get_op('Renamed').to_ndarray() - M) <= 0):
            ctx.violation('%s:rename_op-broken' % cls, a, case)
        if hc is not None and hc != a and site.hc_ops.get(hc) != 'Renamed':
            ctx.violation('%s:rename_op-hc-bookkeeping' % cls, 'hc of %r is %r' % (hc, site.hc_ops.get(hc)), case)
        site.rename_op('Renamed', a)
        b = names[int(rng.integers(len(names)))]
        if b != a:
            site.remove_op(b)
            if b in site.opnames:
                ctx.violation('%s:remove_op-broken' % cls, b, case)
        # add an operator given in the standard basis: must be permuted like the others
        std = rng.standard_normal((site.dim, site.dim)) * (np.abs(np.asarray(ref.get_op(a).to_ndarray())[np.ix_(np.argsort(ref.perm), np.argsort(ref.perm))]) > 0)
        if np.any(std):
            site.add_op('Extra', std, need_JW=False, hc=False)
            p = np.asarray(site.perm)
            got = site.get_op('Extra').to_ndarray()
            if not (np.linalg.norm(got - std[np.ix_(p, p)]) <= 1e-13):
                ctx.violation('%s:add_op-not-permuted' % cls, '', case)
            site.remove_op('Extra')
        before = {n: standard(site, n) for n in site.opnames}
        site.sort_charge()
        after = {n: standard(site, n) for n in site.opnames}
        if any(np.linalg.norm(before[n] - after[n]) > 1e-13 for n in before):
            ctx.violation('%s:sort_charge-changes-operators' % cls, '', case)
        check_site(ctx, cls, kw, site, ref, dict(case, after='rename/remove/sort_charge'), full=False)
    except Exception as e:
        tb = traceback.format_exc()
        if '/tenpy/' in tb:
            ctx.violation('%s:history-raises-%s' % (cls, type(e).__name__), tb[-500:], case)
        else:
            raise
    conserving = any(v not in (None, ) for k, v in kw.items() if k in ('conserve', 'cons_N', 'cons_Sz'))
    ctx.sig(('grid', cls, repr(sorted(kw.items()))), nontrivial=conserving)
    if i % 25 == 0:
        ctx.sample(case)


def standard(site, name):
    M = site.get_op(name).to_ndarray()
    p = np.asarray(site.perm)
    out = np.zeros_like(M)
    out[np.ix_(p, p)] = M
    return out


# ------------------------------------------------------------------------------------------------
def case_grouped(ctx, i):
    from tenpy.networks import site as S
    from vf import dense
    rng = ctx.rng
    n = int(rng.integers(2, 4))
    pool = [('FermionSite', dict(conserve='N')), ('FermionSite', dict(conserve='parity')), ('SpinHalfSite', dict(conserve='Sz', sort_charge=False)),
            ('SpinHalfSite', dict(conserve='parity')), ('BosonSite', dict(Nmax=2, conserve='N')), ('SpinHalfFermionSite', dict(cons_N='N', cons_Sz='Sz')),
            ('SpinSite', dict(S=1.0, conserve='Sz')), ('FermionSite', dict(conserve=None)), ('SpinHalfSite', dict(conserve=None))]
    homog = rng.random() < 0.3
    chosen = [pool[int(rng.integers(len(pool)))] for _ in range(n)]
    if homog:
        chosen = [chosen[0]] * n
    native = False
    if not homog and rng.random() < 0.3:
        # different site types that natively carry an equal ChargeInfo (no set_common_charges needed): fermions next to bosons
        cons = str(rng.choice(['N', 'parity']))
        fam = [('FermionSite', dict(conserve=cons)), ('BosonSite', dict(Nmax=int(rng.integers(1, 3)), conserve=cons))]
        chosen = [fam[int(rng.integers(2))] for _ in range(n)]
        if len(set(c for c, _ in chosen)) == 1:
            chosen[0] = fam[1] if chosen[0][0] == 'FermionSite' else fam[0]
        native = True
    sites = [make(c, k) for c, k in chosen]
    policy = str(rng.choice(['same', 'drop', 'independent']))
    case = {'part': 'grouped', 'sites': [[c, k] for c, k in chosen], 'charges': policy}
    try:
        if homog:
            sites = [sites[0]] * n
        elif native and all(s_.leg.chinfo == sites[0].leg.chinfo for s_ in sites):
            ctx.count('grouped.native_common_chinfo')
        else:
            # heterogeneous sites need a common ChargeInfo first
            S.set_common_charges(sites, new_charges=str(rng.choice(['same', 'independent', 'drop'])))
        # dense single-site operators *after* the common charges were set (leg basis of each site)
        g = S.GroupedSite(sites, charges=policy)
        g.test_sanity()
    except Exception as e:
        ctx.violation('GroupedSite:raises-%s:%s' % (type(e).__name__, policy if not homog else policy + ':homogeneous'),
                      traceback.format_exc()[-600:], case)
        return
    ctx.count('grouped.configs')
    dims = [s.dim for s in sites]
    if g.dim != int(np.prod(dims)):
        ctx.violation('GroupedSite:dim', '%d vs %r' % (g.dim, dims), case)
        return
    # the grouped basis in terms of the ORIGINAL site bases, through the documented state labels
    # ('<label>_<sitelabel> ...' -> index of the grouped site); independent of internal re-sorting of member sites
    gs = sites
    inv_labels = []
    for s_ in sites:
        inv = {}
        for lab, k_ in s_.state_labels.items():
            inv.setdefault(k_, lab)
        if len(inv) != s_.dim:
            raise _Skip()
        inv_labels.append(inv)
    idx = np.array(list(itertools.product(*[range(d) for d in dims])))
    try:
        pm = np.array([g.state_labels[' '.join(inv_labels[k_][int(r[k_])] + '_' + g.labels[k_] for k_ in range(n))] for r in idx])
    except KeyError as e:
        ctx.violation('GroupedSite:state_labels-incomplete', repr(e), case)
        return
    if sorted(pm.tolist()) != list(range(g.dim)):
        ctx.violation('GroupedSite:state_labels-not-bijective', '', case)
        return
    for k, s in enumerate(gs):
        for name in sorted(s.opnames):
            if name == 'Id':
                continue
            gname = name + g.labels[k]
            if gname not in g.opnames:
                ctx.violation('GroupedSite:op-missing', gname, case)
                continue
            mats = []
            for j, sj in enumerate(gs):
                if j == k:
                    mats.append(sj.get_op(name).to_ndarray())
                elif j < k and s.op_needs_JW(name):
                    mats.append(sj.get_op('JW').to_ndarray())
                else:
                    mats.append(np.eye(sj.dim))
            ref = dense.kron_all(mats)
            got = g.get_op(gname).to_ndarray()
            exp = np.zeros_like(ref)
            exp[np.ix_(pm, pm)] = ref
            if not (np.linalg.norm(got - exp) <= 1e-12):
                ctx.violation('GroupedSite:op-differs-from-kron:%s' % ('fermionic' if s.op_needs_JW(name) else 'bosonic'),
                              'operator %r' % gname, case)
                return
            if bool(g.op_needs_JW(gname)) != bool(s.op_needs_JW(name)):
                ctx.violation('GroupedSite:need_JW-flag', gname, case)
    JW = dense.kron_all([s.get_op('JW').to_ndarray() for s in gs])
    exp = np.zeros_like(JW)
    exp[np.ix_(pm, pm)] = JW
    if not (np.linalg.norm(g.get_op('JW').to_ndarray() - exp) <= 1e-12):
        ctx.violation('GroupedSite:JW-not-product', '', case)
    # if the grouped site claims a rule "charge -> Jordan-Wigner sign", the rule has to reproduce its JW operator
    if getattr(g, 'charge_to_JW_parity', None) is not None:
        ctx.count('grouped.charge_to_JW_checked')
        try:
            signs = np.asarray(g.charge_to_JW_signs(g.leg.to_qflat()))
            if not np.allclose(signs, np.real(np.diag(g.get_op('JW').to_ndarray()))):
                ctx.violation('GroupedSite:charge_to_JW_signs-differs-from-JW', 'rule %r vs diag(JW) %r' %
                              (signs.tolist(), np.real(np.diag(g.get_op('JW').to_ndarray())).tolist()), case)
        except Exception as e:
            ctx.violation('GroupedSite:charge_to_JW_signs-raises-%s' % type(e).__name__, traceback.format_exc()[-400:], case)
    # kron() of local operators of the member sites: the plain tensor product (no Jordan-Wigner factors), grouped or not
    try:
        names_k = []
        for s_ in sites:
            cand = sorted(n_ for n_ in s_.opnames if n_ not in ('JW', ))
            names_k.append(cand[int(rng.integers(len(cand)))])
        ops_k = [s_.get_op(n_) for s_, n_ in zip(sites, names_k)]
        dense_k = [o.to_ndarray() for o in ops_k]
        exp_k = dense_k[0]
        for d_ in dense_k[1:]:
            exp_k = np.kron(exp_k, d_)
        ctx.count('grouped.kron')
        K = S.kron(*ops_k, group=False)
        labs = ['p%d' % j for j in range(n)] + ['p%d*' % j for j in range(n)]
        Kd = np.transpose(K.to_ndarray(), [K.get_leg_index(l_) for l_ in labs]).reshape(exp_k.shape)
        if not (np.linalg.norm(Kd - exp_k) <= 1e-12):
            ctx.violation('kron:ungrouped-differs-from-tensor-product', 'operators %r' % names_k, case)
        Kg = S.kron(*ops_k, group=True)
        if Kg.rank != 2 or tuple(Kg.get_leg_labels()) != ('(' + '.'.join('p%d' % j for j in range(n)) + ')', '(' + '.'.join('p%d*' % j for j in range(n)) + ')'):
            ctx.violation('kron:grouped-labels', '%r' % (Kg.get_leg_labels(), ), case)
        else:
            Ks = Kg.split_legs()
            Ksd = np.transpose(Ks.to_ndarray(), [Ks.get_leg_index(l_) for l_ in labs]).reshape(exp_k.shape)
            if not (np.linalg.norm(Ksd - exp_k) <= 1e-12):
                ctx.violation('kron:grouped-differs-from-tensor-product', 'operators %r' % names_k, case)
            if Kg.get_leg(0).qconj != 1 or Kg.get_leg(1).qconj != -1:
                ctx.violation('kron:grouped-leg-directions', '%r %r' % (Kg.get_leg(0).qconj, Kg.get_leg(1).qconj), case)
    except Exception as e:
        tb = traceback.format_exc()
        if '/tenpy/' not in tb:
            raise
        ctx.violation('kron:raises-%s' % type(e).__name__, tb[-500:], case)
    ctx.sig(('grouped', repr(chosen), policy), nontrivial=not homog)
    if i % 40 == 0:
        ctx.sample(case)


# ------------------------------------------------------------------------------------------------
def case_car(ctx, i):
    """Canonical anticommutation relations of many-body operators built through terms / MPOs / models."""
    from tenpy.networks import site as S
    from tenpy.networks.terms import TermList
    from tenpy.networks.mpo import MPOGraph
    from vf import dense
    rng = ctx.rng
    L = int(rng.integers(2, 6))
    kind = str(rng.choice(['fermion', 'fermion_parity', 'sf', 'mixed']))
    if kind == 'fermion':
        sites = [S.FermionSite(conserve=None)] * L
    elif kind == 'fermion_parity':
        sites = [S.FermionSite(conserve='parity')] * L
    elif kind == 'sf':
        L = min(L, 4)
        sites = [S.SpinHalfFermionSite(cons_N=None, cons_Sz=None)] * L
    else:
        f, sp = S.FermionSite(conserve=None), S.SpinHalfSite(conserve=None)
        sites = [f if k % 2 == 0 else sp for k in range(L)]
    ferm = [k for k in range(L) if dense.is_fermionic(sites[k])]
    crea = {'FermionSite': ('Cd', 'C'), 'SpinHalfFermionSite': ('Cdu', 'Cu')}
    D = int(np.prod([s.dim for s in sites]))
    mode = str(rng.choice(['pairs', 'pairs', 'multi', 'model', 'correlations']))
    case = {'part': 'car', 'kind': kind, 'L': L, 'mode': mode}
    if mode == 'correlations':
        # correlation functions of fermionic operators in a random state vs the dense Jordan-Wigner operators (the measurement
        # functions and their oracles are those of the C08 check, driven here on fermionic chains only)
        import checks.C08 as C8
        fkind = str(rng.choice(['fermion_N', 'fermion_parity', 'fermion']))
        try:
            psi, vec, sites_, k_, qt = C8.make_state(ctx, rng, L=int(rng.integers(4, 7)), kind=fkind)
            fn = str(rng.choice(['correlation_function', 'term_correlation_function', 'term_list_correlation_function', 'term_list_correlation_function']))
            case.update(function=fn, sites=k_, qtotal=np.asarray(qt).tolist())
            ctx.count('car.correlations')
            ctx.count('car.correlations.' + fn)
            getattr(C8, 'do_' + fn)(ctx, rng, psi, vec, sites_, k_, qt, case)
        except C8._Skip:
            raise _Skip()
        except Exception as e:
            tb = traceback.format_exc()
            if '/tenpy/' not in tb:
                raise
            ctx.violation('car.correlations:raises-%s' % type(e).__name__, tb[-600:], case)
        ctx.sig(('car', 'correlations', case.get('function'), repr(case.get('options'))[:200]), nontrivial=True)
        return

    def mpo_matrix(terms, strengths):
        tl = TermList(terms, strengths)
        g = MPOGraph.from_term_list(tl, sites, bc='finite', insert_all_id=True)
        H = g.build_MPO()
        return dense.mpo_to_matrix(H)

    try:
        if mode == 'pairs':
            a, b = ferm[int(rng.integers(len(ferm)))], ferm[int(rng.integers(len(ferm)))]
            cd_a, c_a = crea[type(sites[a]).__name__]
            cd_b, c_b = crea[type(sites[b]).__name__]
            n1, n2 = (cd_a, c_b) if rng.random() < 0.5 else (c_a, cd_b)
            if kind == 'sf' and rng.random() < 0.5:
                n1, n2 = str(rng.choice(['Cdu', 'Cu', 'Cdd', 'Cd'])), str(rng.choice(['Cdu', 'Cu', 'Cdd', 'Cd']))
            t1, t2 = [(n1, a), (n2, b)], [(n2, b), (n1, a)]
            case.update(terms=[t1, t2])
            M1, M2 = mpo_matrix([t1], [1.0]), mpo_matrix([t2], [1.0])
            R1, R2 = dense.term_matrix(sites, t1), dense.term_matrix(sites, t2)
            ctx.count('car.pairs')
            if not (np.linalg.norm(M1 - R1) <= 1e-12) or not (np.linalg.norm(M2 - R2) <= 1e-12):
                rel = 'i<j' if a < b else ('i=j' if a == b else 'i>j')
                ctx.violation('car:mpo-of-term-differs-from-JW-matrices:%s' % rel, 'terms %r' % [t1, t2], case)
                return
            # anticommutator from the MPO side
            anti = M1 + M2
            s1, s2 = sites[a], sites[b]
            o1, o2 = s1.get_op(n1).to_ndarray(), s2.get_op(n2).to_ndarray()
            if a == b:
                exp = dense.op_on_chain(sites, {a: o1 @ o2 + o2 @ o1})
            else:
                exp = np.zeros((D, D))
            if not (np.linalg.norm(anti - exp) <= 1e-12):
                ctx.violation('car:anticommutator-wrong', 'terms %r: |{A,B} - expected| = %g' % ([t1, t2], np.linalg.norm(anti - exp)), case)
        elif mode == 'multi':
            if len(ferm) < 2:
                raise _Skip()
            nops = 4
            term = []
            for k in range(nops):
                p = ferm[int(rng.integers(len(ferm)))]
                cd, c = crea[type(sites[p]).__name__]
                term.append((cd if k % 2 == 0 else c, p))
            perm = rng.permutation(nops)
            term = [term[k] for k in perm]
            case.update(term=term)
            ctx.count('car.multi')
            R = dense.term_matrix(sites, term)
            try:
                M = mpo_matrix([term], [1.0])
            except Exception as e:
                ctx.violation('car:mpo-of-multi-term-raises-%s' % type(e).__name__, traceback.format_exc()[-500:], case)
                return
            if not (np.linalg.norm(M - R) <= 1e-12):
                ctx.violation('car:mpo-of-multi-term-differs-from-JW-matrices', 'term %r: |diff| %g' % (term, np.linalg.norm(M - R)), case)
        else:
            # CouplingModel on a chain: add_coupling / add_multi_coupling with fermionic operators in arbitrary order
            from tenpy.models.lattice import Chain
            from tenpy.models.model import CouplingModel, MPOModel
            if kind in ('mixed', ):
                raise _Skip()
            site = sites[0]
            lat = Chain(L, site, bc='open', bc_MPS='finite')
            m = CouplingModel(lat)
            cd, c = crea[type(site).__name__]
            dx = int(rng.integers(1, L))
            order = rng.random() < 0.5
            op1, op2 = (cd, c) if order else (c, cd)
            sgn = int(rng.choice([1, -1]))
            strength = float(rng.standard_normal())
            plus_hc = bool(rng.random() < 0.5)
            case.update(add_coupling=[strength, op1, op2, sgn * dx, plus_hc])
            m.add_coupling(strength, 0, op1, 0, op2, sgn * dx, plus_hc=plus_hc)
            ref = np.zeros((D, D), dtype=complex)
            for x in range(L):
                y = x + sgn * dx
                if 0 <= y < L:
                    T = strength * dense.term_matrix(sites, [(op1, x), (op2, y)])
                    ref += T
                    if plus_hc:
                        ref += T.conj().T
            if L >= 3 and rng.random() < 0.6:
                # multi coupling: Cd_x C_{x+1} Cd_{x+2} C_{x} style with shuffled order
                ops = [(cd, [0], 0), (c, [1], 0), (cd, [2], 0), (c, [1], 0)]
                ops = [ops[k] for k in rng.permutation(4)]
                s2 = float(rng.standard_normal())
                case.update(add_multi_coupling=[s2, [[o, d_, u] for o, d_, u in ops]])
                m.add_multi_coupling(s2, ops)
                for x in range(L - 2):
                    ref += s2 * dense.term_matrix(sites, [(o, x + d_[0]) for o, d_, u in ops])
            ctx.count('car.coupling_model')
            H = m.calc_H_MPO()
            M = dense.mpo_to_matrix(H)
            if not (np.linalg.norm(M - ref) <= 1e-11):
                ctx.violation('car:coupling-model-mpo-differs-from-JW-matrices:%s' % ('multi' if 'add_multi_coupling' in case else 'two-site'),
                              '|H_MPO - reference| = %g' % np.linalg.norm(M - ref), case)
    except _Skip:
        raise
    except Exception as e:
        tb = traceback.format_exc()
        if '/tenpy/' in tb:
            ctx.violation('car.%s:raises-%s' % (mode, type(e).__name__), tb[-600:], case)
        else:
            raise
    ctx.sig(('car', kind, L, mode, repr(case.get('terms') or case.get('term') or case.get('add_coupling'))), nontrivial=True)
    if i % 30 == 0:
        ctx.sample(case)
