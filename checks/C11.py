"""C11 — MPO algebra equals operator algebra (harness MPO->matrix contraction vs MPO operations)."""
import traceback
import warnings

import numpy as np

from vf.runner import shard

PROP = 'C11'
LEVEL = 'exploration'
RULE = ('random finite MPOs from random term lists via MPOGraph (incl. long-range and fermionic terms, complex strengths) and from '
        'random W grids (from_grids, with and without IdL/IdR markers) on 2-6 sites; every operation (expectation_value, variance, '
        '+, dagger, is_hermitian, is_equal incl. single-long-range-term perturbations as true negatives, overlap, distance, '
        'to_TermList round trip, prefactor, plus_identity, sort_legcharges, apply with each compression method, make_U_I / '
        'make_U_II error scaling) is compared with the dense operator from the harness contraction; infinite MPOs: '
        'expectation_value / expectation_value_TM / power vs dense window sums on product states. non-trivial = MPO with '
        'bond dimension >= 3; distinct = (construction, sites, operation, options)'
        ' Also: virtual indices of every bond relabelled by random permutations (markers anywhere), MPOs built as sums of two MPOs, overlap / distance of infinite MPOs on explicit and default windows.'
        ' Round 5: variance of non-Hermitian MPOs; is_hermitian / is_equal with explicit max_range on infinite MPOs of unknown range; markers IdL/IdR of copy and original after sort_legcharges.')
ASSUMPTIONS = ['C07/C10/C12 (dense states, MPO contraction, site operators)', 'propagator order judged by log-log slope with margin 0.5 above a 1e-12 floor']
ANCHORS = {'tenpy/networks/mpo.py': ['*'], 'tenpy/algorithms/mps_common.py': ['VariationalApplyMPO', 'VariationalCompression']}
REQUIRED_COUNTERS = {'op.expectation_value': 20, 'op.variance': 10, 'op.add': 15, 'op.dagger': 15, 'op.is_equal': 15, 'op.overlap': 10,
                     'op.to_TermList': 8, 'op.plus_identity': 8, 'op.apply': 20, 'op.make_U': 8, 'op.infinite': 8, 'op.sort_legcharges': 5}
OPS = ['expectation_value', 'variance', 'add', 'dagger', 'is_equal', 'overlap', 'to_TermList', 'plus_identity', 'apply', 'apply',
       'make_U', 'infinite', 'sort_legcharges', 'from_grids']


def plan(tier, seed, jobs):
    q = tier == 'quick'
    return shard('compiled', 1600 if q else 30000, 16, timeout=3000, time_budget=150 if q else 1500)


def worker_init(ctx):
    warnings.simplefilter('ignore')
    import logging
    logging.disable(logging.CRITICAL)
    _SHUFFLE['p'] = 0.3


def worker_finish(ctx):
    ctx.count('mpo.shuffled_virtual_indices', _SHUFFLE['n'])
    ctx.count('mpo.built_as_sum', _SHUFFLE.get('sums', 0))


class _Skip(Exception):
    pass


def run_case(ctx, i):
    rng = ctx.rng
    op = OPS[int(rng.integers(len(OPS)))]
    try:
        globals()['do_' + op](ctx, rng, i)
    except _Skip:
        ctx.count('skipped')
    except Exception as e:
        tb = traceback.format_exc()
        if '/tenpy/' not in tb:
            raise
        ctx.violation('%s:raises-%s' % (op, type(e).__name__), tb[-700:], {'op': op})


# ------------------------------------------------------------------------------------------------
def rand_terms(rng, sites, nterms=None, hermitian=False, max_ops=3):
    """Random charge-neutral, fermion-parity-even term list; returns (terms, strengths)."""
    import checks.C08 as C8
    chinfo = sites[0].leg.chinfo
    if nterms is None:
        nterms = int(rng.integers(1, 6))
    terms, strengths = [], []
    tries = 0
    while len(terms) < nterms and tries < 60:
        tries += 1
        t = C8.rand_term(rng, sites, nops=int(rng.integers(1, max_ops + 1)))
        if len(set(k for _, k in t)) < len(t):
            continue
        if np.any(chinfo.make_valid(sum(sites[k].get_op(n).qtotal for n, k in t))):
            continue
        terms.append(t)
        s = complex(np.round(rng.standard_normal(), 3), np.round(rng.standard_normal(), 3) if rng.random() < 0.4 else 0)
        strengths.append(s if s != 0 else 1.0)
    if not terms:
        raise _Skip()
    if hermitian:
        hc_t, hc_s = [], []
        for t, s in zip(terms, strengths):
            hc_t.append([(sites[k].get_hc_op_name(n), k) for n, k in reversed(t)])
            hc_s.append(np.conj(s))
        terms, strengths = terms + hc_t, strengths + hc_s
    return terms, strengths


def make_mpo(rng, L=None, kind=None, hermitian=False, nterms=None, all_id=None):
    from tenpy.networks.terms import TermList
    from tenpy.networks.mpo import MPOGraph
    from vf import dense
    if L is None:
        L = int(rng.integers(2, 7))
    sites, kind = dense.make_sites(rng, L, kind)
    while np.prod([s.dim for s in sites]) > 800:
        L -= 1
        sites = sites[:L]
    if L < 2:
        raise _Skip()
    terms, strengths = rand_terms(rng, sites, nterms, hermitian)
    tl = TermList(terms, strengths)
    g = MPOGraph.from_term_list(tl, sites, bc='finite', insert_all_id=bool(rng.random() < 0.7) if all_id is None else all_id)
    H = g.build_MPO()
    if _SHUFFLE['p'] and len(terms) >= 2 and rng.random() < 0.2:
        # the same operator as a sum of two MPOs (`__add__` stores its right marker as -1 and has block-diagonal bonds)
        cut = int(rng.integers(1, len(terms)))
        parts = []
        for tt, ss in ((terms[:cut], strengths[:cut]), (terms[cut:], strengths[cut:])):
            parts.append(MPOGraph.from_term_list(TermList(tt, ss), sites, bc='finite', insert_all_id=True).build_MPO())
        H = parts[0] + parts[1]
        _SHUFFLE['sums'] = _SHUFFLE.get('sums', 0) + 1
    if _SHUFFLE['p'] and rng.random() < _SHUFFLE['p']:
        # same operator, virtual indices (and the IdL / IdR markers) at arbitrary positions of every bond
        H = shuffle_virtual(H, rng)
        _SHUFFLE['n'] += 1
    ref = sum(s * dense.term_matrix(sites, t) for s, t in zip(strengths, terms))
    return H, ref, sites, kind, terms, strengths


_SHUFFLE = {'p': 0.0, 'n': 0}  # switched on by this check's own workers only (other checks borrow make_mpo as a generator)


def rand_state(rng, sites):
    from tenpy.networks.mps import MPS
    from vf import dense
    vec, qt = dense.rand_sector_vector(rng, sites)
    vec = vec / np.linalg.norm(vec)
    psi = MPS.from_full(sites, dense.npc_state(sites, vec, qt))
    return psi, vec, qt


def case_of(kind, L, terms, strengths, **extra):
    c = {'sites': kind, 'L': L, 'terms': terms, 'strengths': [str(s) for s in strengths]}
    c.update(extra)
    return c


def markers_off(H):
    """IdL[b] / IdR[b] are documented as the indices of 'only identities to the left / right': the entry of W_i between two
    consecutive markers is the identity operator.  Returns a description of the first entry that is not, or ''."""
    for name, marks in (('IdL', H.IdL), ('IdR', H.IdR)):
        for i_ in range(H.L):
            a, b = marks[i_], marks[i_ + 1]
            if a is None or b is None:
                continue
            W = H.get_W(i_).to_ndarray()
            W = np.transpose(W, [H.get_W(i_).get_leg_index(l) for l in ('wL', 'wR', 'p', 'p*')])
            blk = W[a, b]
            if not (np.linalg.norm(blk - np.eye(blk.shape[0])) <= 1e-12):
                return '%s: W_%d[%r, %r] is not the identity (markers %r)' % (name, i_, a, b, list(marks))
    return ''


def check_mpo(ctx, name, H, ref, case, tol=1e-10):
    from vf import dense
    try:
        H.test_sanity()
        M = dense.mpo_to_matrix(H)
    except Exception as e:
        ctx.violation(name + ':unusable-mpo', repr(e)[:300], case)
        return None
    if M.shape != ref.shape or not (np.linalg.norm(M - ref) <= tol * max(1.0, np.linalg.norm(ref))):
        ctx.violation(name + ':operator-differs', '|MPO - dense| = %g (|dense| = %g)' % (np.linalg.norm(M - ref) if M.shape == ref.shape else -1, np.linalg.norm(ref)), case)
        return None
    return M


def finish(ctx, i, op, H, kind, L, case):
    ctx.sig((op, kind, L, repr(case.get('terms'))[:200], repr(case.get('options'))), nontrivial=max(H.chi) >= 3)
    if i % 100 == 0:
        ctx.sample(case)


def do_expectation_value(ctx, rng, i):
    H, ref, sites, kind, terms, strengths = make_mpo(rng)
    psi, vec, qt = rand_state(rng, sites)
    case = case_of(kind, len(sites), terms, strengths)
    ctx.count('op.expectation_value')
    if check_mpo(ctx, 'MPOGraph.build_MPO', H, ref, case) is None:
        return
    psi.norm = float(rng.uniform(0.5, 2))
    got = H.expectation_value(psi)
    exp = np.vdot(vec.reshape(-1), ref @ vec.reshape(-1))
    if not (abs(got - exp) <= 1e-9 * max(1, abs(exp))):
        ctx.violation('expectation_value:wrong', 'got %r expected %r (normalised state)' % (got, exp), case)
    finish(ctx, i, 'expectation_value', H, kind, len(sites), case)


def do_variance(ctx, rng, i):
    herm = bool(rng.random() < 0.5)  # (non-Hermitian MPOs: <O^2> - <O>^2 with a complex <O>)
    H, ref, sites, kind, terms, strengths = make_mpo(rng, hermitian=herm)
    psi, vec, qt = rand_state(rng, sites)
    case = case_of(kind, len(sites), terms, strengths)
    ctx.count('op.variance')
    ctx.count('op.variance.hermitian' if herm else 'op.variance.general')
    v = vec.reshape(-1)
    got = H.variance(psi)
    e = np.vdot(v, ref @ v)
    exp = np.vdot(v, ref @ (ref @ v)) - e**2
    if not (abs(got - exp) <= 1e-8 * max(1, abs(exp), abs(e)**2)):
        ctx.violation('variance:wrong', 'got %r expected %r' % (got, exp), case)
    finish(ctx, i, 'variance', H, kind, len(sites), case)


def do_add(ctx, rng, i):
    from tenpy.networks.terms import TermList
    from tenpy.networks.mpo import MPOGraph
    from vf import dense
    H, ref, sites, kind, terms, strengths = make_mpo(rng)
    t2, s2 = rand_terms(rng, sites)
    H2 = MPOGraph.from_term_list(TermList(t2, s2), sites, bc='finite', insert_all_id=bool(rng.random() < 0.5)).build_MPO()
    ref2 = sum(s * dense.term_matrix(sites, t) for s, t in zip(s2, t2))
    case = case_of(kind, len(sites), terms, strengths, other_terms=t2, other_strengths=[str(s) for s in s2])
    ctx.count('op.add')
    Hs = H + H2
    check_mpo(ctx, '__add__', Hs, ref + ref2, case)
    # operands untouched
    check_mpo(ctx, '__add__:operand-changed', H, ref, case)
    check_mpo(ctx, '__add__:operand-changed', H2, ref2, case)
    finish(ctx, i, 'add', Hs, kind, len(sites), case)


def do_dagger(ctx, rng, i):
    herm = bool(rng.random() < 0.5)
    H, ref, sites, kind, terms, strengths = make_mpo(rng, hermitian=herm)
    case = case_of(kind, len(sites), terms, strengths, hermitian_by_construction=herm)
    ctx.count('op.dagger')
    Hd = H.dagger()
    check_mpo(ctx, 'dagger', Hd, ref.conj().T, case)
    check_mpo(ctx, 'dagger:operand-changed', H, ref, case)
    is_h = np.linalg.norm(ref - ref.conj().T) < 1e-9 * max(1, np.linalg.norm(ref))
    margin_ok = is_h or np.linalg.norm(ref - ref.conj().T) > 1e-6 * max(1, np.linalg.norm(ref))
    got = bool(H.is_hermitian())
    if margin_ok and got != is_h:
        ctx.violation('is_hermitian:%s' % ('false-negative' if is_h else 'false-positive'), 'is_hermitian() = %r, |H - H^d| = %g' %
                      (got, np.linalg.norm(ref - ref.conj().T)), case)
    finish(ctx, i, 'dagger', H, kind, len(sites), case)


def do_is_equal(ctx, rng, i):
    from tenpy.networks.terms import TermList
    from tenpy.networks.mpo import MPOGraph
    from vf import dense
    H, ref, sites, kind, terms, strengths = make_mpo(rng)
    L = len(sites)
    mode = str(rng.choice(['same-different-construction', 'perturbed-strength', 'extra-long-range-term', 'reordered']))
    case = case_of(kind, L, terms, strengths, mode=mode)
    ctx.count('op.is_equal')
    if mode == 'same-different-construction':
        perm = rng.permutation(len(terms))
        H2 = MPOGraph.from_term_list(TermList([terms[k] for k in perm], [strengths[k] for k in perm]), sites, bc='finite',
                                     insert_all_id=bool(rng.random() < 0.5)).build_MPO()
        expect = True
    elif mode == 'reordered':
        H2 = H.copy()
        H2.sort_legcharges()
        expect = True
    elif mode == 'perturbed-strength':
        k = int(rng.integers(len(terms)))
        s2 = list(strengths)
        s2[k] = s2[k] * (1 + 0.01)
        H2 = MPOGraph.from_term_list(TermList(terms, s2), sites, bc='finite').build_MPO()
        r2 = sum(s * dense.term_matrix(sites, t) for s, t in zip(s2, terms))
        # documented criterion: |A-B|^2 < eps (|A|^2 + |B|^2) with eps = 1e-10 (Frobenius norms); near the threshold: not judged
        rel = np.linalg.norm(r2 - ref)**2 / max(np.linalg.norm(r2)**2 + np.linalg.norm(ref)**2, 1e-300)
        if 1e-12 < rel < 1e-8:
            raise _Skip()
        expect = rel <= 1e-12
    else:
        import checks.C08 as C8
        a, b = 0, L - 1
        n1, n2 = C8.opnames(sites[a], rng, 'bosonic'), C8.opnames(sites[b], rng, 'bosonic')
        extra = [(n1, a), (n2, b)]
        chinfo = sites[0].leg.chinfo
        if np.any(chinfo.make_valid(sum(sites[k].get_op(n).qtotal for n, k in extra))):
            raise _Skip()
        t2, s2 = terms + [extra], list(strengths) + [0.05]
        H2 = MPOGraph.from_term_list(TermList(t2, s2), sites, bc='finite').build_MPO()
        r2 = sum(s * dense.term_matrix(sites, t) for s, t in zip(s2, t2))
        rel = np.linalg.norm(r2 - ref)**2 / max(np.linalg.norm(r2)**2 + np.linalg.norm(ref)**2, 1e-300)
        if rel < 1e-8:
            raise _Skip()
        expect = False
        case['extra_term'] = extra
    got = bool(H.is_equal(H2))
    if got != expect:
        ctx.violation('is_equal:%s:%s' % ('false-negative' if expect else 'false-positive', mode), 'is_equal() = %r' % got, case)
    if bool(H2.is_equal(H)) != got:
        ctx.violation('is_equal:not-symmetric', '', case)
    finish(ctx, i, 'is_equal', H, kind, L, case)


def do_overlap(ctx, rng, i):
    from tenpy.networks.terms import TermList
    from tenpy.networks.mpo import MPOGraph
    from vf import dense
    H, ref, sites, kind, terms, strengths = make_mpo(rng)
    t2, s2 = rand_terms(rng, sites)
    H2 = MPOGraph.from_term_list(TermList(t2, s2), sites, bc='finite').build_MPO()
    ref2 = sum(s * dense.term_matrix(sites, t) for s, t in zip(s2, t2))
    case = case_of(kind, len(sites), terms, strengths, other_terms=t2, other_strengths=[str(s) for s in s2])
    ctx.count('op.overlap')
    got = H.overlap(H2)
    exp = np.trace(ref.conj().T @ ref2)
    if not (abs(got - exp) <= 1e-9 * max(1, abs(exp))):
        ctx.violation('overlap:wrong', 'got %r expected Tr(A^d B) = %r' % (got, exp), case)
    d = H.distance(H2)
    expd = np.linalg.norm(ref - ref2)
    if not (abs(d - expd) <= 1e-7 * max(1, expd)):
        ctx.violation('distance:wrong', 'got %r expected %r' % (d, expd), case)
    finish(ctx, i, 'overlap', H, kind, len(sites), case)


def do_to_TermList(ctx, rng, i):
    from tenpy.networks.mpo import MPOGraph
    from vf import dense
    kind = str(rng.choice(['spinhalf', 'spinhalf_Sz']))
    H, ref, sites, kind, terms, strengths = make_mpo(rng, kind=kind)
    if any(n == 'Id' for t in terms for n, _ in t):
        raise _Skip()  # explicit 'Id' factors are kept as operators in the MPO graph (prefactor() counts from IdL only)
    case = case_of(kind, len(sites), terms, strengths)
    ctx.count('op.to_TermList')
    basis = ['Id', 'Sz', 'Sp', 'Sm']
    tl = H.to_TermList(basis, cutoff=1e-13)
    R = np.zeros_like(ref)
    for s, t in zip(tl.strength, tl.terms):
        R = R + s * dense.term_matrix(sites, t, autoJW=False)
    # Id-only contributions may be dropped / represented as explicit 'Id' terms: compare including what was returned
    if not (np.linalg.norm(R - ref) <= 1e-9 * max(1, np.linalg.norm(ref))):
        ctx.violation('to_TermList:does-not-reproduce-operator', '|sum(terms) - H| = %g' % np.linalg.norm(R - ref), case)
    # `start`: the terms whose left-most index is in `start`, in any order of the start sites; together they partition the full list
    Ls = len(sites)
    if Ls >= 2:
        order = [int(x) for x in rng.permutation(Ls)]
        cut = int(rng.integers(1, Ls))
        R2 = np.zeros_like(ref)
        n_terms = 0
        for start in (order[:cut], order[cut:]):
            tl2 = H.to_TermList(basis, start=start, cutoff=1e-13)
            for s_, t_ in zip(tl2.strength, tl2.terms):
                if min(k for _, k in t_) not in start:
                    ctx.violation('to_TermList(start):term-starts-elsewhere', 'term %r for start=%r' % (t_, start), case)
                    return
                R2 = R2 + s_ * dense.term_matrix(sites, t_, autoJW=False)
                n_terms += 1
        ctx.count('to_TermList.start_partition_checked')
        if n_terms != len(tl.terms) or not (np.linalg.norm(R2 - R) <= 1e-9 * max(1, np.linalg.norm(R))):
            ctx.violation('to_TermList(start):partition-differs-from-full-list', 'start sets %r / %r give %d terms (full list %d), '
                          '|sum - full| = %g' % (order[:cut], order[cut:], n_terms, len(tl.terms), np.linalg.norm(R2 - R)), case)
    # prefactor of one of the input terms (single operator strings on contiguous sites)
    for t, s in zip(terms, strengths):
        ks = [k for _, k in t]
        if ks == list(range(ks[0], ks[0] + len(ks))) and all(n in ('Sz', 'Sp', 'Sm') for n, _ in t):
            ops = [n for n, _ in t]
            got = H.prefactor(ks[0], ops)
            O = dense.term_matrix(sites, t, autoJW=False)
            exp = np.trace(O.conj().T @ ref) / np.trace(O.conj().T @ O)
            if not (abs(got - exp) <= 1e-9 * max(1, abs(exp))):
                ctx.violation('prefactor:wrong', 'ops %r at %d: got %r expected %r' % (ops, ks[0], got, exp), case)
            break
    finish(ctx, i, 'to_TermList', H, kind, len(sites), case)


def do_plus_identity(ctx, rng, i):
    # plus_identity assumes the standard upper-triangular form with IdL / IdR present on every bond
    H, ref, sites, kind, terms, strengths = make_mpo(rng, all_id=True)
    a, b = complex(np.round(rng.standard_normal(), 2), np.round(rng.standard_normal(), 2)), complex(np.round(rng.standard_normal(), 2) or 1, 0)
    L = len(sites)
    a0 = int(rng.integers(L))
    st = list(range(a0, int(rng.integers(a0, L)) + 1)) if rng.random() < 0.5 else [0]  # contiguous (documented restriction)
    case = case_of(kind, L, terms, strengths, options={'alpha': str(a), 'beta': str(b), 'sites': st})
    ctx.count('op.plus_identity')
    H2 = H.plus_identity(a, b, sites=st)
    check_mpo(ctx, 'plus_identity', H2, a * np.eye(ref.shape[0]) + b * ref, case, tol=1e-9)
    check_mpo(ctx, 'plus_identity:operand-changed', H, ref, case)
    finish(ctx, i, 'plus_identity', H, kind, L, case)


def do_sort_legcharges(ctx, rng, i):
    H, ref, sites, kind, terms, strengths = make_mpo(rng)
    case = case_of(kind, len(sites), terms, strengths)
    ctx.count('op.sort_legcharges')
    H2 = H.copy()
    H2.sort_legcharges()
    check_mpo(ctx, 'sort_legcharges', H2, ref, case)
    check_mpo(ctx, 'copy:operand-changed', H, ref, case)
    # the markers IdL / IdR of both objects still point at the identity paths of their own tensors (the dense matrix of a finite MPO
    # only uses the markers at the two ends)
    for who, X in (('sorted-copy', H2), ('original', H)):
        bad = markers_off(X)
        if bad:
            ctx.violation('sort_legcharges:markers-of-%s-do-not-point-at-identities' % who, bad, case)
    finish(ctx, i, 'sort_legcharges', H, kind, len(sites), case)


def truncate_probe(ctx):
    """Wrap tenpy's truncate() once per worker; while probe['eps'] is a list every truncation performed appends its error."""
    if getattr(ctx, '_c11_probe', None) is None:
        from tenpy.linalg import truncation
        from vf.monitor import patch_everywhere
        state = {'eps': None}
        orig = truncation.truncate

        def truncate(S, options):
            res = orig(S, options)
            if state['eps'] is not None:
                state['eps'].append(float(res[2].eps))
            return res

        ctx.count('probe.truncate_rebinds', patch_everywhere(orig, truncate))
        ctx._c11_probe = state
    return ctx._c11_probe


def do_apply(ctx, rng, i):
    from vf import dense
    H, ref, sites, kind, terms, strengths = make_mpo(rng)
    psi, vec, qt = rand_state(rng, sites)
    L = len(sites)
    method = str(rng.choice(['SVD', 'zip_up', 'variational', 'naively']))
    chi_max = int(rng.choice([100, 100, int(rng.integers(1, 6))]))
    c0 = float(rng.uniform(0.5, 2))
    psi.norm = c0
    case = case_of(kind, L, terms, strengths, options={'method': method, 'chi_max': chi_max, 'norm': c0})
    ctx.count('op.apply')
    ctx.count('op.apply.' + method)
    target = ref @ (vec.reshape(-1) * c0)
    if np.linalg.norm(target) < 1e-8:
        raise _Skip()
    if method == 'naively':
        H.apply_naively(psi)
        psi.canonical_form(renormalize=False)
        eps = 0.0
    else:
        opts = {'compression_method': method, 'trunc_params': {'chi_max': chi_max, 'svd_min': 1e-13, 'trunc_cut': None}}
        if method == 'variational':
            if L < 3:
                raise _Skip()
            opts.update(max_sweeps=6, min_sweeps=2, tol_theta_diff=1e-14, max_trunc_err=None)
        if method == 'zip_up':
            opts.update(m_temp=int(rng.choice([1, 2, 3])), trunc_weight=1.0)
            case['options']['m_temp'] = opts['m_temp']
        probe = truncate_probe(ctx)
        probe['eps'] = []
        try:
            err = H.apply(psi, opts)
        except RuntimeError as e:
            if method == 'zip_up' and chi_max < 100 and 'no singular values' in str(e):
                # the zip-up sweep kept so few states (m_temp * chi_max) that nothing of the next tensor survived: a loud refusal
                ctx.count('apply.zip_up_overtruncated')
                raise _Skip()
            raise
        finally:
            performed, probe['eps'] = probe['eps'], None
        eps = float(getattr(err, 'eps', 0.0))
        if method in ('SVD', 'zip_up'):
            # ledger: the reported error is the sum of the errors of the truncations that were performed
            ctx.count('apply.ledger_checked')
            if not (sum(performed) <= 1e-14):
                ctx.count('apply.ledger_nonzero')
            if not (abs(eps - sum(performed)) <= 1e-10 * max(1e-6, sum(performed))):
                ctx.violation('apply.%s:reported-error-differs-from-sum-of-truncations' % method, 'reported eps %r, sum over the %d '
                              'truncations performed %r' % (eps, len(performed), sum(performed)), case)
    got = dense.finite_vector(psi).reshape(-1)
    tn = np.linalg.norm(target)
    # direction within the reported truncation error; norm tracked when nothing was truncated
    ov = abs(np.vdot(got, target)) / (np.linalg.norm(got) * tn)
    untruncated = chi_max >= 100
    if untruncated:
        if not (abs(ov - 1) <= 1e-7) or not (abs(np.linalg.norm(got) - tn) <= 1e-6 * max(1, tn)):
            ctx.violation('apply.%s:wrong-state-without-truncation' % method, 'overlap %r, |O psi| = %r, |result| = %r' % (ov, tn, np.linalg.norm(got)), case)
    else:
        # SVD compression truncates in canonical form: the reported discarded weight bounds the loss of fidelity (zip-up truncates in
        # a non-canonical gauge, where the discarded weight is only an estimate -- ratios > 1000 occur on correct code)
        if method == 'SVD' and 1 - ov**2 > max(eps, 0) * (1 + 1e-6) + 1e-9:
            ctx.violation('apply.SVD:beyond-reported-truncation-error', '1-|<a|b>|^2 = %g, reported eps %g' % (1 - ov**2, eps), case)
        if method == 'zip_up' and 1 - ov**2 > 0.5 and eps < 1e-12:
            ctx.violation('apply.zip_up:large-error-reported-as-zero', '1-|<a|b>|^2 = %g, reported eps %g' % (1 - ov**2, eps), case)
    finish(ctx, i, 'apply', H, kind, L, case)


def shuffle_virtual(H, rng):
    """The same operator with the virtual indices of every bond relabelled by a random permutation (markers moved along)."""
    from tenpy.networks.mpo import MPO
    L = H.L
    chis = [H.get_W(k).get_leg('wL').ind_len for k in range(L)] + [H.get_W(L - 1).get_leg('wR').ind_len]
    perms = [rng.permutation(c) for c in chis]
    if H.bc != 'finite':
        perms[L] = perms[0]
    Ws = []
    for k in range(L):
        W = H.get_W(k).copy(deep=True)
        W = W.permute(perms[k], 'wL').permute(perms[k + 1], 'wR')
        Ws.append(W)

    def move(marker, b):
        if marker is None:
            return None
        return int(np.argsort(perms[b])[int(marker) % chis[b]])  # new position of the old index

    IdL = [move(H.IdL[b], b) for b in range(L + 1)]
    IdR = [move(H.IdR[b], b) for b in range(L + 1)]
    H2 = MPO(H.sites, Ws, bc=H.bc, IdL=IdL, IdR=IdR, max_range=H.max_range, explicit_plus_hc=H.explicit_plus_hc)
    H2.test_sanity()
    return H2


def do_make_U(ctx, rng, i):
    """Both propagators of Zaletel et al. have an error O(dt^2) per step (slope >= 2 - 0.5); U_II is exact for on-site terms."""
    import scipy.linalg
    from tenpy.networks.terms import TermList
    from tenpy.networks.mpo import MPOGraph
    from vf import dense
    import checks.C08 as C8
    L = int(rng.integers(2, 5))
    sites, kind = dense.make_sites(rng, L, str(rng.choice(['spinhalf', 'spinhalf_Sz', 'fermion_N', 'boson_N'])))
    chinfo = sites[0].leg.chinfo
    terms, strengths = [], []
    for k in range(L - 1):  # a genuine coupling on every bond (documented domain: Hamiltonians with IdL/IdR on every bond)
        for _try in range(20):
            t = [(C8.opnames(sites[k], rng), k), (C8.opnames(sites[k + 1], rng), k + 1)]
            nf = sum(1 for n, j in t if sites[j].op_needs_JW(n))
            if nf % 2 == 0 and not np.any(chinfo.make_valid(sum(sites[j].get_op(n).qtotal for n, j in t))) and all(n != 'Id' for n, _ in t):
                break
        else:
            raise _Skip()
        s_ = float(np.round(rng.standard_normal(), 2)) or 1.0
        terms += [t, [(sites[j].get_hc_op_name(n), j) for n, j in reversed(t)]]
        strengths += [s_, s_]
    for k in range(L):
        n = C8.opnames(sites[k], rng, 'bosonic')
        if n != 'Id' and sites[k].hc_ops.get(n) == n and not np.any(chinfo.make_valid(sites[k].get_op(n).qtotal)):
            terms.append([(n, k)])
            strengths.append(float(np.round(rng.standard_normal(), 2)))
    H = MPOGraph.from_term_list(TermList(terms, strengths), sites, bc='finite', insert_all_id=True).build_MPO()
    ref = sum(s * dense.term_matrix(sites, t) for s, t in zip(strengths, terms))
    which = str(rng.choice(['I', 'II']))
    shuffled = bool(rng.random() < 0.5)
    if shuffled:
        # markers IdL / IdR at arbitrary positions of the bonds (explicit W tensors need not follow the MPOGraph layout)
        H = shuffle_virtual(H, rng)
        ctx.count('make_U.shuffled_markers')
        if not (np.linalg.norm(dense.mpo_to_matrix(H) - ref) <= 1e-10 * max(1.0, np.linalg.norm(ref))):
            raise RuntimeError('harness: relabelled MPO is not the same operator')
    case = case_of(kind, L, terms, strengths, options={'approximation': which, 'shuffled_virtual_indices': shuffled})
    ctx.count('op.make_U')
    nrm = max(np.linalg.norm(ref, 2), 1e-3)
    dts = [0.2 / nrm, 0.1 / nrm, 0.05 / nrm]
    errs = []
    for dt in dts:
        try:
            U = H.make_U(-1j * dt, which)
            U.test_sanity()
            Ud = dense.mpo_to_matrix(U)
        except Exception as e:
            tb = traceback.format_exc()
            # (the dense conversion worked for H itself: if it fails for U, the markers / legs of the returned MPO are inconsistent)
            where = 'raises' if '/tenpy/' in tb else 'returns-inconsistent-MPO'
            ctx.violation('make_U_%s:%s-%s%s' % (which, where, type(e).__name__, ':shuffled-markers' if shuffled else ''), tb[-600:], case)
            return
        errs.append(np.linalg.norm(Ud - scipy.linalg.expm(-1j * dt * ref)))
    if min(errs) > 1e-12:
        slope = np.log(errs[0] / errs[-1]) / np.log(dts[0] / dts[-1])
        if slope < 2 - 0.5:
            ctx.violation('make_U_%s:error-scaling-too-slow' % which, 'errors %r for dt %r: slope %.2f < 2' % (errs, dts, slope), case)
        if errs[0] > 0.5:
            ctx.violation('make_U_%s:error-too-large' % which, 'error %r at dt*|H| = 0.2' % errs[0], case)
    finish(ctx, i, 'make_U', H, kind, L, case)


def do_from_grids(ctx, rng, i):
    """MPO.from_grids with explicit W grids (operator names / None), with and without Id markers."""
    from tenpy.networks.mpo import MPO
    from vf import dense
    L = int(rng.integers(2, 5))
    sites, kind = dense.make_sites(rng, L, str(rng.choice(['spinhalf', 'spin1'])))
    s = sites[0]
    names = sorted(n for n in s.opnames if n not in ('Id', 'JW'))
    chi = int(rng.integers(2, 4))
    grids = []
    dl = 1
    mats = []
    for k in range(L):
        dr = 1 if k == L - 1 else chi
        g = [[None] * dr for _ in range(dl)]
        M = np.zeros((dl, dr, s.dim, s.dim), dtype=complex)
        for a in range(dl):
            for b in range(dr):
                if rng.random() < 0.7 or a == b % dl or b == a % dr:
                    # (every row and every column gets at least one entry: otherwise the leg charges are undefined)
                    n = names[int(rng.integers(len(names)))]
                    c = float(np.round(rng.standard_normal(), 2)) or 1.0
                    g[a][b] = [(n, c)]
                    M[a, b] = c * s.get_op(n).to_ndarray()
        grids.append(g)
        mats.append(M)
        dl = dr
    case = {'sites': kind, 'L': L, 'grids': grids}
    ctx.count('op.from_grids')
    H = MPO.from_grids(sites, grids, bc='finite', IdL=[0] + [None] * L, IdR=[None] * L + [0])
    ref = mats[0][0]  # (dr, p, p*)
    ref = np.transpose(ref, (1, 2, 0))
    for M in mats[1:]:
        ref = np.einsum('abw,wrpq->apbqr', ref, M)
        sh = ref.shape
        ref = ref.reshape(sh[0] * sh[1], sh[2] * sh[3], sh[4])
    ref = ref[:, :, 0]
    check_mpo(ctx, 'from_grids', H, ref, case)
    ctx.sig(('from_grids', kind, L, chi), nontrivial=chi >= 3)


def do_infinite(ctx, rng, i):
    """Infinite MPO expectation values on product states vs dense local sums."""
    from tenpy.networks.terms import TermList
    from tenpy.networks.mpo import MPOGraph
    from tenpy.networks.mps import MPS
    from vf import dense
    L = int(rng.integers(1, 4))
    sites, kind = dense.make_sites(rng, L, str(rng.choice(['spinhalf', 'spinhalf_Sz', 'fermion_N', 'boson_N'])))
    terms, strengths = [], []
    chinfo = sites[0].leg.chinfo
    import checks.C08 as C8
    for _ in range(int(rng.integers(1, 4))):
        nops = int(rng.integers(1, 3))
        t = []
        pos = sorted(int(x) for x in rng.permutation(2 * L + 1)[:nops])
        pos = [p - pos[0] + int(rng.integers(L)) for p in pos]
        for p in pos:
            t.append((C8.opnames(sites[p % L], rng, 'bosonic'), p))
        if np.any(chinfo.make_valid(sum(sites[k % L].get_op(n).qtotal for n, k in t))):
            continue
        terms.append(t)
        strengths.append(float(np.round(rng.standard_normal(), 2)) or 1.0)
    if not terms:
        raise _Skip()
    case = case_of(kind, L, terms, strengths, bc='infinite')
    ctx.count('op.infinite')
    H = MPOGraph.from_term_list(TermList(terms, strengths), sites, bc='infinite').build_MPO()
    p_state = [int(rng.integers(s.dim)) for s in sites]
    psi = MPS.from_product_state(sites, p_state, bc='infinite', permute=False)
    e_ref = 0.0
    for s_, t in zip(strengths, terms):
        val = s_
        mats = {}
        for n, p in t:  # several operators on one site multiply as matrices (in the order given)
            M = dense.op_dense(sites[p % L], n)
            mats[p] = mats[p] @ M if p in mats else M
        for p, M in mats.items():
            k = p_state[p % L]
            val = val * M[k, k]
        e_ref += val
    e_ref = e_ref / L  # density per site
    for fn in ('expectation_value', 'expectation_value_TM', 'expectation_value_power'):
        try:
            got = getattr(H, fn)(psi)
        except Exception as e:
            tb = traceback.format_exc()
            ctx.violation('infinite.%s:raises-%s' % (fn, type(e).__name__), tb[-500:], case)
            continue
        if not (abs(got - e_ref) <= 1e-8 * max(1, abs(e_ref))):
            ctx.violation('infinite.%s:wrong' % fn, 'got %r expected density %r' % (got, e_ref), case)
    # overlap / distance / is_equal of infinite MPOs on a window: the documented definition is the Frobenius inner product of the
    # windows of `num_sites` sites with IdL projected on the left and IdR on the right
    import checks.C10 as C10
    dloc = float(np.prod([float(s_.dim) for s_ in sites]))
    terms2 = [t for t in terms]
    str2 = list(strengths)
    mod_kind = int(rng.integers(0, 3))
    if mod_kind == 0:
        str2[0] = str2[0] + 0.5                      # another operator, same range
    elif mod_kind == 1:
        far = [(C8.opnames(sites[0], rng, 'bosonic'), 0), (C8.opnames(sites[(2 * L + 1) % L], rng, 'bosonic'), 2 * L + 1)]
        if not np.any(chinfo.make_valid(sum(sites[k % L].get_op(n).qtotal for n, k in far))):
            terms2 = terms2 + [far]                  # longer range than H
            str2 = str2 + [0.75]
    H2 = MPOGraph.from_term_list(TermList(terms2, str2), sites, bc='infinite').build_MPO()
    for n_w in sorted(set(int(x) for x in rng.integers(L, 3 * L + 3, size=2))):
        if dloc ** (n_w / L) > 1500:
            continue
        A, B = C10.window_matrix(H, n_w), C10.window_matrix(H2, n_w)
        ctx.count('infinite.window_overlaps')
        try:
            ov = H.overlap(H2, understood_infinite=True, num_sites=n_w)
            ds = H.distance(H2, understood_infinite=True, num_sites=n_w)
            ds2 = H2.distance(H, understood_infinite=True, num_sites=n_w)
        except Exception as e:
            tb = traceback.format_exc()
            ctx.violation('infinite.overlap/distance:raises-%s' % type(e).__name__, tb[-500:], dict(case, num_sites=n_w))
            break
        ov_ref = np.trace(A.conj().T @ B)
        ds_ref = np.linalg.norm(A - B)
        sc = max(1.0, np.linalg.norm(A) * np.linalg.norm(B))
        if not (abs(ov - ov_ref) <= 1e-9 * sc):
            ctx.violation('infinite.overlap:wrong', 'num_sites=%d: %r, windows give %r' % (n_w, ov, ov_ref), dict(case, num_sites=n_w))
        if not (abs(ds - ds_ref) <= 1e-6 * max(1.0, np.sqrt(sc))) or not (abs(ds2 - ds_ref) <= 1e-6 * max(1.0, np.sqrt(sc))):
            ctx.violation('infinite.distance:wrong', 'num_sites=%d: %r / %r, windows give %r' % (n_w, ds, ds2, ds_ref), dict(case, num_sites=n_w))
    # default window (num_sites=None): L + 2 * max_range of whichever MPO has the larger value, L standing in for an unknown range
    from tenpy.networks.mpo import MPO
    H3 = MPO(H2.sites, [H2.get_W(k_).copy() for k_ in range(L)], bc='infinite', IdL=H2.IdL, IdR=H2.IdR, max_range=None)
    mr = H.max_range if H.max_range is not None and H.max_range != np.inf else L
    n_def = max(L + 2 * mr, L + 2 * L)
    if dloc ** (n_def / L) <= 1500:
        ctx.count('infinite.default_window_overlaps')
        try:
            ov = H.overlap(H3, understood_infinite=True)
            A, B = C10.window_matrix(H, n_def), C10.window_matrix(H3, n_def)
            if not (abs(ov - np.trace(A.conj().T @ B)) <= 1e-9 * max(1.0, np.linalg.norm(A) * np.linalg.norm(B))):
                ctx.violation('infinite.overlap:default-window:wrong', 'got %r, window of %d sites gives %r' % (ov, n_def, np.trace(A.conj().T @ B)), case)
        except Exception as e:
            tb = traceback.format_exc()
            ctx.violation('infinite.overlap:default-window:raises-%s' % type(e).__name__, tb[-500:], case)
    # is_hermitian / is_equal with an explicit max_range on an MPO of unknown range: a Hermitian operator plus one term that is longer
    # than the default window of 3 L sites.  Documented: is_hermitian(eps, m) == is_equal(dagger(), eps, m), and is_equal compares the
    # windows of L + 2 m sites through overlap(num_sites=L + 2 m) (itself judged against dense windows above)
    try:
        r_far = 3 * L + 1
        far = [(C8.opnames(sites[0], rng, 'bosonic'), 0), (C8.opnames(sites[r_far % L], rng, 'bosonic'), r_far)]
        if not np.any(chinfo.make_valid(sum(sites[k % L].get_op(n).qtotal for n, k in far))):
            hc_terms = [[(sites[p_ % L].get_hc_op_name(n_), p_) for n_, p_ in t] for t in terms]
            Hh = MPOGraph.from_term_list(TermList(terms + hc_terms + [far], list(strengths) + list(strengths) + [0.75]), sites,
                                         bc='infinite').build_MPO()
            Hh = MPO(Hh.sites, [Hh.get_W(k_).copy() for k_ in range(L)], bc='infinite', IdL=Hh.IdL, IdR=Hh.IdR, max_range=None)
            Hd = Hh.dagger()
            ctx.count('infinite.is_hermitian_with_max_range')
            res = {}
            for m in (None, r_far):
                got_h = bool(Hh.is_hermitian(1e-10, m))
                got_e = bool(Hh.is_equal(Hd, 1e-10, m))
                n_s = L + 2 * (m if m is not None else L)
                ov = Hh.overlap(Hd, understood_infinite=True, num_sites=n_s)
                sn = Hh.overlap(Hh, understood_infinite=True, num_sites=n_s)
                on = Hd.overlap(Hd, understood_infinite=True, num_sites=n_s)
                dist, scale_ = abs(sn - 2 * np.real(ov) + on), abs(sn + on)
                res[m] = got_h
                if got_h != got_e:
                    ctx.violation('infinite.is_hermitian:differs-from-is_equal(dagger)', 'max_range=%r: is_hermitian %r, is_equal(dagger) %r' %
                                  (m, got_h, got_e), dict(case, far=far))
                if (dist <= 1e-12 * scale_ or dist >= 1e-8 * scale_) and got_e != bool(dist <= 1e-10 * scale_):
                    ctx.violation('infinite.is_equal:differs-from-window-overlaps', 'max_range=%r: is_equal %r, windows of %d sites: '
                                  'distance^2 %g of %g' % (m, got_e, n_s, dist, scale_), dict(case, far=far))
            if res[None] != res[r_far]:
                ctx.count('infinite.is_hermitian.window_decides')
    except Exception as e:
        tb = traceback.format_exc()
        if '/tenpy/' not in tb:
            raise
        ctx.violation('infinite.is_hermitian:raises-%s' % type(e).__name__, tb[-500:], case)
    ctx.sig(('infinite', kind, L, repr(terms)), nontrivial=True)
