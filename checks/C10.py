"""C10 — all representations of a model Hamiltonian are the same operator (reference matrix from recorded add_* calls)."""
import itertools
import traceback
import warnings

import numpy as np

from vf.runner import shard

PROP = 'C10'
LEVEL = 'exploration'
RULE = ('random CouplingModels assembled from recorded add_onsite / add_coupling / add_multi_coupling / '
        'add_exponentially_decaying_coupling / add_local_term calls (random real/complex/site-dependent strengths, plus_hc, '
        'explicit_plus_hc) on chains, ladders and small 2D lattices with open/periodic boundaries, spin/boson/fermion/mixed sites; '
        'the harness builds the reference matrix from the recorded calls with its own lattice enumerator and explicit JW matrices; '
        'compared: calc_H_MPO, calc_H_bond (+from_MPO/from_bond conversions), term lists, MPOGraph.from_term_list, '
        'get_numpy_Hamiltonian / get_scipy_sparse_Hamiltonian, ExactDiag builders, group_sites, sort_legcharges, '
        'extract_segment, infinite models on windows; Hermiticity iff the recorded terms are Hermitian; predefined models: '
        'pairwise agreement of their representations over sampled parameters. non-trivial = model with >=2 kinds of terms or '
        '2D lattice; distinct = (lattice, sites, call signature)'
        ' Also: exporters of MPOModel / NearestNeighborModel (from MPO and from bonds, with and without undo_sort_charge), NearestNeighborModel.from_MPOModel, bond_energies (finite and infinite), bond operators of infinite models from the terms and from the MPO, model-level extract_segment / enlarge_mps_unit_cell, gapped fermionic multi-site couplings, twin multi-couplings over several unit cells.')
ASSUMPTIONS = ['C19 (lattice enumeration) and C12 (site operators, JW matrices)', 'dimension <= 1100 (dense matrices of every representation are held at once)']
ANCHORS = {'tenpy/models/model.py': ['*'], 'tenpy/networks/terms.py': ['*'], 'tenpy/networks/mpo.py': ['*'], 'tenpy/algorithms/exact_diag.py': ['*']}
REQUIRED_COUNTERS = {'models': 40, 'rep.H_MPO': 40, 'rep.H_bond': 10, 'rep.termlist': 30, 'rep.numpy': 20, 'rep.exactdiag': 10,
                     'call.add_coupling': 30, 'call.add_multi_coupling': 10, 'call.add_exponentially_decaying_coupling': 8,
                     'call.add_onsite': 20, 'call.add_local_term': 8, 'infinite.models': 5, 'predefined.models': 10,
                     'flag.group_sites': 5, 'flag.explicit_plus_hc': 5}


def plan(tier, seed, jobs):
    q = tier == 'quick'
    return (shard('compiled', 360 if q else 3000, 12, part='random', timeout=3000, time_budget=150 if q else 1500) +
            shard('compiled', 240 if q else 3000, 4, part='infinite', timeout=3000, time_budget=150 if q else 1500) +
            shard('compiled', 40 if q else 600, 2, part='predefined', timeout=3000, time_budget=150 if q else 1500))


def worker_init(ctx):
    warnings.simplefilter('ignore')
    import logging
    logging.disable(logging.CRITICAL)


class _Skip(Exception):
    pass


def run_case(ctx, i):
    try:
        globals()['case_' + ctx.unit['part']](ctx, i)
    except _Skip:
        ctx.count('skipped')


# ------------------------------------------------------------------------------------------------
def make_lattice(rng, bc_MPS='finite', max_dim=1100):
    from tenpy.models import lattice as L
    from tenpy.networks import site as S
    kind = str(rng.choice(['spinhalf', 'spinhalf_Sz', 'fermion', 'fermion_N', 'boson', 'mixed', 'sf']))
    if kind == 'spinhalf':
        uc = [S.SpinHalfSite(conserve=None)]
    elif kind == 'spinhalf_Sz':
        uc = [S.SpinHalfSite(conserve='Sz')]
    elif kind == 'fermion':
        uc = [S.FermionSite(conserve=None)]
    elif kind == 'fermion_N':
        uc = [S.FermionSite(conserve='N')]
    elif kind == 'boson':
        uc = [S.BosonSite(Nmax=2, conserve='N')]
    elif kind == 'sf':
        uc = [S.SpinHalfFermionSite(cons_N='N', cons_Sz='Sz')]
    else:
        f, sp = S.FermionSite(conserve='N'), S.SpinHalfSite(conserve='Sz')
        S.set_common_charges([f, sp], 'independent')
        uc = [f, sp]
    geo = str(rng.choice(['chain', 'chain', 'ladder', 'square', 'generic']))
    d = int(np.prod([s.dim for s in uc]))
    maxsites = int(np.floor(np.log(max_dim) / np.log(max(s.dim for s in uc))))
    bc0 = 'periodic' if bc_MPS == 'infinite' else str(rng.choice(['open', 'periodic']))
    if geo == 'chain' or len(uc) > 1:
        Lx = int(rng.integers(2, max(3, min(7, maxsites // len(uc)) + 1)))
        lat = L.Lattice([Lx], uc, bc=[bc0], bc_MPS=bc_MPS, order=str(rng.choice(['default', 'snake'])))
    elif geo == 'ladder':
        Lx = int(rng.integers(2, max(3, min(4, maxsites // 2) + 1)))
        lat = L.Ladder(Lx, uc[0], bc=bc0, bc_MPS=bc_MPS)
    elif geo == 'square':
        Lx, Ly = 2, 2
        if maxsites < 4:
            raise _Skip()
        if maxsites >= 6 and rng.random() < 0.5:
            Lx = 3
        lat = L.Square(Lx, Ly, uc[0], bc=[bc0, str(rng.choice(['open', 'periodic']))], bc_MPS=bc_MPS,
                       order=str(rng.choice(['default', 'snake', 'Fstyle'])))
    else:
        Lx = int(rng.integers(2, max(3, min(4, maxsites // 2) + 1)))
        lat = L.Lattice([Lx], [uc[0], uc[0]], bc=[bc0], bc_MPS=bc_MPS, positions=[[0.], [0.5]])
    if lat.N_sites > maxsites:
        raise _Skip()
    return lat, kind, geo


def op_names(site, rng, kind):
    names = sorted(n for n in site.opnames if not n.startswith('JW') and n != 'Id')
    if kind == 'bosonic':
        names = [n for n in names if not site.op_needs_JW(n)]
    elif kind == 'fermionic':
        names = [n for n in names if site.op_needs_JW(n)]
    if not names:
        return None
    return str(names[int(rng.integers(len(names)))])


def neutral(sites_ops):
    """Total charge of a list of (site, opname) must vanish for a term to be allowed in a charge-conserving model."""
    chinfo = sites_ops[0][0].leg.chinfo
    q = sum(s.get_op(n).qtotal for s, n in sites_ops)
    return not np.any(chinfo.make_valid(q))


def rand_strength(rng, shape=None, cplx=False):
    if shape is not None and rng.random() < 0.4:
        s = rng.standard_normal(shape)
        if cplx:
            s = s + 1j * rng.standard_normal(shape)
        return np.round(s, 3)
    s = float(np.round(rng.standard_normal(), 3)) or 0.5
    if cplx:
        s = complex(s, float(np.round(rng.standard_normal(), 3)))
    return s


def build_model(ctx, rng, lat, explicit_plus_hc=False, allow_exp=True, long_range=0, force_multi=False, force_gapped=False):
    """Add random terms; returns (model, calls, reference dense matrix for finite lattices or None)."""
    from tenpy.models.model import CouplingModel
    from vf import dense
    import checks.C19 as C19
    m = CouplingModel(lat, explicit_plus_hc=explicit_plus_hc)
    G = C19.Geometry(lat)
    sites = lat.mps_sites()
    uc = lat.unit_cell
    finite = lat.bc_MPS == 'finite'
    D = int(np.prod([s.dim for s in sites])) if finite else None
    ref = np.zeros((D, D), dtype=complex) if finite else None
    calls = []
    terms_out = []  # (strength, [(op, mps_i), ...]) incl. hc copies, for the infinite window check
    ncalls = int(rng.integers(1, 6))
    hermitian = True

    def herm_ok(plus_hc, strength, names_sites):
        """With explicit_plus_hc the model represents (terms + h.c.): non-Hermitian single terms are only meaningful with plus_hc."""
        if not explicit_plus_hc or plus_hc:
            return plus_hc
        manifest = np.all(np.isreal(strength)) and all(s_.hc_ops.get(n_) == n_ and not s_.op_needs_JW(n_) for s_, n_ in names_sites)
        return False if manifest else True

    def add_term(strength, term, plus_hc):
        nonlocal ref
        terms_out.append((strength, list(term), plus_hc))
        if finite:
            T = strength * dense.term_matrix(sites, term)
            ref = ref + T
            if plus_hc:
                ref = ref + T.conj().T

    for call_no in range(ncalls):
        kind = str(rng.choice(['add_onsite', 'add_coupling', 'add_coupling', 'add_multi_coupling', 'add_exp', 'add_local_term', 'add_exp_centered']))
        if (force_multi or force_gapped) and call_no == 0:
            kind = 'add_multi_coupling'
        cplx = rng.random() < 0.3
        if kind == 'add_onsite':
            u = int(rng.integers(len(uc)))
            name = op_names(uc[u], rng, 'bosonic')
            if name is None or not neutral([(uc[u], name)]):
                continue
            plus_hc = bool(rng.random() < 0.3)
            st = rand_strength(rng, tuple(lat.Ls), cplx)
            plus_hc = herm_ok(plus_hc, st, [(uc[u], name)])
            m.add_onsite(st, u, name, plus_hc=plus_hc)
            calls.append(['add_onsite', repr(st), u, name, plus_hc])
            ctx.count('call.add_onsite')
            sa = np.broadcast_to(np.asarray(st), tuple(lat.Ls))
            for x in itertools.product(*[range(n) for n in lat.Ls]):
                i = G.index.get(tuple(x) + (u, ))
                add_term(sa[x], [(name, i)], plus_hc)
            M = uc[u].get_op(name).to_ndarray()
            if not plus_hc and (np.linalg.norm(M - M.conj().T) > 1e-12 or np.iscomplexobj(sa) and np.any(sa.imag != 0)):
                hermitian = False
        elif kind == 'add_coupling':
            u1, u2 = int(rng.integers(len(uc))), int(rng.integers(len(uc)))
            ferm = rng.random() < 0.5
            n1 = op_names(uc[u1], rng, 'fermionic' if ferm else 'bosonic')
            n2 = op_names(uc[u2], rng, 'fermionic' if ferm else 'bosonic')
            if n1 is None or n2 is None:
                n1, n2 = op_names(uc[u1], rng, 'bosonic'), op_names(uc[u2], rng, 'bosonic')
            if n1 is None or n2 is None or not neutral([(uc[u1], n1), (uc[u2], n2)]):
                continue
            dx = [int(rng.integers(-min(2, n), min(2, n) + 1)) for n in lat.Ls]
            if long_range and rng.random() < 0.5:
                dx[0] = int(rng.integers(-long_range, long_range + 1))
            if all(d == 0 for d in dx) and u1 == u2:
                dx[0] = 1
            cshape, _ = lat.coupling_shape(np.array(dx))
            if any(c <= 0 for c in cshape):
                continue
            if any(i_ == j_ for i_, j_, _x in G.couplings(u1, u2, dx)):
                continue  # a periodic wrap maps the site onto itself: rejected by tenpy (legitimately)
            plus_hc = bool(rng.random() < 0.5)
            st = rand_strength(rng, tuple(cshape), cplx)
            plus_hc = herm_ok(plus_hc, st, [(uc[u1], n1), (uc[u2], n2)])
            m.add_coupling(st, u1, n1, u2, n2, np.array(dx), plus_hc=plus_hc)
            calls.append(['add_coupling', repr(st), u1, n1, u2, n2, dx, plus_hc])
            ctx.count('call.add_coupling')
            sa = np.broadcast_to(np.asarray(st), tuple(cshape))
            for (i, j, x) in G.couplings(u1, u2, dx):
                corner = tuple((xa + min(0, d)) % s for xa, d, s in zip(x, dx, cshape))
                add_term(sa[corner], [(n1, i), (n2, j)], plus_hc)
            if not plus_hc:
                hermitian = None if hermitian else hermitian  # cannot tell in general
        elif kind == 'add_multi_coupling':
            nops = int(rng.integers(2, 5 if long_range else 4))
            far = None
            if force_multi and call_no == 0:
                # three or four operators spread over several unit cells (increasing positions)
                nops = int(rng.integers(3, 5))
                far = sorted(int(x) for x in rng.choice(np.arange(1, long_range + 1), size=nops - 1, replace=False))
            ops = []
            for k in range(nops):
                u = int(rng.integers(len(uc)))
                dx = [0] * lat.dim if k == 0 else [int(rng.integers(-1, 2)) for _ in lat.Ls]
                if long_range and k > 0 and rng.random() < 0.6:
                    dx[0] = int(rng.integers(-long_range, long_range + 1))
                if far is not None and k > 0:
                    dx = [far[k - 1]] + [0] * (lat.dim - 1)
                name = op_names(uc[u], rng, 'bosonic' if rng.random() < 0.6 else 'any')
                ops.append((name, dx, u))
            if nops >= 3 and rng.random() < 0.5 and any(op_names(uc[o[2]], rng, 'fermionic') for o in ops):
                # strings of Jordan-Wigner factors over gaps: several fermionic operators behind bosonic ones
                kinds_ = [['bosonic', 'fermionic', 'fermionic'], ['fermionic', 'bosonic', 'fermionic'], ['fermionic', 'fermionic', 'fermionic', 'fermionic'],
                          ['bosonic', 'bosonic', 'fermionic', 'fermionic'], ['fermionic', 'fermionic', 'bosonic']]
                kinds_ = [k_ for k_ in kinds_ if len(k_) == nops]
                pat = kinds_[int(rng.integers(len(kinds_)))]
                ops = [(op_names(uc[u_], rng, kd_), dx_, u_) for (n_, dx_, u_), kd_ in zip(ops, pat)]
                if rng.random() < 0.6 and far is None:
                    # increasing positions along the first direction with one site skipped somewhere
                    skip_at = int(rng.integers(1, nops))
                    pos, ops2 = 0, []
                    for k_, (n_, dx_, u_) in enumerate(ops):
                        if k_ > 0:
                            pos += 2 if k_ == skip_at else 1
                        ops2.append((n_, [pos] + [0] * (lat.dim - 1), 0 if len(uc) == 1 else u_))
                    if len(uc) == 1:
                        ops = ops2
                        ctx.count('call.multi_coupling_gapped_string')
                ctx.count('call.multi_coupling_fermionic_pattern')
            if force_gapped and call_no == 0 and len(uc) == 1 and op_names(uc[0], rng, 'fermionic'):
                # A | skipped site(s) | B with an even number (>= 2) of fermionic operators in B and in A: no Jordan-Wigner string on
                # the skipped sites although fermionic operators follow
                f_ = op_names(uc[0], rng, 'fermionic')
                fd_ = uc[0].get_hc_op_name(f_)
                b_ = op_names(uc[0], rng, 'bosonic')
                if b_ is None or not neutral([(uc[0], b_)]):
                    b_ = 'N' if 'N' in uc[0].opnames else ('Ntot' if 'Ntot' in uc[0].opnames else None)
                A_ = [b_] if (rng.random() < 0.5 and b_ is not None) else [f_, fd_]
                B_ = [f_, fd_] if rng.random() < 0.5 else [fd_, f_]
                gap_ = int(rng.integers(1, 3))
                pos_ = list(range(len(A_))) + [len(A_) - 1 + gap_ + 1 + k_ for k_ in range(len(B_))]
                ops = [(n_, [p_] + [0] * (lat.dim - 1), 0) for n_, p_ in zip(A_ + B_, pos_)]
                ctx.count('call.multi_coupling_gap_before_fermion_pair')
            if any(o[0] is None for o in ops):
                continue
            nf = sum(1 for n, dx, u in ops if uc[u].op_needs_JW(n))
            if nf % 2 == 1 or not neutral([(uc[u], n) for n, dx, u in ops]):
                continue
            # no two operators on the same site (documented requirement: combine them into one operator)
            if len(set((tuple(dx), u) for n, dx, u in ops)) < len(ops):
                continue
            cshape, _ = lat.multi_coupling_shape(np.array([o[1] for o in ops]))
            if any(c <= 0 for c in cshape):
                continue
            plus_hc = bool(rng.random() < 0.5)
            st = rand_strength(rng, None, cplx)
            plus_hc = herm_ok(plus_hc, st, [(uc[u_], n_) for n_, dx_, u_ in ops])
            try:
                m.add_multi_coupling(st, ops, plus_hc=plus_hc)
            except ValueError as e:
                if 'onsite term instead of coupling' in str(e):
                    raise _Skip()  # a periodic wrap put all operators on one site (documented: combine them into one operator)
                raise
            calls.append(['add_multi_coupling', repr(st), [[n, dx, u] for n, dx, u in ops], plus_hc])
            ctx.count('call.add_multi_coupling')
            def ref_multi(st, ops, plus_hc):
                dxs = np.array([o[1] for o in ops])
                for x in itertools.product(*[range(n) for n in lat.Ls]):
                    row, ok = [], True
                    for (name, dx, u) in ops:
                        t = G.target(x, dx)
                        if t is None:
                            ok = False
                            break
                        y, w0 = t
                        j = G.index.get(tuple(y) + (u, ))
                        if j is None:
                            ok = False
                            break
                        row.append((name, j + (w0 * G.N if G.infinite else 0)))
                    if not ok:
                        continue
                    if any(G.bc_open[a] and (x[a] + dxs[:, a].min() < 0 or x[a] + dxs[:, a].max() >= G.Ls[a]) for a in range(G.dim)):
                        continue
                    if len(set(j for _, j in row)) < len(row):
                        ok = False  # periodic wrap put two operators on the same site
                        raise _Skip()
                    add_term(st, row, plus_hc)

            ref_multi(st, ops, plus_hc)
            if far is not None and not finite and rng.random() < 0.5:
                # a twin coupling: the same operators, the last one a whole number of MPS unit cells further away (the MPO graph has to
                # keep the two apart although they agree up to the switch site and modulo the unit cell beyond it)
                shift_ = int(rng.integers(1, 3)) * int(lat.Ls[0])
                ops_t = ops[:-1] + [(ops[-1][0], [ops[-1][1][0] + shift_] + list(ops[-1][1][1:]), ops[-1][2])]
                sw_ = str(rng.choice(['middle_i', 'middle_op']))
                st_t = rand_strength(rng, None, cplx)
                try:
                    m.add_multi_coupling(st_t, ops_t, plus_hc=plus_hc, switchLR=sw_)
                except ValueError as e:
                    if 'onsite term instead of coupling' in str(e):
                        raise _Skip()
                    raise
                calls.append(['add_multi_coupling(twin)', repr(st_t), [[n, dx, u] for n, dx, u in ops_t], plus_hc, sw_])
                ctx.count('call.multi_coupling_twin')
                ref_multi(st_t, ops_t, plus_hc)
            hermitian = None if not plus_hc else hermitian
        elif kind == 'add_exp' and allow_exp:
            u = 0
            s0 = sites[0]
            if any(type(s) is not type(s0) for s in sites):
                continue
            ferm = rng.random() < 0.4
            n1, n2 = op_names(s0, rng, 'fermionic' if ferm else 'bosonic'), op_names(s0, rng, 'fermionic' if ferm else 'bosonic')
            if n1 is None or n2 is None or not neutral([(s0, n1), (s0, n2)]):
                continue
            lam = float(np.round(rng.uniform(0.2, 0.9), 3))
            plus_hc = bool(rng.random() < 0.5)
            st = rand_strength(rng, None, cplx)
            if plus_hc and rng.random() < 0.5:
                lam = complex(lam * np.exp(1j * np.round(rng.uniform(-2, 2), 2)))  # complex decay rate (conjugated in the h.c. part)
            subsites = None
            if rng.random() < 0.3 and lat.N_sites >= 3:
                subsites = sorted(int(x) for x in rng.permutation(lat.N_sites)[:int(rng.integers(2, lat.N_sites + 1))])
            plus_hc = herm_ok(plus_hc, st, [(s0, n1), (s0, n2)])
            m.add_exponentially_decaying_coupling(st, lam, n1, n2, subsites=subsites, plus_hc=plus_hc)
            calls.append(['add_exponentially_decaying_coupling', repr(st), lam, n1, n2, subsites, plus_hc])
            ctx.count('call.add_exponentially_decaying_coupling')
            if finite:
                S_ = list(range(lat.N_sites)) if subsites is None else subsites
                for a in range(len(S_)):
                    for b in range(a + 1, len(S_)):
                        add_term(st * lam**(b - a), [(n1, S_[a]), (n2, S_[b])], plus_hc)
            else:
                terms_out.append(('exp', st, lam, n1, n2, subsites, plus_hc))
            hermitian = None if not plus_hc else hermitian
        elif kind == 'add_exp_centered':
            if not finite or not allow_exp:
                continue
            s0 = sites[0]
            if any(type(s_) is not type(s0) for s_ in sites) or lat.N_sites < 3:
                continue
            n1, n2 = op_names(s0, rng, 'bosonic'), op_names(s0, rng, 'bosonic')  # (fermionic ones: NotImplementedError, documented TODO)
            if n1 is None or n2 is None or not neutral([(s0, n1), (s0, n2)]):
                continue
            lam = float(np.round(rng.uniform(0.2, 0.9), 3))
            centre = int(rng.integers(lat.N_sites))
            plus_hc = bool(rng.random() < 0.5)
            st = rand_strength(rng, None, cplx)
            plus_hc = herm_ok(plus_hc, st, [(s0, n1), (s0, n2)])
            m.add_exponentially_decaying_centered_terms(st, lam, n1, n2, centre, plus_hc=plus_hc)
            calls.append(['add_exponentially_decaying_centered_terms', repr(st), lam, n1, n2, centre, plus_hc])
            ctx.count('call.add_exponentially_decaying_centered_terms')
            for b in range(lat.N_sites):
                if b != centre:
                    add_term(st * lam**abs(b - centre), [(n1, centre), (n2, b)], plus_hc)
            hermitian = None if not plus_hc else hermitian
        elif kind == 'add_local_term':
            nops = int(rng.integers(1, 3))
            coords = []
            term, lat_term = [], []
            for k in range(nops):
                i = int(rng.integers(lat.N_sites))
                name = op_names(sites[i], rng, 'bosonic')
                if name is None:
                    break
                term.append((name, i))
                lat_term.append((name, [int(v) for v in lat.order[i]]))
            if len(term) != nops or len(set(i for _, i in term)) < nops or not neutral([(sites[i], n) for n, i in term]):
                continue
            plus_hc = bool(rng.random() < 0.5)
            st = rand_strength(rng, None, cplx)
            plus_hc = herm_ok(plus_hc, st, [(sites[i_], n_) for n_, i_ in term])
            m.add_local_term(st, lat_term, plus_hc=plus_hc)
            calls.append(['add_local_term', repr(st), lat_term, plus_hc])
            ctx.count('call.add_local_term')
            add_term(st, term, plus_hc)
            hermitian = None if not plus_hc else hermitian
    if not calls:
        raise _Skip()
    return m, calls, ref, terms_out


def dist(A, B):
    return float(np.linalg.norm(A - B))


def case_random(ctx, i):
    from tenpy.models.model import MPOModel, NearestNeighborModel
    from tenpy.networks.mpo import MPOGraph
    from tenpy.algorithms import exact_diag as ED
    from vf import dense
    rng = ctx.rng
    lat, kind, geo = make_lattice(rng)
    explicit = bool(rng.random() < 0.3)
    # (a third of the finite models get couplings reaching over several sites: gaps inside multi-site terms)
    gapped = bool(rng.random() < 0.3 and lat.dim == 1 and len(lat.unit_cell) == 1 and lat.N_sites >= 5 and op_names(lat.unit_cell[0], rng, 'fermionic'))
    m, calls, ref, _ = build_model(ctx, rng, lat, explicit_plus_hc=explicit, long_range=int(rng.integers(2, 4)) if rng.random() < 0.35 else 0,
                                   force_gapped=gapped)
    sites = lat.mps_sites()
    case = {'lattice': geo, 'Ls': list(map(int, lat.Ls)), 'bc': [bool(b) for b in lat.bc], 'order': lat.order.tolist(), 'sites': kind,
            'explicit_plus_hc': explicit, 'calls': calls}
    ctx.count('models')
    if explicit:
        ctx.count('flag.explicit_plus_hc')
    scale = max(1.0, float(np.linalg.norm(ref)))
    tol = 1e-10 * scale
    herm_ref = dense.is_hermitian(ref)

    def report(name, M):
        if M.shape != ref.shape:
            ctx.violation('%s:shape' % name, '%r vs %r' % (M.shape, ref.shape), case)
            return False
        if not (dist(M, ref) <= tol):
            herm = 'hermitian-part-only' if dist(M + M.conj().T, ref + ref.conj().T) < tol else 'differs'
            ctx.violation('%s:differs-from-recorded-terms:%s' % (name, herm), '|H - H_ref| = %g (|H_ref| = %g)' % (dist(M, ref), scale), case)
            return False
        return True

    nn_bonds = None
    try:
        # --- MPO
        H = m.calc_H_MPO()
        ctx.count('rep.H_MPO')
        Hd = dense.mpo_to_matrix(H)
        if H.explicit_plus_hc:
            Hd = Hd + Hd.conj().T
        if not report('calc_H_MPO', Hd):
            return
        if bool(H.is_hermitian()) != herm_ref and not explicit:
            ctx.violation('MPO.is_hermitian:wrong', 'is_hermitian() = %r but reference hermitian = %r' % (H.is_hermitian(), herm_ref), case)
        # --- term lists
        tl = m.all_onsite_terms().to_TermList() + m.all_coupling_terms().to_TermList() + m.exp_decaying_terms.to_TermList(cutoff=0.0)
        ctx.count('rep.termlist')
        T = np.zeros_like(ref)
        for s, t in zip(tl.strength, tl.terms):
            T = T + s * dense.termlist_term_matrix(sites, t)
        if explicit:
            T = T + T.conj().T
        if not report('to_TermList', T):
            return
        # --- MPOGraph.from_term_list of the same list
        if not explicit and not any('JW' in n_ for t_ in tl.terms for n_, _ in t_):
            g = MPOGraph.from_term_list(tl, sites, bc='finite', insert_all_id=bool(rng.random() < 0.5))
            H2 = g.build_MPO()
            if not report('MPOGraph.from_term_list', dense.mpo_to_matrix(H2)):
                return
        # --- dense exporters
        ctx.count('rep.numpy')
        perms = [np.asarray(s.perm) for s in sites]
        dims = [s.dim for s in sites]

        def to_leg_basis(M):
            # exporters with undo_sort_charge=True give the conserve=None order: map back to the leg basis
            T4 = M.reshape(dims + dims)
            T4 = T4[np.ix_(*(perms + perms))]
            return T4.reshape(ref.shape)

        # (with explicit_plus_hc the terms of the model are half of H: the exporters have to add the other half themselves)
        Hn = ED.get_numpy_Hamiltonian(m, undo_sort_charge=True)
        if not report('get_numpy_Hamiltonian(undo_sort_charge)', to_leg_basis(np.asarray(Hn))):
            return
        Hn2 = ED.get_numpy_Hamiltonian(m, undo_sort_charge=False)
        if not report('get_numpy_Hamiltonian', np.asarray(Hn2)):
            return
        Hs = ED.get_scipy_sparse_Hamiltonian(m, undo_sort_charge=False)
        if not report('get_scipy_sparse_Hamiltonian', np.asarray(Hs.todense())):
            return
        if True:
            # (also for an MPO with explicit_plus_hc: the flag travels with the MPO, a plain MPOModel has no flag of its own)
            mm = MPOModel(lat, H)
            if rng.random() < 0.3:
                ed_ = ED.ExactDiag.from_H_mpo(H)
                ed_.build_full_H_from_mpo()
                ctx.count('rep.exactdiag.from_H_mpo')
                res_ = ed_.full_H.split_legs()
                res_ = res_.itranspose(['p%d%s' % (n_, star) for star in ['', '*'] for n_ in range(lat.N_sites)]).to_ndarray()
                if not report('ExactDiag.from_H_mpo', res_.reshape(ref.shape)):
                    return
            for from_mpo in (True, ):
                He = ED.get_numpy_Hamiltonian(mm, from_mpo=from_mpo, undo_sort_charge=False)
                ctx.count('rep.exactdiag')
                if not report('ExactDiag.build_full_H_from_mpo', np.asarray(He)):
                    return
                # (default of the exporter: the basis order of conserve=None; sites can have any sorting permutation)
                He_u = ED.get_numpy_Hamiltonian(mm, from_mpo=from_mpo, undo_sort_charge=True)
                if any(not np.array_equal(np.argsort(p_), p_) for p_ in perms):
                    ctx.count('rep.exactdiag_undo_sort_non_involution')
                if not report('ExactDiag.build_full_H_from_mpo(undo_sort_charge)', to_leg_basis(np.asarray(He_u))):
                    return
        # --- bond representation (only if all terms are nearest-neighbour in the MPS)
        try:
            Hb = m.calc_H_bond()
        except (ValueError, AssertionError):
            Hb = None  # not a nearest-neighbour model
        if Hb is not None and not explicit:
            ctx.count('rep.H_bond')
            B = np.zeros_like(ref)
            L = lat.N_sites
            for j, hb in enumerate(Hb):
                if hb is None:
                    continue
                if j == 0 and lat.bc_MPS == 'finite':
                    continue
                a, b = (j - 1) % L, j % L
                hd = np.transpose(hb.to_ndarray(), [hb.get_leg_index(l) for l in ('p0', 'p1', 'p0*', 'p1*')])
                da, db = sites[a].dim, sites[b].dim
                hd = hd.reshape(da * db, da * db)
                # embed on sites a, a+1
                left = int(np.prod(dims[:a])) if a else 1
                right = int(np.prod(dims[b + 1:])) if b + 1 < L else 1
                B = B + np.kron(np.kron(np.eye(left), hd), np.eye(right))
            if not report('calc_H_bond', B):
                return
            nn = NearestNeighborModel(lat, Hb)
            nn_bonds = list(Hb)
            H3 = nn.calc_H_MPO_from_bond()
            if not report('calc_H_MPO_from_bond', dense.mpo_to_matrix(H3)):
                return
            # exact-diag exporter building from the bonds (NearestNeighborModel has no MPO)
            He = ED.get_numpy_Hamiltonian(nn, from_mpo=False, undo_sort_charge=False)
            ctx.count('rep.exactdiag_from_bonds')
            if not report('ExactDiag.build_full_H_from_bonds', np.asarray(He)):
                return
            He_u = ED.get_numpy_Hamiltonian(nn, from_mpo=False, undo_sort_charge=True)
            if not report('ExactDiag.build_full_H_from_bonds(undo_sort_charge)', to_leg_basis(np.asarray(He_u))):
                return
            # the same bonds recovered from an MPOModel
            nn2 = NearestNeighborModel.from_MPOModel(MPOModel(lat, H))
            ctx.count('rep.NN_from_MPOModel')
            if not report('NearestNeighborModel.from_MPOModel', dense.mpo_to_matrix(nn2.calc_H_MPO_from_bond())):
                return
            # bond energies of a product state add up to <H>
            from tenpy.networks.mps import MPS
            pstate = [int(rng.integers(d_)) for d_ in dims]
            psi = MPS.from_product_state(sites, pstate, bc='finite', permute=False)  # (indices of the leg basis, as `ref`)
            k_flat = int(np.ravel_multi_index(pstate, dims))
            # (bonds without any term are stored as None, which bond_energies does not accept: models with all bonds present)
            be = np.asarray(nn.bond_energies(psi)) if all(hb is not None for hb in Hb[1:]) else None
            if be is not None:
                ctx.count('rep.bond_energies')
            if be is not None and herm_ref and not (abs(np.sum(be) - ref[k_flat, k_flat]) <= 1e-9 * scale):
                ctx.violation('NearestNeighborModel.bond_energies:sum-differs-from-expectation-value', 'sum %r, <H> %r' % (np.sum(be), ref[k_flat, k_flat]), case)
                return
            Hb2 = MPOModel(lat, H).calc_H_bond_from_MPO()
            B2 = np.zeros_like(ref)
            for j, hb in enumerate(Hb2):
                if hb is None or j == 0:
                    continue
                a, b = j - 1, j
                hd = np.transpose(hb.to_ndarray(), [hb.get_leg_index(l) for l in ('p0', 'p1', 'p0*', 'p1*')])
                hd = hd.reshape(dims[a] * dims[b], dims[a] * dims[b])
                left = int(np.prod(dims[:a])) if a else 1
                right = int(np.prod(dims[b + 1:])) if b + 1 < L else 1
                B2 = B2 + np.kron(np.kron(np.eye(left), hd), np.eye(right))
            if not report('calc_H_bond_from_MPO', B2):
                return
        # --- representation-only options
        if rng.random() < 0.5 and not explicit:
            Hs_ = H.copy()
            Hs_.sort_legcharges()
            if not report('MPO.sort_legcharges', dense.mpo_to_matrix(Hs_)):
                return
        if rng.random() < 0.4 and lat.N_sites >= 2 and not explicit:
            n = 2 if lat.N_sites < 3 or rng.random() < 0.5 else int(rng.integers(3, min(lat.N_sites, 4) + 1))
            mg = MPOModel(lat, H.copy())
            mg.group_sites(n)
            ctx.count('flag.group_sites')
            ctx.count('flag.group_sites.n=%d' % n)

            def in_grouped_basis(gs):
                # grouped basis: pipes of n sites; exact comparison through the pipe index map
                pm_all = []
                k = 0
                for gsite in gs:
                    members = sites[k:k + gsite.n_sites]
                    idx = list(itertools.product(*[range(s.dim) for s in members]))
                    pm = np.array([gsite.leg.map_incoming_flat(list(r)) for r in idx]) if hasattr(gsite.leg, 'map_incoming_flat') else np.arange(gsite.dim)
                    pm_all.append(pm)
                    k += gsite.n_sites
                gd = [g_.dim for g_ in gs]
                R4 = ref.reshape(gd + gd)
                # ref is indexed by C-order tuples within each group; grouped index = pm[tuple index]
                exp = np.zeros_like(R4)
                ix = np.ix_(*(pm_all + pm_all))
                exp[ix] = R4
                return exp.reshape(ref.shape)

            Hg = dense.mpo_to_matrix(mg.H_MPO)
            exp = in_grouped_basis(mg.lat.mps_sites())
            if not (dist(Hg, exp) <= tol):
                ctx.violation('group_sites:operator-changed', '|H_grouped - H_ref| = %g (n=%d)' % (dist(Hg, exp), n), case)
                return
            if nn_bonds is not None and lat.N_sites >= 3:
                # the bond operators of a grouped NearestNeighborModel (bonds inside a group become on-site parts of its bonds)
                nng = NearestNeighborModel(lat, list(nn_bonds))
                nng.group_sites(n)
                ctx.count('flag.group_sites.nearest_neighbor_model')
                if len(nng.lat.mps_sites()) >= 2:
                    Hg2 = dense.mpo_to_matrix(nng.calc_H_MPO_from_bond())
                    exp2 = in_grouped_basis(nng.lat.mps_sites())
                    if not (dist(Hg2, exp2) <= tol):
                        ctx.violation('NearestNeighborModel.group_sites:bond-operators-changed', '|H(grouped bonds) - H_ref| = %g (n=%d)' %
                                      (dist(Hg2, exp2), n), case)
                        return
    except _Skip:
        raise
    except Exception as e:
        tb = traceback.format_exc()
        if '/tenpy/' not in tb:
            raise
        if "can't determine all charges" in str(e) and np.linalg.norm(ref) < 1e-12:
            ctx.count('models.vanishing_operator')  # the recorded terms cancel exactly (e.g. C_i C_j + C_j C_i): H = 0 cannot be built
            raise _Skip()
        ctx.violation('random-model:raises-%s' % type(e).__name__, tb[-700:], case)
        return
    kinds = sorted(set(c[0] for c in calls))
    ctx.sig((geo, tuple(case['Ls']), tuple(case['bc']), kind, tuple(kinds), explicit), nontrivial=len(kinds) >= 2 or lat.dim >= 2)
    if i % 60 == 0:
        ctx.sample({k: v for k, v in case.items() if k != 'order'})


# ------------------------------------------------------------------------------------------------
def window_matrix(H, n):
    """Dense operator of the first `n` sites of an (infinite) MPO between the boundary states IdL (left) and IdR (right)."""
    res = None
    for i in range(n):
        W = H.get_W(i)
        Wd = np.transpose(W.to_ndarray(), [W.get_leg_index(l) for l in ('wL', 'wR', 'p', 'p*')])
        if res is None:
            res = np.transpose(Wd[H.get_IdL(0)], (1, 2, 0))
        else:
            res = np.einsum('abw,wrpq->apbqr', res, Wd)
            sh = res.shape
            res = res.reshape(sh[0] * sh[1], sh[2] * sh[3], sh[4])
    return res[:, :, H.get_IdR(n - 1)]


def case_infinite(ctx, i):
    """Infinite models: energy density of random product/low-chi states vs dense window sums; MPO vs bond form."""
    from tenpy.networks.mps import MPS
    from vf import dense
    rng = ctx.rng
    lat, kind, geo = make_lattice(rng, bc_MPS='infinite', max_dim=64)
    long_range = int(rng.integers(2, 7)) if (lat.dim == 1 or rng.random() < 0.3) and rng.random() < 0.7 else 0
    force_multi = False
    if rng.random() < 0.5:
        # short unit cell + a multi-site coupling reaching over many unit cells (the MPO graph has to carry strings across cells)
        from tenpy.models import lattice as LAT
        from vf import dense as _d
        st_, kind = _d.make_sites(rng, 1, str(rng.choice(['spinhalf_Sz', 'spinhalf', 'fermion_N', 'spinhalf_parity', 'fermion_parity'])))
        Lc = int(rng.integers(1, 4))
        lat = LAT.Chain(Lc, st_[0], bc='periodic', bc_MPS='infinite')
        geo = 'Chain(short cell)'
        long_range, force_multi = int(rng.integers(4, 9)), True
        ctx.count('infinite.short_cell_long_multi')
    explicit = bool(rng.random() < 0.3)
    m, calls, _, terms = build_model(ctx, rng, lat, explicit_plus_hc=explicit, allow_exp=False, long_range=long_range, force_multi=force_multi)
    case = {'lattice': geo, 'Ls': list(map(int, lat.Ls)), 'sites': kind, 'calls': calls, 'bc_MPS': 'infinite', 'explicit_plus_hc': explicit}
    if explicit:
        ctx.count('infinite.explicit_plus_hc')
    ctx.count('infinite.models')
    sites = lat.mps_sites()
    L = lat.N_sites
    try:
        H = m.calc_H_MPO()
        # product state in a random basis state per site
        p_state = [int(rng.integers(s.dim)) for s in sites]
        psi = MPS.from_product_state(sites, p_state, bc='infinite', permute=False)
        e_mpo = H.expectation_value(psi)
        # dense: energy per unit cell = sum over terms "starting" in the unit cell of <term> in the product state on a window
        span = 0
        for st, term, plus_hc in terms:
            span = max(span, max(j for _, j in term) // L + 1, -(min(j for _, j in term) // L))
        # expectation value of a product of local operators in a basis product state = product of local matrix elements
        # (Jordan-Wigner factors of every fermionic operator act on all sites to its left)
        def local_product_expval(term):
            mats = {}
            for name, j in term:  # in the order given: left-most factor first
                sj = sites[j % L]
                if sj.op_needs_JW(name):
                    lo = min(x for _, x in term)
                    for g in range(lo, j):
                        JWg = np.diag(dense.jw_diag(sites[g % L]))
                        mats[g] = mats[g] @ JWg if g in mats else JWg
                O = dense.op_dense(sj, name)
                mats[j] = mats[j] @ O if j in mats else O
            val = 1.0
            for g, M in mats.items():
                k = p_state[g % L]
                val = val * M[k, k]
            return val

        e_ref = 0.0
        for st, term, plus_hc in terms:
            val = st * local_product_expval(term)
            e_ref = e_ref + val + (np.conj(val) if plus_hc else 0)
        e_mpo = e_mpo * L  # documented: for infinite MPS the expectation value is the density per site
        if not (abs(e_mpo - e_ref) <= 1e-9 * max(1.0, abs(e_ref))):
            ctx.violation('infinite:MPO-energy-density-differs-from-recorded-terms', 'H_MPO.expectation_value = %r, dense window sum = %r' % (e_mpo, e_ref), case)
            return
        # nearest-neighbour bond operators of the infinite model (from the terms and from the MPO): in a basis product state their
        # diagonal matrix elements add up to the energy per unit cell; bond_energies reports them bond by bond
        try:
            Hb = m.calc_H_bond()
        except (ValueError, AssertionError):
            Hb = None
        if Hb is not None and L >= 2 and all(hb is not None for hb in Hb):
            from tenpy.models.model import MPOModel, NearestNeighborModel
            ctx.count('infinite.bond_models')

            def bond_diag(hb, j):
                a, b = p_state[(j - 1) % L], p_state[j % L]
                hd = np.transpose(hb.to_ndarray(), [hb.get_leg_index(l) for l in ('p0', 'p1', 'p0*', 'p1*')])
                return hd[a, b, a, b]

            for name_, bonds in (('calc_H_bond', Hb), ('calc_H_bond_from_MPO', MPOModel(lat, H).calc_H_bond_from_MPO())):
                if any(hb is None for hb in bonds) or len(bonds) != L:
                    ctx.violation('infinite:%s:missing-bond' % name_, '%d bonds for %d sites' % (len([hb for hb in bonds if hb is not None]), L), case)
                    return
                e_b = sum(bond_diag(hb, j) for j, hb in enumerate(bonds))
                if not (abs(e_b - e_ref) <= 1e-9 * max(1.0, abs(e_ref))):
                    ctx.violation('infinite:%s:bond-operators-do-not-add-up-to-H%s' % (name_, ':explicit_plus_hc' if explicit else ''),
                                  'sum over the bonds of a unit cell %r, energy per unit cell of the recorded terms %r' % (e_b, e_ref), case)
                    return
            # segment and enlarged unit cell of the bond model: the same bond operators at the same places
            nn_ = NearestNeighborModel(lat, Hb)
            first_, last_ = int(rng.integers(0, L)), int(rng.integers(L, 3 * L))
            seg_ = nn_.extract_segment(first_, last_)
            ctx.count('infinite.bond_model_segment')

            def dense_bond(hb):
                return np.transpose(hb.to_ndarray(), [hb.get_leg_index(l) for l in ('p0', 'p1', 'p0*', 'p1*')])

            if len(seg_.H_bond) != last_ - first_ + 1 or seg_.lat.N_sites != last_ - first_ + 1:
                ctx.violation('NearestNeighborModel.extract_segment:length', '%d bonds, %d sites for segment (%d, %d)' %
                              (len(seg_.H_bond), seg_.lat.N_sites, first_, last_), case)
                return
            for k_, hb in enumerate(seg_.H_bond):
                want_ = Hb[(first_ + k_) % L]
                if hb is None or dense_bond(hb).shape != dense_bond(want_).shape or not (np.linalg.norm(dense_bond(hb) - dense_bond(want_)) <= 1e-12):
                    ctx.violation('NearestNeighborModel.extract_segment:wrong-bond', 'entry %d of segment (%d, %d) is not H_bond[%d]' %
                                  (k_, first_, last_, (first_ + k_) % L), case)
                    return
            nn2_ = NearestNeighborModel(lat.copy(), list(Hb))
            fac_ = int(rng.integers(2, 4))
            nn2_.enlarge_mps_unit_cell(fac_)
            nn2_.test_sanity()
            if len(nn2_.H_bond) != fac_ * L or any(not (np.linalg.norm(dense_bond(nn2_.H_bond[k_]) - dense_bond(Hb[k_ % L])) <= 1e-12) for k_ in range(fac_ * L)):
                ctx.violation('NearestNeighborModel.enlarge_mps_unit_cell:bonds', '%d bonds for factor %d of %d' % (len(nn2_.H_bond), fac_, L), case)
                return
            be = np.asarray(NearestNeighborModel(lat, Hb).bond_energies(psi))
            exp_be = np.array([bond_diag(hb, j) for j, hb in enumerate(Hb)])
            if be.shape != exp_be.shape or not (np.max(np.abs(be - exp_be)) <= 1e-9 * max(1.0, np.max(np.abs(exp_be)))):
                ctx.violation('infinite:bond_energies:not-the-energy-of-bond-(i-1,i)', 'got %r expected %r' % (be.tolist(), exp_be.tolist()), case)
                return
        # window of the infinite MPO (boundary vectors IdL / IdR): exactly the terms that lie completely inside the window,
        # i.e. all translates (by whole unit cells) of the recorded terms that fit
        dloc = [s_.dim for s_ in sites]
        lo_t = min(min(j for _, j in term) for st, term, phc in terms)
        hi_t = max(max(j for _, j in term) for st, term, phc in terms)
        n_cells = (hi_t - lo_t) // L + 2
        while n_cells > 1 and np.prod([float(d) for d in dloc])**n_cells > 3000:
            n_cells -= 1
        Wn = n_cells * L
        if np.prod([float(d) for d in dloc])**n_cells <= 3000 and Wn >= 2:
            wsites = [sites[k % L] for k in range(Wn)]
            Hw = window_matrix(H, Wn)
            if H.explicit_plus_hc:
                Hw = Hw + Hw.conj().T
            D = Hw.shape[0]
            ref_w = np.zeros((D, D), dtype=complex)
            n_in = 0
            for st, term, plus_hc in terms:
                lo, hi = min(j for _, j in term), max(j for _, j in term)
                for shift in range(-(hi // L) - 1, n_cells + 1 - (lo // L)):
                    pos = [(n_, j + shift * L) for n_, j in term]
                    if min(j for _, j in pos) < 0 or max(j for _, j in pos) >= Wn:
                        continue
                    T = st * dense.term_matrix(wsites, pos)
                    ref_w += T
                    if plus_hc:
                        ref_w += T.conj().T
                    n_in += 1
            ctx.count('infinite.window_checked')
            if n_in:
                ctx.count('infinite.window_with_terms')
            if any(hi_ - lo_ >= L for lo_, hi_ in [(min(j for _, j in t), max(j for _, j in t)) for _s, t, _p in terms]):
                ctx.count('infinite.terms_beyond_unit_cell')
            # a segment cut out of the MPO is the same window (representation-only flags such as explicit_plus_hc travel with it)
            try:
                Hseg = H.extract_segment(0, Wn - 1)
                Hs = window_matrix(Hseg, Wn)
                if Hseg.explicit_plus_hc:
                    Hs = Hs + Hs.conj().T
                ctx.count('infinite.segment_checked')
                if not (np.linalg.norm(Hs - ref_w) <= 1e-9 * max(1.0, np.linalg.norm(ref_w))):
                    ctx.violation('MPO.extract_segment:differs-from-recorded-terms%s' % (':explicit_plus_hc' if explicit else ''),
                                  '|segment - reference| = %g (|ref| = %g), flag on the segment: %r' %
                                  (np.linalg.norm(Hs - ref_w), np.linalg.norm(ref_w), Hseg.explicit_plus_hc), case)
                    return
            except Exception as e:
                tb = traceback.format_exc()
                if '/tenpy/' not in tb:
                    raise
                ctx.violation('MPO.extract_segment:raises-%s' % type(e).__name__, tb[-500:], case)
                return
            # the same through the model: MPOModel.extract_segment / enlarge_mps_unit_cell (lattice and MPO change together)
            try:
                from tenpy.models.model import MPOModel as _MPOModel
                mm = _MPOModel(lat, H)
                seg_m = mm.extract_segment(0, Wn - 1)
                ctx.count('infinite.model_segment_checked')
                Hsm = window_matrix(seg_m.H_MPO, Wn)
                if seg_m.H_MPO.explicit_plus_hc:
                    Hsm = Hsm + Hsm.conj().T
                if seg_m.lat.N_sites != Wn or seg_m.lat.bc_MPS != 'segment' or tuple(seg_m.lat.segment_first_last) != (0, Wn - 1):
                    ctx.violation('MPOModel.extract_segment:lattice', 'N_sites %d bc %r first/last %r for segment (0, %d)' %
                                  (seg_m.lat.N_sites, seg_m.lat.bc_MPS, getattr(seg_m.lat, 'segment_first_last', None), Wn - 1), case)
                    return
                if not (np.linalg.norm(Hsm - ref_w) <= 1e-9 * max(1.0, np.linalg.norm(ref_w))):
                    ctx.violation('MPOModel.extract_segment:differs-from-recorded-terms', '|segment - reference| = %g' % np.linalg.norm(Hsm - ref_w), case)
                    return
                if mm.lat.N_sites != L or mm.H_MPO.L != L:
                    ctx.violation('MPOModel.extract_segment:changes-the-original', '', case)
                    return
                import copy as _copy
                m2 = _MPOModel(lat.copy(), H.copy())  # (the lattice copy shares the site objects with the MPO)
                fac = int(rng.integers(2, 4))
                m2.enlarge_mps_unit_cell(fac)
                ctx.count('infinite.model_enlarged_checked')
                if m2.lat.N_sites != fac * L or m2.H_MPO.L != fac * L:
                    ctx.violation('MPOModel.enlarge_mps_unit_cell:sizes', 'lattice %d, MPO %d for factor %d of %d sites' % (m2.lat.N_sites, m2.H_MPO.L, fac, L), case)
                    return
                m2.test_sanity()
                Hw2 = window_matrix(m2.H_MPO, Wn)
                if m2.H_MPO.explicit_plus_hc:
                    Hw2 = Hw2 + Hw2.conj().T
                if not (np.linalg.norm(Hw2 - ref_w) <= 1e-9 * max(1.0, np.linalg.norm(ref_w))):
                    ctx.violation('MPOModel.enlarge_mps_unit_cell:operator-changed', '|window - reference| = %g' % np.linalg.norm(Hw2 - ref_w), case)
                    return
            except Exception as e:
                tb = traceback.format_exc()
                if '/tenpy/' not in tb:
                    raise
                ctx.violation('MPOModel.segment-or-enlarge:raises-%s' % type(e).__name__, tb[-500:], case)
                return
            if not (np.linalg.norm(Hw - ref_w) <= 1e-9 * max(1.0, np.linalg.norm(ref_w))):
                ctx.violation('infinite:MPO-window-differs-from-recorded-terms', '|window(H_MPO) - sum of the translates of the recorded terms '
                              'inside %d sites| = %g (|ref| = %g, %d terms inside)' % (Wn, np.linalg.norm(Hw - ref_w), np.linalg.norm(ref_w), n_in), case)
                return
    except _Skip:
        raise
    except Exception as e:
        tb = traceback.format_exc()
        if '/tenpy/' not in tb:
            raise
        ctx.violation('infinite-model:raises-%s' % type(e).__name__, tb[-700:], case)
        return
    ctx.sig(('infinite', geo, tuple(case['Ls']), kind, tuple(sorted(set(c[0] for c in calls)))), nontrivial=True)
    if i % 20 == 0:
        ctx.sample(case)


# ------------------------------------------------------------------------------------------------
def case_predefined(ctx, i):
    """Predefined models (discovered by reflection): their representations agree pairwise; H is Hermitian."""
    import importlib
    import inspect
    import pkgutil
    import tenpy.models as TM
    from tenpy.models.model import CouplingMPOModel, NearestNeighborModel, MPOModel
    from tenpy.algorithms import exact_diag as ED
    from vf import dense
    rng = ctx.rng
    classes = []
    for mi in pkgutil.iter_modules(TM.__path__):
        if mi.name in ('lattice', 'model'):
            continue
        try:
            mod = importlib.import_module('tenpy.models.' + mi.name)
        except Exception:
            continue
        for n, c in vars(mod).items():
            if inspect.isclass(c) and issubclass(c, CouplingMPOModel) and c.__module__ == mod.__name__ and not n.startswith('_'):
                classes.append(c)
    classes = sorted(set(classes), key=lambda c: c.__name__)
    if not classes:
        raise _Skip()
    c = classes[i % len(classes)]
    params = {'L': int(rng.integers(2, 5)), 'bc_MPS': 'finite', 'Lx': 2, 'Ly': 2}
    if rng.random() < 0.5:
        params['bc_x'] = 'open'
    if 'conserve' in inspect.signature(c.init_sites).parameters or True:
        pass
    case = {'model': c.__name__, 'params': dict(params)}
    try:
        m = c(dict(params))
    except Exception as e:
        ctx.count('predefined.construct_failed')
        return
    lat = m.lat
    sites = lat.mps_sites()
    D = int(np.prod([s.dim for s in sites]))
    if D > 4096:
        raise _Skip()
    ctx.count('predefined.models')
    ctx.count('predefined.' + c.__name__)
    try:
        Hd = dense.mpo_to_matrix(m.H_MPO)
        if m.H_MPO.explicit_plus_hc:
            Hd = Hd + Hd.conj().T
        if not dense.is_hermitian(Hd):
            ctx.violation('predefined:%s:not-hermitian' % c.__name__, '|H - H^dagger| = %g' % np.linalg.norm(Hd - Hd.conj().T), case)
            return
        Hn = np.asarray(ED.get_numpy_Hamiltonian(m, undo_sort_charge=False))
        if Hn.shape != Hd.shape or not (np.linalg.norm(Hn - Hd) <= 1e-10 * max(1.0, np.linalg.norm(Hd))):
            ctx.violation('predefined:%s:numpy-hamiltonian-differs-from-MPO' % c.__name__, '', case)
            return
        if isinstance(m, NearestNeighborModel) and m.H_bond is not None and not m.H_MPO.explicit_plus_hc:
            H3 = m.calc_H_MPO_from_bond()
            if not (np.linalg.norm(dense.mpo_to_matrix(H3) - Hd) <= 1e-10 * max(1.0, np.linalg.norm(Hd))):
                ctx.violation('predefined:%s:bond-form-differs-from-MPO' % c.__name__, '', case)
                return
    except Exception as e:
        tb = traceback.format_exc()
        if '/tenpy/' not in tb:
            raise
        ctx.violation('predefined:%s:raises-%s' % (c.__name__, type(e).__name__), tb[-600:], case)
        return
    ctx.sig(('predefined', c.__name__, repr(sorted(params.items()))), nontrivial=True)
    if i % 15 == 0:
        ctx.sample(case)
