"""C18 — results on disk survive a crash; a resumed run equals an uninterrupted one (SIGKILL injection + history comparison)."""
import collections
import glob
import copy
import json
import os
import pickle
import re
import shutil
import subprocess
import sys
import tempfile
import traceback
import warnings

import numpy as np

from vf.runner import shard

PROP = 'C18'
LEVEL = 'exploration'
RULE = ('real tenpy Simulations (ground-state search with two-site / single-site DMRG, real-time evolution with TEBD, TDVP and '
        'ExpMPOEvolution; pickle and HDF5 output; safe_write on; a save at every algorithm checkpoint) run in child processes. '
        'crash: the child is killed by SIGKILL (strace fault injection) on entry of the k-th occurrence of every file-system call '
        '(openat/write/pwrite64/rename/unlink/ftruncate/close/...) that touches the output or the backup file, for every k; after '
        'each kill the files left on disk are loaded and compared with the recorded checkpoints of an uninterrupted run. '
        'resume: the run is resumed from every recorded checkpoint and its final state, energies and measurement / sweep '
        'histories are compared with the uninterrupted run. second crash: starting from the file set a first crash leaves '
        '(partial output + complete backup) the resumed run is killed at every file-system call of its first save. '
        'non-trivial = every case; distinct = (scenario, syscall, occurrence) or (scenario, checkpoint)'
        " Also: second-crash file set 'only the backup is left'; every checkpoint resumed; DMRG scenario with default min_sweeps, chi_list and engine-decided convergence; an engine-level resume part (psi + options + get_resume_data() at every checkpoint, fresh engine, resume_run(), with and without orthogonal_to).")
ASSUMPTIONS = ['process death is modelled by SIGKILL at system-call entry (no power failure: data handed to the kernel survives)',
               'the deterministic part of the results (no wall-clock times / versions) identifies a checkpoint']
ANCHORS = {'tenpy/simulations/simulation.py': ['save_results', 'fix_output_filenames', 'get_backup_filename', 'save_at_checkpoint',
                                               'from_saved_checkpoint', 'resume_run']}
REQUIRED_COUNTERS = {'crash.runs': 40, 'crash.killed': 30, 'crash.after_first_save': 20, 'crash.files_loaded': 30, 'resume.runs': 8,
                     'resume.compared': 8, 'second.runs': 10, 'second.killed': 8, 'second.mode.clean': 4, 'second.mode.partial': 4}

TRACE_SET = ('openat,open,creat,write,pwrite64,writev,pwritev,rename,renameat,renameat2,unlink,unlinkat,ftruncate,truncate,close,'
             'fsync,fdatasync,link,linkat')

SCENARIOS = ['dmrg2_pkl', 'dmrg1_h5', 'tebd_pkl', 'tdvp_h5', 'expmpo_pkl', 'tebdg_h5']


def plan(tier, seed, jobs):
    q = tier == 'quick'
    crash = shard('compiled', 70 if q else 600, 10, part='crash', timeout=3000, time_budget=200 if q else 1700)
    for k, u in enumerate(crash):  # one scenario per shard: each worker needs only one reference / trace run
        u['scn'], u['half'] = k % 5, k // 5
    # (every checkpoint of every scenario, the last one before the final save included: 5-7 checkpoints per scenario)
    # (the sixth scenario, TEBD on grouped sites, takes part in the resume cases only)
    resume = shard('compiled', 42 if q else 84, 6, part='resume', timeout=3000, time_budget=200 if q else 1700)
    for k, u in enumerate(resume):
        u['scn'] = k % 6
    engine = shard('compiled', 12 if q else 120, 2, part='engine', timeout=3000, time_budget=200 if q else 1700)
    second = shard('compiled', 60 if q else 300, 4, part='second', timeout=3000, time_budget=200 if q else 1700)
    for k, u in enumerate(second):
        u['scn'], u['half'] = k % 2, k // 2
    return crash + resume + second + engine


def sim_spec(name):
    meas = [['tenpy.simulations.measurement', 'm_onsite_expectation_value', {'opname': 'Sigmaz'}],
            ['tenpy.simulations.measurement', 'm_energy_MPO']]
    base = {'directory': '.', 'model_class': 'TFIChain', 'model_params': {'L': 5, 'J': 1.0, 'g': 1.3, 'bc_MPS': 'finite'},
            'initial_state_params': {'method': 'lat_product_state', 'product_state': [['up']]},
            'connect_measurements': meas, 'save_every_x_seconds': 0.0, 'save_psi': True,
            'log_params': {'to_stdout': None, 'to_file': None}}
    ext = '.pkl' if name.endswith('pkl') else '.h5'
    base['output_filename'] = 'out' + ext
    if name.startswith('dmrg'):
        base['simulation_class'] = 'GroundStateSearch'
        base['algorithm_class'] = 'TwoSiteDMRGEngine' if name.startswith('dmrg2') else 'SingleSiteDMRGEngine'
        base['algorithm_params'] = {'trunc_params': {'chi_max': 6, 'svd_min': 1e-10}, 'max_sweeps': 4, 'min_sweeps': 4, 'N_sweeps_check': 1,
                                    'mixer': None}
        if name.startswith('dmrg2'):
            # default min_sweeps (the convergence test runs at every checkpoint and needs the statistics of the previous sweeps),
            # convergence decided by the engine (reached after the 4th of at most 6 sweeps), chi_max raised on a schedule
            base['model_params']['L'] = 6
            base['algorithm_params'].update({'min_sweeps': 1, 'max_sweeps': 6, 'max_E_err': 1e-9, 'max_S_err': 1e-6,
                                             'chi_list': {0: 2, 1: 4, 2: 8}})
            # one measurement per checkpoint: a duplicated / lost one shows in the history (not with a mixer: the default
            # measurements need diagonal singular values and report errors while the mixer is on)
            base['measure_at_algorithm_checkpoints'] = True
        if name.startswith('dmrg1'):
            # with a mixer (checkpoints hold a 2D "S" while it is on)
            base['algorithm_params'].update({'mixer': True, 'mixer_params': {'amplitude': 1e-3, 'disable_after': 2}})
    else:
        base['simulation_class'] = 'RealTimeEvolution'
        base['final_time'] = 0.4
        base['algorithm_class'] = {'tebd': 'TEBDEngine', 'tebdg': 'TEBDEngine', 'tdvp': 'TwoSiteTDVPEngine',
                                   'expmpo': 'ExpMPOEvolution'}[name.split('_')[0]]
        base['algorithm_params'] = {'trunc_params': {'chi_max': 8, 'svd_min': 1e-10}, 'dt': 0.05, 'N_steps': 2}
        if name.startswith('tebd'):
            base['algorithm_params']['order'] = 2
            base['algorithm_params']['trunc_params'] = {'chi_max': 2, 'svd_min': 1e-10}  # truncating: the error measurements are non-trivial
            base['algorithm_params']['max_trunc_err'] = None
        if name.startswith('tebdg'):
            # sites grouped in pairs for the algorithm (psi in a checkpoint is grouped; measurements and the final state are not)
            base['model_params']['L'] = 6
            base['group_sites'] = 2
            base['algorithm_params']['trunc_params'] = {'chi_max': 8, 'svd_min': 1e-10}
        if name.startswith('expmpo'):
            base['algorithm_params'].update({'compression_method': 'SVD', 'approximation': 'II', 'order': 1})
    return base, ext


class _Skip(Exception):
    pass


def worker_init(ctx):
    warnings.simplefilter('ignore')
    import logging
    logging.disable(logging.CRITICAL)
    ctx._root = tempfile.mkdtemp(prefix='vf18-')
    ctx._refs = {}


def worker_finish(ctx):
    shutil.rmtree(getattr(ctx, '_root', '/nonexistent'), ignore_errors=True)


def run_case(ctx, i):
    try:
        globals()['case_' + ctx.unit['part']](ctx, i)
    except _Skip:
        ctx.count('skipped')


# ------------------------------------------------------------------------------------------------
# child process handling
# ------------------------------------------------------------------------------------------------
def child(workdir, mode, spec, strace=None, timeout=300):
    """Run the child; `strace` = None | dict(paths=[...], log=..., inject=(syscall, k) | None).  Returns (rc, stdout, stderr)."""
    specfile = os.path.join(workdir, 'spec.json')
    json.dump(spec, open(specfile, 'w'))
    cmd = [sys.executable, '-m', 'vf.c18_child', mode, workdir, specfile]
    if strace is not None:
        pre = ['strace', '-f', '-o', strace['log'], '-e', 'trace=' + TRACE_SET]
        if strace.get('inject'):
            sc, k = strace['inject']
            pre += ['-e', 'inject=%s:signal=SIGKILL:when=%d' % (sc, k)]
        for p in strace['paths']:
            # the simulation uses names relative to its directory: strace matches path arguments literally (and fds by resolution)
            pre += ['-P', p, '-P', os.path.basename(p), '-P', './' + os.path.basename(p)]
        cmd = pre + cmd
    try:
        r = subprocess.run(cmd, cwd=os.path.dirname(os.path.dirname(os.path.abspath(__file__))), capture_output=True, text=True,
                           timeout=timeout)
    except subprocess.TimeoutExpired:
        return None, '', 'timeout'
    return r.returncode, r.stdout, r.stderr


def summarize_file(fn):
    """Load a results file with tenpy's loader; returns the deterministic summary or raises."""
    from tenpy.tools import hdf5_io
    from vf.c18_child import summarize
    res = hdf5_io.load(fn)
    if not isinstance(res, dict) or 'simulation_parameters' not in res:
        raise ValueError('not a results dictionary')
    return summarize(res)


def same(a, b, tol=1e-9):
    if type(a) is not type(b) and not (isinstance(a, (int, float, np.number)) and isinstance(b, (int, float, np.number))):
        return False
    if isinstance(a, dict):
        return set(a) == set(b) and all(same(a[k], b[k], tol) for k in a)
    if isinstance(a, (list, tuple)):
        return len(a) == len(b) and all(same(x, y, tol) for x, y in zip(a, b))
    if isinstance(a, np.ndarray):
        return a.shape == b.shape and (a.dtype.kind not in 'fc' and np.array_equal(a, b) or
                                       a.dtype.kind in 'fc' and np.allclose(a, b, rtol=0, atol=tol, equal_nan=True))
    if a is None:
        return b is None
    if isinstance(a, (float, complex, np.number)):
        return abs(a - b) <= tol or (a != a and b != b)
    return a == b


def reference(ctx, name):
    """Uninterrupted, recorded run of a scenario (once per worker): checkpoint files, their summaries, syscall counts."""
    if name in ctx._refs:
        return ctx._refs[name]
    sim, ext = sim_spec(name)
    wd = os.path.join(ctx._root, 'ref-' + name)
    os.makedirs(wd)
    rc, out, err = child(wd, 'run', {'record': True, 'sim': sim})
    if rc != 0 or 'DONE' not in out:
        ctx.violation('reference-run-failed:%s' % name, (out + err)[-800:], {'scenario': name})
        raise _Skip()
    ckpts = sorted(glob.glob(os.path.join(wd, 'ckpt_*' + ext)), key=lambda f: int(re.findall(r'ckpt_(\d+)', f)[0]))
    sums = [summarize_file(f) for f in ckpts]
    final = pickle.load(open(os.path.join(wd, 'final.pkl'), 'rb'))
    # trace run: which file-system calls touch the two files, how often
    wt = os.path.join(ctx._root, 'trace-' + name)
    os.makedirs(wt)
    paths = [os.path.join(wt, 'out' + ext), os.path.join(wt, 'out.backup' + ext)]
    log = os.path.join(wt, 'strace.log')
    rc, out, err = child(wt, 'run', {'record': False, 'sim': sim}, strace={'paths': paths, 'log': log})
    if rc != 0:
        ctx.violation('trace-run-failed:%s' % name, (out + err)[-800:], {'scenario': name})
        raise _Skip()
    counts = collections.Counter()
    for line in open(log):
        m = re.match(r'^\d+\s+(\w+)\(', line)
        if m and 'resumed' not in line:
            counts[m.group(1)] += 1
    points = []
    for sc in sorted(counts):
        ks = list(range(1, counts[sc] + 1))
        if len(ks) > 40:  # data writes of HDF5: an even sample of the occurrences (plus first and last)
            ks = sorted(set([1, 2, counts[sc] - 1, counts[sc]] + [int(x) for x in np.linspace(1, counts[sc], 36)]))
        points += [(sc, k) for k in ks]
    ref = {'sim': sim, 'ext': ext, 'ckpts': ckpts, 'sums': sums, 'final': final, 'points': points, 'counts': dict(counts), 'dir': wd}
    ctx._refs[name] = ref
    ctx.count('reference.runs')
    ctx.count('reference.crash_points', len(points))
    return ref


def inspect_files(ctx, wd, ext, ref, stem='out', others=()):
    """For the output and the backup file: None (absent) | ('valid', m) | ('invalid', reason)."""
    res = {}
    for label, fn in (('output', stem + ext), ('backup', stem + '.backup' + ext)) + tuple(('other:' + o, o) for o in others):
        p = os.path.join(wd, fn)
        if not os.path.exists(p):
            res[label] = None
            continue
        try:
            s = summarize_file(p)
            ctx.count('crash.files_loaded')
        except BaseException as e:  # a damaged file may raise anything
            res[label] = ('invalid', type(e).__name__, os.path.getsize(p))
            continue
        which = [m + 1 for m, r in enumerate(ref['sums']) if same(s, r)]
        res[label] = ('valid', which[-1]) if which else ('invalid', 'loads-but-matches-no-checkpoint', os.path.getsize(p))
    return res


def n_saved(out):
    ks = [int(x) for x in re.findall(r'^SAVED (\d+)', out, flags=re.M)]
    return max(ks) if ks else 0


def judge_crash(ctx, tag, files, saved, offset, case):
    """After a kill: once a save has completed there must be a complete file of checkpoint `saved` or `saved`+1 (offset: number of
    the checkpoint the resumed run started from)."""
    valid = [v[1] for v in files.values() if v is not None and v[0] == 'valid']
    case['files'] = {k: (list(v) if v else None) for k, v in files.items()}
    case['saves_completed'] = saved
    want_min = offset + saved
    if want_min == 0:
        ctx.count('crash.before_first_save')
        return
    ctx.count('crash.after_first_save')
    if not valid:
        ctx.violation('%s:no-complete-results-file-left' % tag, 'after %d completed save(s) (checkpoint >= %d expected) the files are %r' %
                      (saved, want_min, case['files']), case)
    elif max(valid) < want_min:
        ctx.violation('%s:only-an-older-checkpoint-left' % tag, 'completed saves up to checkpoint %d but the newest complete file holds '
                      'checkpoint %d: %r' % (want_min, max(valid), case['files']), case)


# ------------------------------------------------------------------------------------------------
# parts
# ------------------------------------------------------------------------------------------------
def case_crash(ctx, i):
    name = SCENARIOS[ctx.unit.get('scn', i % len(SCENARIOS))]
    ref = reference(ctx, name)
    pts = ref['points']
    # spread the cases of this scenario evenly over its crash points (the seed shifts the sample; thorough visits all of them)
    j = (i - ctx.unit.get('lo', 0)) * 2 + ctx.unit.get('half', 0) if 'scn' in ctx.unit else i // len(SCENARIOS)
    n_cases = 14 if ctx.tier == 'quick' else 120
    idx = int((j + ((ctx.seed * 0.377) % 1.0)) * len(pts) / n_cases) % len(pts) if len(pts) > n_cases else j % len(pts)
    sc, k = pts[idx]
    wd = tempfile.mkdtemp(prefix='c-', dir=ctx._root)
    case = {'scenario': name, 'syscall': sc, 'occurrence': k, 'of': ref['counts'][sc]}
    # every third case: output names with a dot in the stem (as output_filename_params produces them for parameter scans), and
    # after the kill another simulation of the same scan runs to its end in the same directory before the files are inspected
    dotted = (j % 3 == 1)
    stem = 'out_dt_0.50' if dotted else 'out'
    try:
        paths = [os.path.join(wd, stem + ref['ext']), os.path.join(wd, stem + '.backup' + ref['ext'])]
        sim_a = dict(ref['sim'], output_filename=stem + ref['ext'])
        rc, out, err = child(wd, 'run', {'record': False, 'sim': sim_a},
                             strace={'paths': paths, 'log': os.path.join(wd, 'strace.log'), 'inject': (sc, k)})
        ctx.count('crash.runs')
        ctx.count('crash.syscall.' + sc)
        if rc == 0 and 'DONE' in out:
            ctx.count('crash.not_reached')  # occurrence beyond what this run performed
            return
        if rc is None:
            ctx.count('crash.timeout')
            return
        ctx.count('crash.killed')
        others = ()
        if dotted:
            stem_b = 'out_dt_0.25'
            sim_b = copy.deepcopy(ref['sim'])
            sim_b['output_filename'] = stem_b + ref['ext']
            sim_b['model_params']['g'] = 0.7  # (another point of the scan: none of its files matches a checkpoint of the killed run)
            if 'final_time' in sim_b:
                sim_b['final_time'] = 0.2
            else:
                sim_b['algorithm_params'].update({'max_sweeps': 2, 'min_sweeps': 1})
            rc_b, out_b, err_b = child(wd, 'run', {'record': False, 'sim': sim_b})
            case['sibling'] = {'output_filename': sim_b['output_filename'], 'finished': bool(rc_b == 0 and 'DONE' in out_b)}
            if not case['sibling']['finished']:
                ctx.violation('crash:sibling-simulation-in-the-same-directory-fails', (out_b + err_b)[-600:], case)
                return
            ctx.count('crash.sibling_runs')
            mine = {stem + ref['ext'], stem + '.backup' + ref['ext'], stem_b + ref['ext'], stem_b + '.backup' + ref['ext'],
                    'spec.json', 'strace.log', 'final.pkl', 'final.pkl.tmp'}
            others = tuple(sorted(f_ for f_ in os.listdir(wd) if f_ not in mine and f_.endswith(ref['ext'])))
        files = inspect_files(ctx, wd, ref['ext'], ref, stem=stem, others=others)
        judge_crash(ctx, 'crash', files, n_saved(out), 0, case)
        ctx.sig((name, sc, k), nontrivial=True)
        if i % 20 == 0:
            ctx.sample(case)
    finally:
        shutil.rmtree(wd, ignore_errors=True)


def case_resume(ctx, i):
    name = SCENARIOS[ctx.unit.get('scn', i % len(SCENARIOS))]
    ref = reference(ctx, name)
    n = len(ref['ckpts'])
    j = i - ctx.unit.get('lo', 0) if 'scn' in ctx.unit else i // len(SCENARIOS)
    c = (j + ctx.seed) % (n - 1) + 1  # resume from checkpoint c (the last one is the finished run)
    wd = tempfile.mkdtemp(prefix='r-', dir=ctx._root)
    case = {'scenario': name, 'resume_from_checkpoint': c, 'of': n}
    try:
        src = os.path.join(wd, 'out' + ref['ext'])
        shutil.copy(ref['ckpts'][c - 1], src)
        rc, out, err = child(wd, 'resume', {'record': False, 'resume_from': src})
        ctx.count('resume.runs')
        if rc != 0 or 'DONE' not in out:
            ctx.violation('resume:%s:run-fails' % name.split('_')[0], (out + err)[-900:], case)
            return
        fin = pickle.load(open(os.path.join(wd, 'final.pkl'), 'rb'))
        ctx.count('resume.compared')
        want = ref['final']
        # histories: none lost, none duplicated
        for key in sorted(set(want.get('measurements', {})) | set(fin.get('measurements', {}))):
            a, b = want['measurements'].get(key), fin['measurements'].get(key)
            if a is None or b is None or len(a) != len(b):
                ctx.violation('resume:%s:measurement-history-length-differs' % name.split('_')[0],
                              'measurement %r: %s entries in the uninterrupted run, %s after resuming from checkpoint %d' %
                              (key, None if a is None else len(a), None if b is None else len(b), c), case)
                return
            if not same(np.asarray(a), np.asarray(b), 1e-7):
                if ref['sim']['algorithm_params'].get('mixer'):
                    # mechanism: Sweep.mixer_activate() builds a fresh Mixer at the resume (amplitude and disable_after count from
                    # the resume), so the mixer schedule of the resumed run is not the one of the uninterrupted run
                    ctx.violation('resume:dmrg-with-mixer:result-differs:mixer-schedule-restarts-at-resume', 'measurement %r differs: %r '
                                  'vs %r' % (key, np.asarray(a).reshape(-1)[-5:], np.asarray(b).reshape(-1)[-5:]), case)
                else:
                    ctx.violation('resume:%s:measurement-values-differ' % name.split('_')[0], 'measurement %r differs: %r vs %r' %
                                  (key, np.asarray(a).reshape(-1)[:6], np.asarray(b).reshape(-1)[:6]), case)
                return
        # sweep statistics: the engine keeps only what it did after the resume; that must be the exact tail of the uninterrupted
        # history (sweep counter, mixer and chi schedules continue, nothing is repeated)
        if 'sweep_stats' in want:
            a_s, b_s = [int(x) for x in want['sweep_stats']['sweep']], [int(x) for x in fin.get('sweep_stats', {}).get('sweep', [])]
            a_E, b_E = np.asarray(want['sweep_stats']['E'], dtype=float), np.asarray(fin.get('sweep_stats', {}).get('E', []), dtype=float)
            if not b_s or a_s[-len(b_s):] != b_s or len(set(b_s)) != len(b_s) or not np.allclose(a_E[-len(b_s):], b_E, rtol=0, atol=1e-7):
                ctx.violation('resume:%s:sweep-history-is-not-the-tail-of-the-uninterrupted-one' % name.split('_')[0],
                              'sweeps %r / E %r after resuming from checkpoint %d; uninterrupted: %r / %r' % (b_s, b_E, c, a_s, a_E), case)
                return
        if want.get('psi_vec') is not None:
            ov = abs(np.vdot(want['psi_vec'], fin['psi_vec'])) / (np.linalg.norm(want['psi_vec']) * np.linalg.norm(fin['psi_vec']))
            if ov < 1 - 1e-7:
                ctx.violation('resume:%s:final-state-differs' % name.split('_')[0], 'overlap with the uninterrupted final state %r' % ov, case)
        if 'energy' in want and not (abs(want['energy'] - fin.get('energy', np.nan)) <= 1e-8):
            ctx.violation('resume:%s:final-energy-differs' % name.split('_')[0], '%r vs %r' % (want['energy'], fin.get('energy')), case)
        ctx.sig((name, 'resume', c), nontrivial=True)
        ctx.sample(case)
    finally:
        shutil.rmtree(wd, ignore_errors=True)


def case_engine(ctx, i):
    """Engine-level resume as documented for Algorithm.get_resume_data: at every checkpoint of a DMRG run (with and without
    orthogonal_to) the state, the options and the resume data are kept; a fresh engine built from them and resumed must end with the
    energy and state of the uninterrupted run."""
    import copy
    from tenpy.models.xxz_chain import XXZChain
    from tenpy.networks.mps import MPS
    from tenpy.algorithms import dmrg
    rng = ctx.rng
    L = int(rng.choice([6, 8]))
    M = XXZChain({'L': L, 'Jxx': 1.0, 'Jz': float(rng.choice([0.5, 1.0, 1.5])), 'hz': 0.0, 'bc_MPS': 'finite'})
    engine = str(rng.choice(['TwoSiteDMRGEngine', 'SingleSiteDMRGEngine']))
    excited = bool(rng.random() < 0.6)
    opts = {'trunc_params': {'chi_max': int(rng.choice([8, 16])), 'svd_min': 1e-10}, 'max_sweeps': int(rng.integers(4, 7)), 'min_sweeps': 1,
            'N_sweeps_check': 1, 'mixer': None if engine == 'TwoSiteDMRGEngine' else True, 'max_E_err': 1e-10, 'max_S_err': 1e-6}
    if opts['mixer']:
        opts['mixer_params'] = {'amplitude': 1e-3, 'disable_after': 1}
    case = {'engine': engine, 'L': L, 'orthogonal_to': excited, 'options': copy.deepcopy(opts)}
    p0 = ['up', 'down'] * (L // 2)
    ortho = None
    if excited:
        gs = MPS.from_product_state(M.lat.mps_sites(), p0, bc='finite')
        dmrg.TwoSiteDMRGEngine(gs, M, {'trunc_params': {'chi_max': 32, 'svd_min': 1e-12}, 'max_sweeps': 8, 'mixer': None}).run()
        ortho = [gs]
        p0 = ['up', 'down'] * (L // 2 - 1) + ['down', 'up']
    psi = MPS.from_product_state(M.lat.mps_sites(), p0, bc='finite')
    kw = {'orthogonal_to': ortho} if ortho else {}
    eng = getattr(dmrg, engine)(psi, M, copy.deepcopy(opts), **kw)
    saved = []

    def at_checkpoint(algorithm):
        saved.append((algorithm.psi.copy(), copy.deepcopy(algorithm.get_resume_data()), algorithm.sweeps))

    eng.checkpoint.connect(at_checkpoint)
    ctx.count('engine.runs')
    try:
        E_ref, psi_ref = eng.run()
        mixer_left_on = eng.mixer is not None
        for psi_c, rd, sw in saved:
            eng2 = getattr(dmrg, engine)(psi_c, M, copy.deepcopy(opts), resume_data=rd)
            E2, psi2 = eng2.resume_run()
            ctx.count('engine.resumes')
            if excited:
                ctx.count('engine.resumes_with_orthogonal_to')
            ov = abs(psi2.overlap(psi_ref))
            if opts['mixer']:
                continue  # (the mixer schedule restarts at a resume: the recorded finding of the simulation-level part)
            if not (abs(E2 - E_ref) <= 1e-8 * max(1.0, abs(E_ref))) or not (abs(ov - 1) <= 1e-6):
                ctx.violation('engine-resume:%s:result-differs%s' % (engine, ':orthogonal_to' if excited else ''),
                              'resumed after %d sweeps: E %r (uninterrupted %r), overlap with the uninterrupted final state %r' % (sw, E2, E_ref, ov), case)
                return
            if excited and not (abs(psi2.overlap(ortho[0])) <= 1e-6):
                ctx.violation('engine-resume:result-not-orthogonal-to-the-given-state', 'overlap %r' % abs(psi2.overlap(ortho[0])), case)
                return
    except Exception as e:
        tb = traceback.format_exc()
        if '/tenpy/' not in tb:
            raise
        ctx.violation('engine-resume:%s:raises-%s' % (engine, type(e).__name__), tb[-700:], case)
        return
    ctx.sig(('engine', engine, L, excited, opts['max_sweeps'], opts['trunc_params']['chi_max']), nontrivial=True)
    ctx.sample(case)


def case_second(ctx, i):
    """Second crash: the first crash left a partial output and the complete backup of checkpoint c; the run resumed from the backup is
    killed at each file-system call (on the two files) of its first save."""
    name = SCENARIOS[ctx.unit.get('scn', i % 2) * 2]  # dmrg2_pkl / tebd_pkl
    ref = reference(ctx, name)
    n = len(ref['ckpts'])
    j = (i - ctx.unit.get('lo', 0)) * 2 + ctx.unit.get('half', 0) if 'scn' in ctx.unit else i // 2
    c = 1 + (j // 30 + ctx.seed) % (n - 2)  # (the first save of the resumed run has 8-11 file-system calls on the two files)
    wd = tempfile.mkdtemp(prefix='s-', dir=ctx._root)
    ext = ref['ext']
    try:
        out_fn, bak_fn = os.path.join(wd, 'out' + ext), os.path.join(wd, 'out.backup' + ext)
        # two file sets a first interruption can leave:
        #   'partial': killed in the middle of the write of checkpoint c+1 -> partial output + complete backup; resume from the backup
        #   'clean'  : killed between two saves -> complete output of checkpoint c, no backup; resume from the output file
        #   'backup_only': killed right after the output was renamed to the backup name (or the partial output was deleted by the
        #                user) -> only the complete backup of checkpoint c; resume from the backup
        mode = 'partial' if j % 30 < 9 else ('clean' if j % 30 < 22 else 'backup_only')
        if mode == 'backup_only':
            shutil.copy(ref['ckpts'][c - 1], bak_fn)
            resume_fn = bak_fn
        elif mode == 'partial':
            shutil.copy(ref['ckpts'][c - 1], bak_fn)
            data = open(ref['ckpts'][c], 'rb').read()
            open(out_fn, 'wb').write(data[:len(data) // 2])
            resume_fn = bak_fn
        else:
            shutil.copy(ref['ckpts'][c - 1], out_fn)
            resume_fn = out_fn
        # crash points of the first save of the resumed run: trace it once per (scenario, c, mode) ...
        key = ('second', name, c, mode)
        if key not in ctx._refs:
            wt = tempfile.mkdtemp(prefix='st-', dir=ctx._root)
            o2, b2 = os.path.join(wt, 'out' + ext), os.path.join(wt, 'out.backup' + ext)
            if os.path.exists(bak_fn):
                shutil.copy(bak_fn, b2)
            if os.path.exists(out_fn):
                shutil.copy(out_fn, o2)
            log = os.path.join(wt, 'strace.log')
            rc, out, err = child(wt, 'resume', {'record': False, 'resume_from': o2 if mode == 'clean' else b2},
                                 strace={'paths': [o2, b2], 'log': log})
            if rc != 0:
                ctx.violation('second:resume-from-backup-fails', (out + err)[-900:], {'scenario': name, 'checkpoint': c})
                ctx._refs[key] = []
            else:
                # only the calls up to the end of the first save
                counts = collections.Counter()
                pts = []
                renamed = False
                for line in open(log):
                    m = re.match(r'^\d+\s+(\w+)\(', line)
                    if not m or 'resumed' in line:
                        continue
                    counts[m.group(1)] += 1
                    pts.append((m.group(1), counts[m.group(1)]))
                    if m.group(1) in ('rename', 'renameat', 'renameat2'):
                        renamed = True
                    if (renamed or mode == 'backup_only') and m.group(1) in ('unlink', 'unlinkat'):
                        break  # the unlink of the backup (after the rename, if there was an output file) ends the first save
                    if len(pts) >= 40:
                        break
                ctx._refs[key] = pts
            shutil.rmtree(wt, ignore_errors=True)
        pts = ctx._refs[key]
        if not pts:
            raise _Skip()
        sc, k = pts[{'partial': j % 30, 'clean': j % 30 - 9, 'backup_only': j % 30 - 22}[mode] % len(pts)]
        case = {'scenario': name, 'first_interruption_left': {'partial': 'partial output of checkpoint %d + complete backup of checkpoint %d' % (c + 1, c),
                                                               'clean': 'complete output of checkpoint %d, no backup' % c,
                                                               'backup_only': 'complete backup of checkpoint %d, no output file' % c}[mode],
                'resumed_from': os.path.basename(resume_fn),
                'syscall': sc, 'occurrence': k}
        ctx.count('second.mode.' + mode)
        rc, out, err = child(wd, 'resume', {'record': False, 'resume_from': resume_fn},
                             strace={'paths': [out_fn, bak_fn], 'log': os.path.join(wd, 'strace.log'), 'inject': (sc, k)})
        ctx.count('second.runs')
        if rc == 0:
            ctx.count('second.not_reached')
            return
        if rc is None:
            ctx.count('second.timeout')
            return
        ctx.count('second.killed')
        files = inspect_files(ctx, wd, ext, ref)
        valid = [v[1] for v in files.values() if v is not None and v[0] == 'valid']
        case['files'] = {kk: (list(v) if v else None) for kk, v in files.items()}
        case['saves_completed'] = n_saved(out)
        if not valid:
            if mode == 'backup_only':
                # (here the save procedure does not touch the backup before the new file is complete: nothing may destroy it)
                ctx.violation('crash-after-resume-from-backup-only:no-complete-results-file-left', 'resumed from the complete backup of '
                              'checkpoint %d (no output file); killed during the first save of the resumed run: %r' % (c, case['files']), case)
            elif mode == 'partial':
                ctx.violation('second-crash:no-complete-results-file-left', 'the only complete file (backup of checkpoint %d) was destroyed '
                              'before a new complete file existed: %r' % (c, case['files']), case)
            else:
                ctx.violation('crash-after-resume:no-complete-results-file-left', 'resumed from the complete output of checkpoint %d; killed '
                              'during the first save of the resumed run: %r' % (c, case['files']), case)
        elif max(valid) < c + n_saved(out):
            ctx.violation('second-crash:only-an-older-checkpoint-left', '%r' % case['files'], case)
        ctx.sig((name, 'second', mode, c, sc, k), nontrivial=True)
        ctx.count('second.crash_points.' + mode)
        if j % 6 == 0:
            ctx.sample(case)
    finally:
        shutil.rmtree(wd, ignore_errors=True)
