"""C19 — lattice geometry: index maps are bijections and couplings are enumerated exactly (integer brute force)."""
import itertools
import traceback
import warnings

import numpy as np

from vf.runner import shard

PROP = 'C19'
LEVEL = 'exploration'
RULE = ('every lattice class found by reflection (Chain, Ladder, NLegLadder, Square, Triangular, Honeycomb, Kagome, generic '
        'Lattice with random unit cell, MultiSpeciesLattice, IrregularLattice with random removed/added sites, '
        'HelicalLattice) x sizes up to 4x4 cells x every named ordering + random custom orders x all combinations of '
        'open/periodic/shifted bc x finite/infinite MPS; for each lattice ALL displacement vectors |dx_a| <= Ls[a] and all '
        '(u1,u2) are compared with an integer brute-force enumeration of existing site pairs (multiset equality, one '
        'representative per translation class for infinite MPS); index maps are round-tripped on [-2N, 3N). '
        'non-trivial = lattice with >=2 dimensions or >=2 sites per cell; distinct = (class, Ls, order, bc, bc_MPS) signature'
        ' Also: MultiSpeciesLattice over multi-site unit cells, helical lattices over all displacements in both branches incl. multi-couplings and the enlarged unit cell, displaced multi-coupling boxes and lat_indices, two-axis mps2lat_values_masked.')
ASSUMPTIONS = ['`lat.order` (the array defining the snake) is taken as the definition of the MPS index of a site',
               'Euclidean distances from lat.position() with tolerance 1e-8']
ANCHORS = {'tenpy/models/lattice.py': ['*']}
REQUIRED_COUNTERS = {'multispecies.multi_site_simple_cell': 3, 'helical.multi_couplings': 10, 'helical.enlarged': 3, 'lattices': 50, 'couplings.dx_checked': 2000, 'pairs.checked': 30, 'irregular.lattices': 5,
                     'multi_couplings.checked': 20, 'values.checked': 30, 'helical.lattices': 3, 'multispecies.lattices': 3}
REQUIRED_ANCHORS = ['lattice.py:Lattice.possible_couplings', 'lattice.py:Lattice.possible_multi_couplings',
                    'lattice.py:Lattice.mps2lat_idx', 'lattice.py:Lattice.lat2mps_idx', 'lattice.py:Lattice.mps2lat_values',
                    'lattice.py:IrregularLattice._keep_possible_couplings', 'lattice.py:Lattice.find_coupling_pairs']


def plan(tier, seed, jobs):
    q = tier == 'quick'
    return shard('compiled', 330 if q else 8000, 15, timeout=3000, time_budget=70 if q else 1500)


def worker_init(ctx):
    warnings.simplefilter('ignore')
    from tenpy.models import lattice as L
    import inspect
    found = sorted(n for n, c in vars(L).items() if inspect.isclass(c) and issubclass(c, L.Lattice))
    ctx.lattice_classes = found
    known = {'Lattice', 'TrivialLattice', 'SimpleLattice', 'MultiSpeciesLattice', 'IrregularLattice', 'HelicalLattice',
             'Chain', 'Ladder', 'NLegLadder', 'Square', 'Triangular', 'Honeycomb', 'Kagome'}
    for n in found:
        if n not in known:
            ctx.note('lattice class without factory: ' + n)
            ctx.count('classes_without_factory')
    ctx.count('classes_discovered', len(found))


KINDS = ['Chain', 'Ladder', 'NLegLadder', 'Square', 'Triangular', 'Honeycomb', 'Kagome', 'Lattice', 'Irregular', 'MultiSpecies',
         'Helical', 'Square', 'Lattice', 'Irregular', 'TrivialLattice', 'SimpleLattice']


def make_lattice(ctx, rng, kind):
    from tenpy.models import lattice as L
    from tenpy.networks.site import SpinHalfSite, FermionSite
    s = SpinHalfSite(conserve=None)
    f = FermionSite(conserve=None)
    bc_MPS = str(rng.choice(['finite', 'infinite']))
    desc = {'kind': kind, 'bc_MPS': bc_MPS}

    def bc_for(dim):
        bc = []
        for a in range(dim):
            if a == 0:
                bc.append('periodic' if bc_MPS == 'infinite' else str(rng.choice(['open', 'periodic'])))
            else:
                r = rng.random()
                # a shifted boundary tilts along direction 0: only meaningful (and used) when direction 0 is periodic
                if bc[0] == 'periodic':
                    bc.append('open' if r < 0.4 else ('periodic' if r < 0.75 else int(rng.integers(-2, 3))))
                else:
                    bc.append('open' if r < 0.5 else 'periodic')
        return bc

    def order_for(names):
        return str(rng.choice(names))

    kw = {'bc_MPS': bc_MPS}
    if kind == 'Chain':
        Lx = int(rng.integers(2, 7))
        kw.update(bc=bc_for(1), order=order_for(['default', 'folded']))
        lat = L.Chain(Lx, s, **kw)
    elif kind == 'Ladder':
        kw.update(bc=bc_for(1), order=order_for(['default', 'folded']))
        lat = L.Ladder(int(rng.integers(2, 6)), [s, f], **kw)
    elif kind == 'NLegLadder':
        kw.update(bc=bc_for(1), order=order_for(['default', 'folded']))
        lat = L.NLegLadder(int(rng.integers(2, 5)), int(rng.integers(2, 5)), s, **kw)
    elif kind in ('Square', 'Triangular'):
        kw.update(bc=bc_for(2), order=order_for(['default', 'snake', 'Cstyle', 'Fstyle', 'snakeCstyle', 'snakeFstyle']))
        lat = getattr(L, kind)(int(rng.integers(2, 5)), int(rng.integers(1, 5)), s, **kw)
    elif kind == 'Honeycomb':
        kw.update(bc=bc_for(2), order=order_for(['default', 'snake', 'rings', 'Cstyle', 'snakeCstyle']))
        lat = L.Honeycomb(int(rng.integers(2, 4)), int(rng.integers(1, 4)), [s, f], **kw)
    elif kind == 'Kagome':
        kw.update(bc=bc_for(2), order=order_for(['default', 'snake', 'rings', 'Cstyle']))
        lat = L.Kagome(int(rng.integers(2, 4)), int(rng.integers(1, 3)), [s, f, s], **kw)
    elif kind == 'TrivialLattice':
        lat = L.TrivialLattice([s] * int(rng.integers(2, 6)), bc_MPS=bc_MPS, bc='periodic' if bc_MPS == 'infinite' else 'open')
    elif kind == 'SimpleLattice':
        dim = int(rng.integers(1, 4))
        Ls = [int(rng.integers(2, 4)) for _ in range(dim)]
        lat = L.SimpleLattice(Ls, s, bc=bc_for(dim), bc_MPS=bc_MPS, order=order_for(['default', 'snake', 'Cstyle', 'Fstyle']))
    elif kind in ('Lattice', 'Irregular', 'MultiSpecies', 'Helical'):
        dim = int(rng.integers(1, 3))
        Ls = [int(rng.integers(2, 5)) for _ in range(dim)]
        nu = int(rng.integers(1, 4))
        uc = [s, f, s][:nu]
        basis = np.eye(dim) + 0.3 * rng.standard_normal((dim, dim)) * (rng.random() < 0.5)
        positions = rng.uniform(0, 0.9, size=(nu, dim))
        if kind == 'Helical':
            bc_MPS = kw['bc_MPS'] = 'infinite'
            dim = 2
            Ls = [int(rng.integers(2, 4)), int(rng.integers(2, 4))]
            basis = np.eye(2)
            positions = rng.uniform(0, 0.9, size=(nu, dim))
        desc['bc_MPS'] = bc_MPS
        if kind == 'MultiSpecies':
            r = rng.random()
            if r < 0.35:
                simple = L.SimpleLattice(Ls, s, bc=bc_for(dim), bc_MPS=bc_MPS,
                                         order=order_for(['default', 'snake', 'Cstyle', 'Fstyle']))
            elif r < 0.7:
                # the "simple" lattice may have a unit cell of its own (documented: Honeycomb example)
                name = str(rng.choice(['Ladder', 'Honeycomb', 'Kagome', 'Square', 'Triangular']))
                if name == 'Ladder':
                    simple = L.Ladder(int(rng.integers(2, 5)), None, bc=bc_for(1), bc_MPS=bc_MPS)
                else:
                    simple = getattr(L, name)(int(rng.integers(2, 4)), int(rng.integers(1, 4)), None, bc=bc_for(2), bc_MPS=bc_MPS,
                                              order=order_for(['default', 'snake', 'Cstyle']))
                desc['simple'] = name
            else:
                simple = L.Lattice(Ls, uc, order=order_for(['default', 'snake', 'Cstyle', 'Fstyle']), bc=bc_for(dim), bc_MPS=bc_MPS,
                                   basis=basis, positions=positions,
                                   pairs={'nearest_neighbors': [(0, nu - 1, np.array([1] + [0] * (dim - 1)))],
                                          'custom': [(u, (u + 1) % nu, np.array([0] * (dim - 1) + [1])) for u in range(nu)]})
                desc['simple'] = 'Lattice(nu=%d)' % nu
            nsp = int(rng.integers(1, 4))
            names = None if rng.random() < 0.5 else ['a', 'b', 'c'][:nsp]
            lat = L.MultiSpeciesLattice(simple, [s, f, s][:nsp], names)
            desc['species'] = [nsp, names]
            ctx.count('multispecies.lattices')
        else:
            if kind == 'Helical':
                bc = ['periodic', 'periodic' if rng.random() < 0.7 else int(rng.integers(-1, 2))]
                bc = ['periodic', -1]  # required by HelicalLattice
            else:
                bc = bc_for(dim)
            order = order_for(['default', 'snake', 'Cstyle', 'Fstyle', 'snakeCstyle', 'snakeFstyle']) if kind != 'Helical' else 'Cstyle'
            lat = L.Lattice(Ls, uc, order=order, bc=bc, bc_MPS=bc_MPS, basis=basis, positions=positions)
            if rng.random() < 0.35 and kind != 'Helical':
                # custom order: random permutation of the sites (rings must stay contiguous for infinite MPS)
                o = lat.order.copy()
                if bc_MPS == 'finite':
                    o = o[rng.permutation(len(o))]
                else:
                    parts = []
                    for x0 in range(Ls[0]):
                        ring = o[o[:, 0] == x0]
                        parts.append(ring[rng.permutation(len(ring))])
                    o = np.concatenate(parts, axis=0)
                lat.order = o
                desc['custom_order'] = o.tolist()
            if kind == 'Irregular':
                n = lat.N_sites
                nrem = int(rng.integers(0, max(1, n // 3) + 1))
                rem_idx = rng.permutation(n)[:nrem]
                remove = lat.order[rem_idx] if nrem else None
                add = None
                add_uc = []
                if rng.random() < 0.5:
                    na = int(rng.integers(1, 3))
                    coords = [[int(rng.integers(Ls[a])) for a in range(dim)] + [nu] for _ in range(na)]
                    coords = [list(c) for c in set(map(tuple, coords))]
                    pos = [None if rng.random() < 0.4 else float(rng.uniform(-0.5, n - 0.5)) for _ in coords]
                    add = (np.array(coords), pos)
                    add_uc = [f]
                desc.update(remove=None if remove is None else np.asarray(remove).tolist(),
                            add=None if add is None else [add[0].tolist(), add[1]])
                if bc_MPS == 'infinite':
                    # removing sites must keep at least one site per ring... (N_sites_per_ring is not defined then): allowed
                    pass
                lat = L.IrregularLattice(lat, remove=remove, add=add, add_unit_cell=add_uc)
                ctx.count('irregular.lattices')
            if kind == 'Helical':
                lat = L.HelicalLattice(lat, int(rng.integers(1, 3)))
                ctx.count('helical.lattices')
    else:
        raise ValueError(kind)
    desc.update(Ls=[int(x) for x in lat.Ls], bc=[bool(b) for b in lat.bc], bc_shift=None if lat.bc_shift is None else [int(x) for x in lat.bc_shift],
                order=kw.get('order', desc.get('order', 'default')), N_sites=int(lat.N_sites), n_u=len(lat.unit_cell))
    return lat, desc


class Geometry:
    """Harness-owned integer model of the lattice: which sites exist and what their MPS index is."""

    def __init__(self, lat):
        self.Ls = [int(x) for x in lat.Ls]
        self.dim = len(self.Ls)
        self.bc_open = [bool(b) for b in lat.bc]
        self.bc_shift = None if lat.bc_shift is None else [int(x) for x in lat.bc_shift]
        self.infinite = lat.bc_MPS != 'finite'
        self.N = int(lat.N_sites)
        self.nu = len(lat.unit_cell)
        order = np.asarray(lat.order)
        self.index = {tuple(int(v) for v in row): i for i, row in enumerate(order)}
        self.order = order

    def target(self, x, dx):
        """Coordinates reached from cell x by displacement dx under the boundary conditions.

        Returns (cell y inside [0,Ls), number of wraps along direction 0) or None if the bond leaves an open boundary."""
        y = [int(a) + int(b) for a, b in zip(x, dx)]
        wraps0 = 0
        # directions >= 1 first (their wrap shifts x_0 by -w*bc_shift)
        for a in range(1, self.dim):
            w, r = divmod(y[a], self.Ls[a])
            if w != 0:
                if self.bc_open[a]:
                    return None
                if self.bc_shift is not None:
                    y[0] -= w * self.bc_shift[a - 1]
                y[a] = r
        w, r = divmod(y[0], self.Ls[0])
        if w != 0:
            if self.bc_open[0]:
                return None
            y[0] = r
            wraps0 = w
        return tuple(y), wraps0

    def couplings(self, u1, u2, dx):
        """Multiset (sorted list) of expected (i, j) pairs."""
        out = []
        for x in itertools.product(*[range(L) for L in self.Ls]):
            i = self.index.get(tuple(x) + (u1, ))
            if i is None:
                continue
            t = self.target(x, dx)
            if t is None:
                continue
            y, w0 = t
            j = self.index.get(tuple(y) + (u2, ))
            if j is None:
                continue
            if self.infinite:
                j = j + w0 * self.N
                m = min(i, j)
                s = (m % self.N) - m
                out.append((i + s, j + s, x))
            else:
                out.append((i, j, x))
        return out


def canon(pairs, N, infinite):
    res = []
    for i, j in pairs:
        i, j = int(i), int(j)
        if infinite:
            m = min(i, j)
            s = (m % N) - m
            i, j = i + s, j + s
        res.append((i, j))
    return sorted(res)


def run_case(ctx, i):
    rng = ctx.rng
    kind = KINDS[i % len(KINDS)]
    try:
        lat, desc = make_lattice(ctx, rng, kind)
    except Exception as e:
        tb = traceback.format_exc()
        if '/tenpy/' in tb and 'ValueError' not in type(e).__name__:
            ctx.violation('construct.%s:raises-%s' % (kind, type(e).__name__), tb[-600:], {'kind': kind})
        ctx.count('construct_failed')
        return
    case = desc
    ctx.count('lattices')
    ctx.count('lattice.' + kind)
    try:
        lat.test_sanity()
    except Exception as e:
        ctx.violation('%s:test_sanity-raises' % kind, repr(e)[:300], case)
    if kind == 'Helical':
        check_helical(ctx, lat, case)
    else:
        G = Geometry(lat)
        check_index_maps(ctx, lat, G, case)
        check_couplings(ctx, lat, G, case, rng)
        check_multi_couplings(ctx, lat, G, case, rng)
        check_values(ctx, lat, G, case, rng)
        if kind in ('Chain', 'Ladder', 'Square', 'Triangular', 'Honeycomb', 'Kagome'):
            check_pairs(ctx, lat, G, case, rng)
        if kind == 'MultiSpecies':
            check_multispecies(ctx, lat, case, rng)
    ctx.sig((kind, tuple(desc['Ls']), str(desc.get('order')), tuple(desc['bc']), str(desc['bc_shift']), desc['bc_MPS'],
             repr(desc.get('remove')), repr(desc.get('add')), 'custom_order' in desc), nontrivial=len(desc['Ls']) >= 2 or desc['n_u'] >= 2)
    if i % 60 == 0:
        ctx.sample({k: v for k, v in case.items() if k != 'custom_order'})


def check_index_maps(ctx, lat, G, case):
    N = G.N
    rng_i = range(-2 * N, 3 * N) if G.infinite else range(N)
    idx = np.array(list(rng_i))
    try:
        latidx = lat.mps2lat_idx(idx)
        back = lat.lat2mps_idx(latidx)
    except Exception as e:
        ctx.violation('index-maps:raises-%s' % type(e).__name__, traceback.format_exc()[-500:], case)
        return
    if not np.array_equal(np.asarray(back), idx):
        bad = idx[np.asarray(back) != idx][:5]
        ctx.violation('index-maps:lat2mps(mps2lat(i))!=i', 'for i in %r' % bad.tolist(), case)
    # against the order table (periodic extension)
    for i in rng_i:
        row = np.asarray(lat.mps2lat_idx(i))
        base = G.order[i % N]
        exp = base.copy()
        if G.infinite:
            cells0 = G.Ls[0]
            exp[0] = base[0] + (i - i % N) // N * cells0
        if not np.array_equal(row, exp):
            ctx.violation('mps2lat_idx:wrong', 'i=%d -> %r expected %r' % (i, row.tolist(), exp.tolist()), case)
            break
    # all lattice coordinates of existing sites map to distinct indices (bijection)
    coords = np.array(sorted(G.index))
    got = np.asarray(lat.lat2mps_idx(coords))
    exp = np.array([G.index[tuple(c)] for c in coords])
    if not np.array_equal(got, exp):
        ctx.violation('lat2mps_idx:wrong', 'coordinates -> %r expected %r' % (got[:8].tolist(), exp[:8].tolist()), case)
    for u in range(G.nu):
        exp = sorted(i for c, i in G.index.items() if c[-1] == u)
        try:
            got = sorted(np.asarray(lat.mps_idx_fix_u(u)).tolist())
        except Exception as e:
            ctx.violation('mps_idx_fix_u:raises', repr(e), case)
            break
        if got != exp:
            ctx.violation('mps_idx_fix_u:wrong', 'u=%d: %r expected %r' % (u, got, exp), case)
            break
    # mps_sites
    sites = lat.mps_sites()
    if len(sites) != N or any(sites[i] is not lat.unit_cell[G.order[i][-1]] for i in range(N)):
        ctx.violation('mps_sites:wrong', '', case)


def all_dx(G, rng, limit):
    ranges = [range(-L, L + 1) for L in G.Ls]
    dxs = list(itertools.product(*ranges))
    if len(dxs) > limit:
        sel = rng.permutation(len(dxs))[:limit]
        dxs = [dxs[k] for k in sel]
    return dxs


def check_couplings(ctx, lat, G, case, rng):
    limit = 40 if ctx.tier == 'quick' else 400
    for dx in all_dx(G, rng, limit):
        for u1 in range(G.nu):
            for u2 in range(G.nu):
                if all(d == 0 for d in dx) and u1 == u2:
                    continue
                exp = G.couplings(u1, u2, dx)
                try:
                    mi, mj, lat_indices, cshape = lat.possible_couplings(u1, u2, np.array(dx))
                except Exception as e:
                    ctx.violation('possible_couplings:raises-%s' % type(e).__name__, traceback.format_exc()[-500:],
                                  dict(case, u1=u1, u2=u2, dx=list(dx)))
                    return
                ctx.count('couplings.dx_checked')
                got = canon(zip(np.asarray(mi).tolist(), np.asarray(mj).tolist()), G.N, G.infinite)
                expp = sorted((a, b) for a, b, _ in exp)
                if got != expp:
                    missing = [p for p in expp if p not in got][:4]
                    extra = [p for p in got if p not in expp][:4]
                    dup = len(got) != len(set(got))
                    kind = 'duplicate' if dup and not missing else ('missing' if missing and not extra else ('extra' if extra and not missing else 'wrong'))
                    wrap = 'wrapping' if any(abs(d) > 0 for d in dx) and (G.infinite or not all(G.bc_open)) else 'open'
                    ctx.violation('possible_couplings:%s-pairs:%s' % (kind, wrap),
                                  'u1=%d u2=%d dx=%r: got %r expected %r (missing %r extra %r)' %
                                  (u1, u2, list(dx), got[:8], expp[:8], missing, extra), dict(case, u1=u1, u2=u2, dx=list(dx)))
                    return
                if G.infinite and len(got):
                    # documented: 0 <= min(i, j) < N_sites as returned (not only after canonicalisation)
                    raw = list(zip(np.asarray(mi).tolist(), np.asarray(mj).tolist()))
                    if any(not (0 <= min(a, b) < G.N) for a, b in raw):
                        ctx.violation('possible_couplings:not-in-first-unit-cell', 'pairs %r' % raw[:6],
                                      dict(case, u1=u1, u2=u2, dx=list(dx)))
                        return
                # lat_indices / strength assignment
                if len(got):
                    li = np.asarray(lat_indices)
                    if np.any(li < 0) or np.any(li >= np.array(cshape)[None, :]):
                        ctx.violation('possible_couplings:lat_indices-outside-coupling_shape', '', dict(case, u1=u1, u2=u2, dx=list(dx)))
                        return
                    exp_shape = tuple(L - abs(d) * int(o) for L, d, o in zip(G.Ls, dx, G.bc_open))
                    if tuple(cshape) != exp_shape:
                        ctx.violation('coupling_shape:wrong', '%r expected %r' % (tuple(cshape), exp_shape), dict(case, dx=list(dx)))
                        return
                    # unique-id strength: each coupling must get the strength of its lower-left corner
                    S = (np.arange(int(np.prod(cshape))) + 1.0).reshape(cshape)
                    try:
                        si, sj, sv = lat.possible_couplings(u1, u2, np.array(dx), strength=S)
                    except Exception as e:
                        ctx.violation('possible_couplings(strength):raises-%s' % type(e).__name__, traceback.format_exc()[-400:],
                                      dict(case, u1=u1, u2=u2, dx=list(dx)))
                        return
                    gotS = {}
                    for a, b, v in zip(np.asarray(si).tolist(), np.asarray(sj).tolist(), np.asarray(sv).tolist()):
                        gotS.setdefault(canon([(a, b)], G.N, G.infinite)[0], []).append(v)
                    expS = {}
                    for a, b, x in exp:
                        corner = tuple((xa + min(0, d)) % s for xa, d, s in zip(x, dx, cshape))
                        expS.setdefault((a, b), []).append(float(S[corner]))
                    if {k: sorted(v) for k, v in gotS.items()} != {k: sorted(v) for k, v in expS.items()}:
                        ctx.violation('possible_couplings:strength-assigned-to-wrong-coupling',
                                      'u1=%d u2=%d dx=%r' % (u1, u2, list(dx)), dict(case, u1=u1, u2=u2, dx=list(dx)))
                        return


def check_multi_couplings(ctx, lat, G, case, rng):
    for rep in range(3 if ctx.tier == 'quick' else 12):
        nops = int(rng.integers(2, 5))
        ops = []
        for k in range(nops):
            dx = [0] * G.dim if k == 0 else [int(rng.integers(-2, 3)) for _ in range(G.dim)]
            ops.append(('X', dx, int(rng.integers(G.nu))))
        if rng.random() < 0.4:
            # no operator at the origin: the whole box is displaced (all displacements positive / negative in some direction)
            off = [int(rng.integers(-2, 3)) for _ in range(G.dim)]
            ops = [(n_, [a_ + b_ for a_, b_ in zip(dx_, off)], u_) for n_, dx_, u_ in ops]
            ctx.count('multi_couplings.displaced_box')
        try:
            mps_ijkl, lat_indices, cshape = lat.possible_multi_couplings(ops)
        except Exception as e:
            ctx.violation('possible_multi_couplings:raises-%s' % type(e).__name__, traceback.format_exc()[-500:], dict(case, ops=ops))
            return
        ctx.count('multi_couplings.checked')
        # brute force: anchor cell x for operator 0; all operators must exist; box must not cross an open boundary
        exp = []
        dxs = np.array([o[1] for o in ops])
        # (anchors outside the lattice are fine in open directions as long as every operator lands inside)
        for x in itertools.product(*[range(-4, L + 4) if G.bc_open[a] else range(L) for a, L in enumerate(G.Ls)]):
            row, ok = [], True
            # the whole box (all operators relative to the lower-left corner) must be placeable: tenpy enumerates
            # positions of the lower-left corner; operator k sits at corner + dx_k - min(dx)
            for (name, dx, u) in ops:
                t = G.target(x, dx)
                if t is None:
                    ok = False
                    break
                y, w0 = t
                j = G.index.get(tuple(y) + (u, ))
                if j is None:
                    ok = False
                    break
                row.append(j + (w0 * G.N if G.infinite else 0))
            if not ok:
                continue
            # open directions: the box spanned by all dx must fit (operators relative to each other)
            fits = True
            for a in range(G.dim):
                if G.bc_open[a]:
                    lo, hi = x[a] + dxs[:, a].min(), x[a] + dxs[:, a].max()
                    if lo < 0 or hi >= G.Ls[a]:
                        fits = False
            if not fits:
                continue
            if G.infinite:
                m = min(row)
                s = (m % G.N) - m
                row = [r + s for r in row]
            exp.append(tuple(row))
        got = []
        for r in np.asarray(mps_ijkl).reshape(-1, nops).tolist():
            if G.infinite:
                m = min(r)
                s = (m % G.N) - m
                r = [v + s for v in r]
            got.append(tuple(int(v) for v in r))
        if sorted(got) != sorted(exp):
            ctx.violation('possible_multi_couplings:wrong-set', 'ops %r: got %r expected %r' % (ops, sorted(got)[:6], sorted(exp)[:6]),
                          dict(case, ops=ops))
            return
        # lat_indices: position of the lower-left corner of the box (where a site-dependent strength is read), inside coupling_shape
        mins = dxs.min(axis=0)
        if lat.bc_shift is not None or type(lat).__name__ in ('IrregularLattice', 'HelicalLattice'):
            continue  # (a shifted boundary moves the box when it wraps: the corner is not a plain difference of coordinates)
        if not got:
            continue
        for r, li in zip(np.asarray(mps_ijkl).reshape(-1, nops).tolist(), np.asarray(lat_indices).reshape(len(got), -1).tolist()):
            pos0 = np.asarray(lat.mps2lat_idx(int(r[0])))[:G.dim]
            corner = pos0 - dxs[0] + mins
            for a in range(G.dim):
                want = int(corner[a]) if G.bc_open[a] else int(corner[a]) % int(G.Ls[a])
                if int(li[a]) != want or not (0 <= int(li[a]) < int(cshape[a])):
                    ctx.violation('possible_multi_couplings:lat_indices', 'ops %r: coupling %r has lat_indices %r, corner of its box %r, coupling_shape %r' %
                                  (ops, r, li, [int(c) for c in corner], list(map(int, cshape))), dict(case, ops=ops))
                    return
        ctx.count('multi_couplings.lat_indices_checked')


def check_values(ctx, lat, G, case, rng):
    from tenpy.models.lattice import IrregularLattice
    N = G.N
    A = np.arange(N) + 100.0
    ctx.count('values.checked')
    try:
        if isinstance(lat, IrregularLattice):
            res = lat.mps2lat_values_masked(A)
            for c, i in G.index.items():
                if c[-1] >= res.shape[-1] if res.ndim == G.dim + 1 else False:
                    continue
                v = res[c] if res.ndim == G.dim + 1 else res[c[:-1]]
                if np.ma.is_masked(v) or float(v) != A[i]:
                    ctx.violation('mps2lat_values_masked:wrong-position', 'site %r (mps %d) holds %r' % (c, i, v), case)
                    return
            # entries without site must be masked
            if res.ndim == G.dim + 1:
                for c in itertools.product(*[range(s) for s in res.shape]):
                    if tuple(c) not in G.index and not np.ma.is_masked(res[c]):
                        ctx.violation('mps2lat_values_masked:unmasked-hole', 'coordinate %r' % (c, ), case)
                        return
        else:
            for u in (list(range(G.nu)) if G.nu > 1 else [None]):
                if u is None:
                    res = lat.mps2lat_values(A)
                    uu = 0
                else:
                    res = lat.mps2lat_values(A[lat.mps_idx_fix_u(u)], u=u)
                    uu = u
                res = np.asarray(res)
                if res.shape[:G.dim] != tuple(G.Ls):
                    ctx.violation('mps2lat_values:shape', '%r' % (res.shape, ), case)
                    return
                for x in itertools.product(*[range(L) for L in G.Ls]):
                    i = G.index[tuple(x) + (uu, )]
                    val = res[x]
                    if np.ndim(val) == 1:
                        val = val[uu if u is None else 0] if len(val) > 1 or u is None else val[0]
                    if float(val) != A[i]:
                        ctx.violation('mps2lat_values:wrong-position', 'cell %r u=%r holds %r expected %r' % (x, u, res[x], A[i]), case)
                        return
        if not isinstance(lat, IrregularLattice):
            check_values_two_axes(ctx, lat, G, case, rng)
    except Exception as e:
        ctx.violation('mps2lat_values:raises-%s' % type(e).__name__, traceback.format_exc()[-500:], case)


def check_values_two_axes(ctx, lat, G, case, rng):
    """mps2lat_values_masked over two axes at once, with different index sets per axis, given in any order of the axes."""
    N = G.N
    sets = []
    for _ in range(2):
        k = int(rng.integers(1, N + 1))
        sets.append(np.sort(rng.permutation(N)[:k]))
    inc = [bool(rng.random() < 0.5) if G.nu > 1 else bool(rng.random() < 0.3) for _ in range(2)]
    A = rng.integers(1, 1000, size=(len(sets[0]), 3, len(sets[1]))).astype(float)
    ax_of = [0, 2]  # axis of A that belongs to sets[0] / sets[1]
    order = [0, 1] if rng.random() < 0.5 else [1, 0]
    names = [[0, -3], [2, -1]]
    axes = [names[k][int(rng.integers(2))] for k in order]
    res = lat.mps2lat_values_masked(A, axes=axes, mps_inds=[sets[k] for k in order], include_u=[inc[k] for k in order])
    ctx.count('values.two_axes')
    if order == [1, 0]:
        ctx.count('values.two_axes_descending')
    nl = [G.dim + (1 if inc[k] else 0) for k in range(2)]
    exp_ndim = nl[0] + 1 + nl[1]
    if res.ndim != exp_ndim:
        ctx.violation('mps2lat_values_masked:two-axes:ndim', '%d expected %d' % (res.ndim, exp_ndim), dict(case, axes=axes))
        return
    shp = [tuple(int(x) for x in (lat.shape if inc[k] else lat.shape[:-1])) for k in range(2)]
    if tuple(res.shape) != shp[0] + (3, ) + shp[1]:
        ctx.violation('mps2lat_values_masked:two-axes:shape', 'axes %r: %r expected %r' % (axes, tuple(res.shape), shp[0] + (3, ) + shp[1]), dict(case, axes=axes))
        return
    n_set = 0
    for a, i in enumerate(sets[0].tolist()):
        li = [int(x) for x in lat.mps2lat_idx(i)]
        li = li if inc[0] else li[:-1]
        for b, j in enumerate(sets[1].tolist()):
            lj = [int(x) for x in lat.mps2lat_idx(j)]
            lj = lj if inc[1] else lj[:-1]
            for m in range(3):
                v = res[tuple(li) + (m, ) + tuple(lj)]
                # (without the u index several sites of one unit cell share a position: the last one written wins -- skip those)
                if (not inc[0] and G.nu > 1) or (not inc[1] and G.nu > 1):
                    continue
                n_set += 1
                if np.ma.is_masked(v) or float(v) != A[a, m, b]:
                    ctx.violation('mps2lat_values_masked:two-axes:wrong-position', 'axes %r: value of MPS sites (%d, %d) expected at %r x %r, found %r' %
                                  (axes, i, j, li, lj, v), dict(case, axes=axes))
                    return
    if n_set and int(np.sum(~np.ma.getmaskarray(res))) != n_set:
        ctx.violation('mps2lat_values_masked:two-axes:unmasked-count', '%d unmasked entries for %d values' % (int(np.sum(~np.ma.getmaskarray(res))), n_set),
                      dict(case, axes=axes))


def check_pairs(ctx, lat, G, case, rng):
    """Predefined neighbour lists vs Euclidean distances of the positions."""
    keys = [k for k in ('nearest_neighbors', 'next_nearest_neighbors', 'next_next_nearest_neighbors') if k in lat.pairs]
    R = 3
    basis = np.asarray(lat.basis)
    ucp = np.asarray(lat.unit_cell_positions)
    # all ordered (u1,u2,dx) with distances
    cand = []
    for u1 in range(G.nu):
        for u2 in range(G.nu):
            for dx in itertools.product(range(-R, R + 1), repeat=G.dim):
                if u1 == u2 and all(d == 0 for d in dx):
                    continue
                d = np.linalg.norm(ucp[u2] + np.array(dx) @ basis - ucp[u1])
                if d < 1e-9:
                    continue
                cand.append((round(float(d), 8), u1, u2, tuple(dx)))
    dists = sorted(set(c[0] for c in cand))
    if keys:
        ctx.count('pairs.checked')
    for k, key in enumerate(keys):
        if k >= len(dists):
            break
        exp = set((u1, u2, dx) for d, u1, u2, dx in cand if abs(d - dists[k]) < 1e-7)
        got = [(int(u1), int(u2), tuple(int(x) for x in np.asarray(dx).tolist())) for (u1, u2, dx) in lat.pairs[key]]
        if any(abs(abs(d - dists[k])) > 1e-6 for d in [np.linalg.norm(ucp[u2] + np.array(dx) @ basis - ucp[u1]) for u1, u2, dx in got]):
            ctx.violation('pairs.%s:wrong-distance' % key, 'pairs %r, expected distance %r' % (got, dists[k]), case)
            return
        both = set(got) | set((u2, u1, tuple(-x for x in dx)) for u1, u2, dx in got)
        if both != exp:
            ctx.violation('pairs.%s:incomplete' % key, 'got %r (+reversed) expected %r' % (sorted(got), sorted(exp)), case)
            return
        if len(set(got)) != len(got) or any((u2, u1, tuple(-x for x in dx)) in set(got) and (u1, u2, dx) != (u2, u1, tuple(-x for x in dx))
                                              for u1, u2, dx in got):
            ctx.violation('pairs.%s:double-counting' % key, '%r' % (got, ), case)
            return
        # count_neighbors
        for u in range(G.nu):
            exp_n = sum(1 for (a, b, dx) in exp if a == u)
            try:
                n = lat.count_neighbors(u, key)
            except Exception as e:
                ctx.violation('count_neighbors:raises', repr(e), case)
                return
            if n != exp_n:
                ctx.violation('count_neighbors:wrong', 'u=%d key=%s: %d expected %d' % (u, key, n, exp_n), case)
                return
    # find_coupling_pairs against the same brute force
    try:
        found = lat.find_coupling_pairs(max_dx=R, cutoff=None)
    except Exception as e:
        ctx.violation('find_coupling_pairs:raises-%s' % type(e).__name__, traceback.format_exc()[-400:], case)
        return
    fd = sorted(found)
    for k, dist in enumerate(fd[:3]):
        if k >= len(dists):
            break
        if not (abs(dist - dists[k]) <= 1e-6):
            ctx.violation('find_coupling_pairs:distance', 'distance #%d = %r expected %r' % (k, dist, dists[k]), case)
            return
        got = [(int(u1), int(u2), tuple(int(x) for x in np.asarray(dx).tolist())) for (u1, u2, dx) in found[dist]]
        exp = set((u1, u2, dx) for d, u1, u2, dx in cand if abs(d - dists[k]) < 1e-7)
        both = set(got) | set((u2, u1, tuple(-x for x in dx)) for u1, u2, dx in got)
        if both != exp or len(set(got)) != len(got):
            ctx.violation('find_coupling_pairs:wrong-set', 'distance %r: got %r expected (up to reversal) %r' % (dist, sorted(got), sorted(exp)), case)
            return
    # distance()
    d, u1, u2, dx = cand[int(rng.integers(len(cand)))]
    try:
        if not (abs(float(lat.distance(u1, u2, np.array(dx))) - d) <= 1e-6):
            ctx.violation('distance:wrong', '', case)
    except Exception as e:
        ctx.violation('distance:raises', repr(e), case)


def check_multispecies(ctx, lat, case, rng):
    """A MultiSpeciesLattice is its simple lattice with every site replaced by the species, all at the position of that site."""
    sl = lat.simple_lattice
    nsp = lat.N_species
    names = lat.species_names
    slu = len(sl.unit_cell)
    ctx.count('multispecies.checked')
    if slu > 1:
        ctx.count('multispecies.multi_site_simple_cell')
    if len(lat.unit_cell) != slu * nsp or lat.simple_Lu != slu:
        ctx.violation('multispecies:unit-cell-size', '%d != %d * %d' % (len(lat.unit_cell), slu, nsp), case)
        return
    # u <-> (simple u, species) maps
    for u in range(slu * nsp):
        su, sp = int(lat.self_u_to_simple_u(u)), int(lat.self_u_to_species_idx(u)) if hasattr(lat, 'self_u_to_species_idx') else u % nsp
        if (su, sp) != (u // nsp, u % nsp) or int(lat.simple_u_to_species_u(su, sp)) != u:
            ctx.violation('multispecies:u-maps', 'u=%d -> simple %d species %d' % (u, su, sp), case)
            return
    # positions: every species sits where the simple site sits
    ucp = np.asarray(lat.unit_cell_positions)
    sucp = np.asarray(sl.unit_cell_positions)
    for u in range(slu * nsp):
        if not np.allclose(ucp[u], sucp[u // nsp], atol=1e-12):
            ctx.violation('multispecies:unit_cell_positions', 'u=%d at %r, simple site %d at %r' % (u, ucp[u].tolist(), u // nsp, sucp[u // nsp].tolist()), case)
            return
    for k in range(min(lat.N_sites, 12)):
        idx = np.array(lat.order[int(rng.integers(lat.N_sites))])
        sidx = idx.copy()
        sidx[-1] = idx[-1] // nsp
        if not np.allclose(lat.position(idx), sl.position(sidx), atol=1e-12):
            ctx.violation('multispecies:position', 'lattice index %r' % (idx.tolist(), ), case)
            return
    # order: the species of one simple site are neighbours in the MPS, in the order of the simple lattice
    # (the MultiSpeciesLattice is built with the *default* order name, not with the order the simple lattice happens to use)
    so = np.asarray(sl.ordering('default'))
    exp = np.repeat(so, nsp, axis=0)
    exp[:, -1] = exp[:, -1] * nsp + np.tile(np.arange(nsp), len(so))
    if not np.array_equal(np.asarray(lat.order), exp):
        ctx.violation('multispecies:order', 'order is not the simple order with species adjacent', case)
        return
    # pairs
    exp_pairs = {}

    def norm(lst):
        return sorted((int(a), int(b), tuple(int(x) for x in np.asarray(d).tolist())) for a, b, d in lst)

    for key, val in sl.pairs.items():
        allp, diag = [], []
        for i1, n1 in enumerate(names):
            for i2, n2 in enumerate(names):
                v = [(u1 * nsp + i1, u2 * nsp + i2, dx) for u1, u2, dx in val]
                exp_pairs['%s_%s-%s' % (key, n1, n2)] = v
                allp += v
                if i1 == i2:
                    diag += v
        exp_pairs[key + '_all-all'] = allp
        exp_pairs[key + '_diag'] = diag
    for i1, n1 in enumerate(names):
        for i2, n2 in enumerate(names):
            if i2 > i1:
                exp_pairs['onsite_%s-%s' % (n1, n2)] = [(u * nsp + i1, u * nsp + i2, [0] * sl.dim) for u in range(slu)]
    if set(exp_pairs) != set(lat.pairs):
        ctx.violation('multispecies:pair-keys', 'keys %r expected %r' % (sorted(lat.pairs), sorted(exp_pairs)), case)
        return
    for key in exp_pairs:
        if norm(lat.pairs[key]) != norm(exp_pairs[key]):
            ctx.violation('multispecies:pairs', 'key %r: %r expected %r' % (key, norm(lat.pairs[key])[:6], norm(exp_pairs[key])[:6]), case)
            return
    # distances of the pairs are those of the simple lattice (0 for onsite)
    for key, val in lat.pairs.items():
        for u1, u2, dx in val:
            d = float(lat.distance(u1, u2, np.asarray(dx)))
            ds = float(sl.distance(u1 // nsp, u2 // nsp, np.asarray(dx)))
            if not (abs(d - ds) <= 1e-9) or (key.startswith('onsite') and abs(d) > 1e-12):
                ctx.violation('multispecies:pair-distance', 'key %r (%d,%d,%r): distance %r, in the simple lattice %r' % (key, u1, u2, list(np.asarray(dx)), d, ds), case)
                return


def check_helical(ctx, lat, case):
    N = int(lat.N_sites)
    idx = np.arange(-2 * N, 3 * N)
    try:
        back = lat.lat2mps_idx(lat.mps2lat_idx(idx))
        if not np.array_equal(np.asarray(back), idx):
            ctx.violation('helical.index-maps:not-inverse', '', case)
        reg = lat.regular_lattice
        nu = len(lat.unit_cell)
        for u1 in range(nu):
            for u2 in range(nu):
                for dx in [(0, 1), (1, 0), (1, 1), (1, -1), (0, 2), (2, 0), (-1, 2)]:
                    if u1 == u2 and dx == (0, 0):
                        continue
                    mi, mj, li, cs = lat.possible_couplings(u1, u2, np.array(dx))
                    ctx.count('couplings.dx_checked')
                    mi, mj = np.asarray(mi), np.asarray(mj)
                    # one representative per translation class: as many couplings as sites with u1 in the helical unit cell
                    exp_n = sum(1 for i in range(N) if lat.mps2lat_idx(i)[-1] == u1)
                    if len(mi) != exp_n:
                        ctx.violation('helical.possible_couplings:count', 'u1=%d u2=%d dx=%r: %d couplings, expected %d' %
                                      (u1, u2, dx, len(mi), exp_n), case)
                        return
                    for a, b in zip(mi.tolist(), mj.tolist()):
                        la, lb = lat.mps2lat_idx(a), lat.mps2lat_idx(b)
                        if la[-1] != u1 or lb[-1] != u2:
                            ctx.violation('helical.possible_couplings:wrong-u', '', case)
                            return
                        # displacement in the helical geometry: y wraps into x
                        Ly = reg.Ls[1]
                        da = (lb[0] * Ly + lb[1]) - (la[0] * Ly + la[1])
                        if da != dx[0] * Ly + dx[1]:
                            ctx.violation('helical.possible_couplings:wrong-displacement',
                                          'pair (%d,%d): lattice %r -> %r for dx %r' % (a, b, la.tolist(), lb.tolist(), dx), case)
                            return
                        if not (0 <= min(a, b) < N):
                            ctx.violation('helical.possible_couplings:not-in-first-unit-cell', '', case)
                            return
        check_helical_more(ctx, lat, case)
    except Exception as e:
        ctx.violation('helical:raises-%s' % type(e).__name__, traceback.format_exc()[-500:], case)


def check_helical_more(ctx, lat, case):
    """All displacements (both signs), both branches (with and without strength), multi-couplings, enlarged unit cell."""
    rng = ctx.rng
    reg = lat.regular_lattice
    Ly = int(reg.Ls[1])
    nu = len(lat.unit_cell)

    def helical_pos(l):
        return int(l[0]) * Ly + int(l[1])

    def one_round(lat, tag):
        N = int(lat.N_sites)
        n_cells = N // nu
        dxs = [(int(a), int(b)) for a, b in rng.integers(-2, 3, size=(6, 2))]
        for dx in dxs:
            u1, u2 = int(rng.integers(nu)), int(rng.integers(nu))
            if u1 == u2 and dx == (0, 0):
                continue
            mi, mj, li, cs = lat.possible_couplings(u1, u2, np.array(dx))
            si, sj, sv = lat.possible_couplings(u1, u2, np.array(dx), 1.75)
            ctx.count('helical.both_branches')
            a = sorted(zip(np.asarray(mi).tolist(), np.asarray(mj).tolist()))
            b = sorted(zip(np.asarray(si).tolist(), np.asarray(sj).tolist()))
            if a != b:
                ctx.violation('helical.possible_couplings%s:with-and-without-strength-differ' % tag, 'u1=%d u2=%d dx=%r: %r vs %r' % (u1, u2, dx, a, b), case)
                return False
            if not np.allclose(np.asarray(sv), 1.75):
                ctx.violation('helical.possible_couplings%s:strength-values' % tag, repr(sv), case)
                return False
            if len(a) != n_cells or len(set(a)) != len(a):
                ctx.violation('helical.possible_couplings%s:count' % tag, 'u1=%d u2=%d dx=%r: %r, expected %d distinct' % (u1, u2, dx, a, n_cells), case)
                return False
            for i, j in a:
                la, lb = lat.mps2lat_idx(i), lat.mps2lat_idx(j)
                if la[-1] != u1 or lb[-1] != u2 or helical_pos(lb) - helical_pos(la) != dx[0] * Ly + dx[1] or not (0 <= min(i, j) < N):
                    ctx.violation('helical.possible_couplings%s:wrong-pair' % tag, 'u1=%d u2=%d dx=%r: pair (%d, %d) = %r -> %r' %
                                  (u1, u2, dx, i, j, la.tolist(), lb.tolist()), case)
                    return False
        # multi-couplings
        for _ in range(3):
            k = int(rng.integers(2, 4))
            ops = [('Id', [int(x) for x in rng.integers(-1, 2, size=2)], int(rng.integers(nu))) for _ in range(k)]
            if len(set((tuple(o[1]), o[2]) for o in ops)) != k:
                continue
            ijk, li, cs = lat.possible_multi_couplings(ops)
            sijk, sv = lat.possible_multi_couplings(ops, 0.5)
            ctx.count('helical.multi_couplings')
            a = sorted(map(tuple, np.asarray(ijk).tolist()))
            b = sorted(map(tuple, np.asarray(sijk).tolist()))
            if a != b or not np.allclose(np.asarray(sv), 0.5):
                ctx.violation('helical.possible_multi_couplings%s:with-and-without-strength-differ' % tag, '%r: %r vs %r' % (ops, a, b), case)
                return False
            if len(a) != n_cells or len(set(a)) != len(a):
                ctx.violation('helical.possible_multi_couplings%s:count' % tag, '%r: %r, expected %d distinct' % (ops, a, n_cells), case)
                return False
            for tup in a:
                ls = [lat.mps2lat_idx(i) for i in tup]
                p0 = helical_pos(ls[0]) - (ops[0][1][0] * Ly + ops[0][1][1])
                ok = all(l[-1] == o[2] and helical_pos(l) - (o[1][0] * Ly + o[1][1]) == p0 for l, o in zip(ls, ops)) and 0 <= min(tup) < N
                if not ok:
                    ctx.violation('helical.possible_multi_couplings%s:wrong-tuple' % tag, '%r: %r = %r' % (ops, tup, [l.tolist() for l in ls]), case)
                    return False
        return True

    if not one_round(lat, ''):
        return
    # enlarged MPS unit cell (in place, on a copy): same geometry, more translation classes
    import copy
    big = copy.deepcopy(lat)
    f = int(rng.integers(2, 4))
    big.enlarge_mps_unit_cell(f)
    ctx.count('helical.enlarged')
    if big.N_sites != f * lat.N_sites:
        ctx.violation('helical.enlarge_mps_unit_cell:N_sites', '%d -> %d for factor %d' % (lat.N_sites, big.N_sites, f), case)
        return
    idx = np.arange(-big.N_sites, 2 * big.N_sites)
    if not np.array_equal(np.asarray(big.lat2mps_idx(big.mps2lat_idx(idx))), idx):
        ctx.violation('helical.enlarge_mps_unit_cell:index-maps-not-inverse', '', case)
        return
    # the helix is the same: site i of the enlarged lattice is site i of the original one (extended periodically)
    for i in range(0, big.N_sites):
        la, lb = lat.mps2lat_idx(i), big.mps2lat_idx(i)
        if la[-1] != lb[-1] or helical_pos(la) != int(lb[0]) * int(big.regular_lattice.Ls[1]) + int(lb[1]):
            ctx.violation('helical.enlarge_mps_unit_cell:site-moved', 'i=%d: %r -> %r' % (i, la.tolist(), lb.tolist()), case)
            return
    Ly = int(big.regular_lattice.Ls[1])
    one_round(big, ':enlarged')
