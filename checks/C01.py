"""C01 — block-sparse tensor algebra agrees with dense numpy algebra (dense shadow stepped with the program)."""
import warnings

from vf.runner import shard

PROP = 'C01'
LEVEL = 'exploration'
MONITORS = ('c01', )
RULE = ('case i = seeded random program (1..N public np_conserved ops) on random operands over random charge '
        'structures (0-3 charges, mod 1..5, both leg directions, blocked/sorted-dup/unsorted/dup-nonadjacent/single/'
        'empty legs, missing/zero/no blocks, 5 dtypes, rank 1-6, nonzero qtotal); after every step every touched '
        'tensor is compared with the numpy shadow (values, labels, leg charges, qtotal, dtype, charge rule). '
        'non-trivial = some leg has >=2 blocks and the program has >=2 ops; distinct = (charge-structure features, '
        'op multiset, dtype set) signature')
ASSUMPTIONS = ['numpy as ground truth for dense algebra', 'tolerance 1e-10 (float64/complex128), 3e-4 (float32/complex64)']
ANCHORS = {
    'tenpy/linalg/np_conserved.py': ['*'],
    'tenpy/linalg/charges.py': ['*'],
}
REQUIRED_COUNTERS = {'op.tensordot': 20, 'op.linear': 20, 'op.combine_legs': 20, 'op.split_legs': 10, 'op.getitem': 20,
                     'op.setitem': 10, 'op.concatenate': 5, 'op.trace': 10, 'op.inner': 10, 'op.conj': 10,
                     'op.transpose': 10, 'op.scale_axis': 5, 'op.permute': 5, 'op.sort_legcharge': 5,
                     'leg.unsorted': 20, 'leg.dup_nonadjacent': 20, 'leg.empty': 5, 'qtotal.nonzero': 20}
CONFIGS = {'quick': [('compiled', 2600, 13), ('pure', 600, 3)],
           'thorough': [('compiled', 60000, 10), ('pure', 24000, 6)]}
MAX_OPS = {'quick': 8, 'thorough': 20}


def plan(tier, seed, jobs):
    units = []
    for cfg, n, nsh in CONFIGS[tier]:
        units += shard(cfg, n, nsh, timeout=3000, time_budget=75 if tier == 'quick' else 1500)
    return units


def worker_init(ctx):
    warnings.simplefilter('ignore')


def run_program(ctx, i, monitors, weights=None, **kw):
    from vf.tprog import Prog
    P = Prog(ctx.rng, monitors=monitors, max_ops=MAX_OPS[ctx.tier], weights=weights, counters=ctx.counters, **kw)
    try:
        P.run()
    finally:
        ctx.count('monitor.compare_evals', P.n_cmp)
        ctx.count('monitor.invariant_evals', P.n_inv)
        ctx.count('monitor.fingerprints', P.n_fp)
    ops = [l[0] for l in P.log[1:]]
    case = {'program': P.log}
    for key, what in P.viol:
        ctx.violation(key, what, case)
    multi = any(k.startswith('leg:') and k not in ('leg:single', 'leg:empty') for k in P.features)
    ctx.sig((tuple(sorted(P.features)), tuple(sorted(ops)), tuple(P.mod)), nontrivial=multi and len(ops) >= 2)
    if i % 700 == 0:
        ctx.sample(case)
    return P


def run_case(ctx, i):
    run_program(ctx, i, MONITORS)
