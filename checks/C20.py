"""C20 — caches and event dispatch obey their sequential spec under any schedule.

Parts (unit['part']):
  events   : random connect/disconnect/emit histories against a list model
  seq      : random cache histories on every storage class (with/without real worker thread) vs dict model
  sched    : cache histories on ThreadedStorage with shimmed queue/threading under a deterministic scheduler:
             DFS over all schedules for short histories, random schedules for longer ones
  fault    : same, with a storage whose load/save/delete raises at the j-th call (Exception or BaseException)
  stress   : unshimmed real threads with yield injection (cross-check)
"""
import os
import sys
import time
import warnings
import tempfile
import shutil
import threading

import numpy as np

from vf.runner import shard

PROP = 'C20'
LEVEL = 'exploration'
RULE = ('histories are seeded random op sequences over a 3-key alphabet with uniquely tagged values; a case is '
        'non-trivial if it has >=1 overwrite or delete-then-read of a key, or >=2 listeners with a disconnect, '
        'or >=2 distinct schedules; distinct = distinct (part, storage, op sequence[, schedule]) signature'
        ' Also: hand-written motifs around loads in flight (two preloads of one key, delete / overwrite while loading) with random noise operations and many random schedules.')
ASSUMPTIONS = [
    'sync points of tenpy.tools.thread are exactly its queue/threading calls (shimmed); the worker runs atomically between them',
    'deleting a missing key and listeners mutating the handler during emit are unspecified',
]
ANCHORS = {
    'tenpy/tools/cache.py': ['*'],
    'tenpy/tools/thread.py': ['*'],
    'tenpy/tools/events.py': ['*'],
}
REQUIRED_ANCHORS = [
    'cache.py:DictCache.__delitem__', 'cache.py:DictCache.preload', 'cache.py:ThreadedStorage.load',
    'cache.py:ThreadedStorage.save', 'cache.py:Hdf5Storage.save', 'thread.py:Worker.run',
    'thread.py:Worker.join_tasks', 'events.py:EventHandler.disconnect', 'events.py:EventHandler.emit'
]
REQUIRED_COUNTERS = {'events.histories': 50, 'seq.histories': 50, 'sched.schedules': 200, 'fault.schedules': 50}

KEYS = ['a', 'b', 'c']


def plan(tier, seed, jobs):
    q = tier == 'quick'
    units = []
    units += shard('compiled', 1500 if q else 30000, 2 if q else 4, part='events', timeout=900)
    units += shard('compiled', 1200 if q else 20000, 6 if q else 8, part='seq', timeout=3000)
    units += shard('compiled', 160 if q else 2400, 4 if q else 8, part='sched', timeout=2400,
                   time_budget=40 if q else 900)
    units += shard('compiled', 300 if q else 4000, 3 if q else 6, part='fault', timeout=2400,
                   time_budget=40 if q else 900)
    units += shard('compiled', 60 if q else 1500, 3 if q else 6, part='stress', timeout=1500,
                   time_budget=30 if q else 600)
    return units


def worker_init(ctx):
    warnings.simplefilter('ignore')
    import logging
    logging.disable(logging.CRITICAL)


def run_case(ctx, i):
    part = ctx.unit['part']
    globals()['case_' + part](ctx, i)


# ==========================================================================================
# events
# ==========================================================================================
def _ev_global_listener(*args, **kwargs):
    _EV_LOG.append(('global', args, tuple(sorted(kwargs.items()))))
    return None


_EV_LOG = []


def case_events(ctx, i):
    from tenpy.tools.events import EventHandler
    rng = ctx.rng
    n_ops = int(rng.integers(3, 14))
    log = _EV_LOG
    del log[:]
    handlers = [EventHandler('x')]
    models = [[]]  # list of (id, name, priority, extra, seq) per handler
    counters = [0]
    seqs = [0]
    ops = []
    names = iter(range(1000))
    n_disc = 0

    def make_listener(name, ret=None):
        def f(*args, **kwargs):
            log.append((name, args, tuple(sorted(kwargs.items()))))
            return ret

        return f

    for step in range(n_ops):
        h = int(rng.integers(len(handlers)))
        H, M = handlers[h], models[h]
        r = rng.random()
        if r < 0.40 or not M:
            name = 'L%d' % next(names)
            prio = int(rng.integers(-2, 3))
            extra = None if rng.random() < 0.5 else {'tag': name}
            form = rng.choice(['call', 'decorator', 'decorator_args', 'by_name'], p=[0.55, 0.15, 0.2, 0.1])
            ret = None if rng.random() < 0.7 else name
            f = make_listener(name, ret)
            if form == 'call':
                res = H.connect(f, prio, extra)
                if res is not f:
                    ctx.violation('events.connect:returns-other', 'connect() did not return the callback', ops)
            elif form == 'decorator':
                prio, extra = 0, None
                res = H.connect(f)
            elif form == 'decorator_args':
                extra = None
                res = H.connect(priority=prio)(f)
                if res is not f:
                    ctx.violation('events.connect:decorator-returns-other', 'decorator did not return callback', ops)
            else:
                name, ret = 'global', None
                H.connect_by_name('checks.C20', '_ev_global_listener', extra, prio)
            lid = counters[h]
            counters[h] += 1
            try:
                got = H.id_of_last_connected
            except Exception as e:
                got = repr(e)
            if got != lid:
                ctx.violation('events.id_of_last_connected:wrong', 'expected %r got %r' % (lid, got), ops)
            M.append({'id': lid, 'name': name, 'prio': prio, 'extra': extra or {}, 'seq': seqs[0], 'ret': ret})
            seqs[0] += 1
            ops.append(['connect', h, form, name, prio, extra])
        elif r < 0.58:
            if rng.random() < 0.85:
                ent = M[int(rng.integers(len(M)))]
                lid = ent['id']
            else:
                lid = counters[h] + int(rng.integers(0, 3))  # unknown id
            with warnings.catch_warnings(record=True) as w:
                warnings.simplefilter('always')
                H.disconnect(lid)
            present = [e for e in M if e['id'] == lid]
            ops.append(['disconnect', h, lid])
            n_disc += 1
            if present:
                M.remove(present[0])
            else:
                ctx.count('events.disconnect_unknown')
                if not w:
                    ctx.violation('events.disconnect:no-warning-for-unknown-id', 'no warning for id %d' % lid, ops)
        elif r < 0.65:
            handlers.append(H.copy())
            models.append([dict(e) for e in M])
            counters.append(counters[h])
            ops.append(['copy', h])
        else:
            until = rng.random() < 0.3
            del log[:]
            args = (int(rng.integers(100)), )
            kwargs = {'kw': int(rng.integers(100))}
            if until:
                res = H.emit_until_result(*args, **kwargs)
            else:
                res = H.emit(*args, **kwargs)
            ops.append(['emit_until_result' if until else 'emit', h, args[0], kwargs['kw']])
            # model: stable sort by -priority, ties in connection order
            order = sorted(M, key=lambda e: (-e['prio'], e['seq']))
            exp_calls, exp_res = [], []
            for e in order:
                kw = dict(kwargs)
                kw.update(e['extra'])
                exp_calls.append((e['name'], args, tuple(sorted(kw.items()))))
                exp_res.append(e['ret'])
                if until and e['ret'] is not None:
                    break
            got_calls = list(log)
            if got_calls != exp_calls:
                kind = 'order' if sorted(map(repr, got_calls)) == sorted(map(repr, exp_calls)) else 'set'
                ctx.violation('events.emit:wrong-listener-%s' % kind,
                              'expected calls %r got %r' % (exp_calls, got_calls), ops)
                break
            if until:
                exp = next((x for x in exp_res if x is not None), None)
                if res != exp:
                    ctx.violation('events.emit_until_result:wrong-result', 'expected %r got %r' % (exp, res), ops)
            elif res != exp_res:
                ctx.violation('events.emit:wrong-results', 'expected %r got %r' % (exp_res, res), ops)
            ctx.count('events.emits')
    ctx.count('events.histories')
    ctx.sig(('events', tuple(map(repr, ops))), nontrivial=(n_disc > 0 and sum(len(m) for m in models) >= 1))
    if i % 500 == 0:
        ctx.sample({'part': 'events', 'ops': ops})


# ==========================================================================================
# cache histories
# ==========================================================================================
def gen_history(rng, n_ops, allow_sub=True, allow_close=True):
    ops = []
    ncache = 1
    vid = [0]
    for _ in range(n_ops):
        c = int(rng.integers(ncache))
        k = KEYS[int(rng.integers(len(KEYS)))]
        r = rng.random()
        if r < 0.30:
            vid[0] += 1
            ops.append(['set', c, k, vid[0]])
        elif r < 0.52:
            ops.append(['get', c, k])
        elif r < 0.58:
            ops.append(['getd', c, k])
        elif r < 0.68:
            ops.append(['del', c, k])
        elif r < 0.72:
            ops.append(['in', c, k])
        elif r < 0.75:
            ops.append(['len', c])
        elif r < 0.78:
            ops.append(['iter', c])
        elif r < 0.88:
            ks = [KEYS[j] for j in rng.permutation(len(KEYS))[:int(rng.integers(1, 3))]]
            ops.append(['preload', c, ks, bool(rng.random() < 0.2)])
        elif r < 0.95:
            ks = [KEYS[j] for j in rng.permutation(len(KEYS))[:int(rng.integers(0, 3))]]
            ops.append(['stk', c, ks])
        elif allow_sub and ncache < 3:
            ops.append(['sub', c, 'sub%d' % ncache])
            ncache += 1
        else:
            ops.append(['get', c, k])
    if allow_close:
        ops.append(['close'])
        ops.append(['get', 0, KEYS[0]])
        vid[0] += 1
        ops.append(['set', 0, KEYS[0], vid[0]])
    return ops


def make_value(vid):
    return {'id': int(vid), 'data': np.arange(vid % 4) + vid, 'tag': 'v%d' % vid}


def value_id(val):
    try:
        vid = int(val['id'])
        ok = val['tag'] == 'v%d' % vid and np.array_equal(np.asarray(val['data']), np.arange(vid % 4) + vid)
        return vid if ok else ('corrupt', repr(val)[:100])
    except Exception:
        return ('notvalue', repr(val)[:100])


_MISSING = object()


class HistoryRunner:
    """Executes a cache history against the real cache and a dict model; reports through `viol`."""

    def __init__(self, cache, viol, tag):
        self.caches = [cache]
        self.models = [{}]
        self.viol = viol
        self.tag = tag
        self.closed = False
        self.nontrivial = False
        self.written = [set()]
        self.deleted = [set()]
        self.current = None

    def step(self, op):
        kind = op[0]
        self.current = op
        if kind == 'close':
            self.caches[0].close()
            self.closed = True
            return
        c = op[1]
        cache, model = self.caches[c], self.models[c]
        if self.closed:
            # after close: reads/writes must raise, never return stale data
            try:
                if kind == 'get':
                    cache[op[2]]
                elif kind == 'set':
                    cache[op[2]] = make_value(op[3])
                else:
                    return
            except Exception:
                return
            if kind == 'get' or not self._trivial_after_close_ok(cache):
                self.viol('%s.%s-after-close:no-error' % (self.tag, kind), 'access after close() did not raise')
            return
        if kind == 'set':
            k, vid = op[2], op[3]
            if k in self.written[c]:
                self.nontrivial = True
            self.written[c].add(k)
            cache[k] = make_value(vid)
            model[k] = vid
        elif kind == 'get':
            k = op[2]
            if k in self.deleted[c]:
                self.nontrivial = True
            try:
                val = cache[k]
            except KeyError:
                if k in model:
                    self.viol('%s.get:keyerror-for-present-key' % self.tag, 'key %r present in model' % k)
                return
            if k not in model:
                self.viol('%s.get:returns-deleted-or-missing-key' % self.tag,
                          'cache[%r] returned %r but key is absent in model' % (k, value_id(val)))
            elif value_id(val) != model[k]:
                self.viol('%s.get:stale-or-wrong-value' % self.tag,
                          'cache[%r] returned %r, latest written %r' % (k, value_id(val), model[k]))
        elif kind == 'getd':
            k = op[2]
            val = cache.get(k, _MISSING)
            if k not in model:
                if val is not _MISSING:
                    self.viol('%s.get_default:returns-deleted-or-missing-key' % self.tag,
                              'cache.get(%r) returned %r, expected default' % (k, value_id(val)))
            elif val is _MISSING or value_id(val) != model[k]:
                self.viol('%s.get_default:stale-or-wrong-value' % self.tag,
                          'cache.get(%r) returned %r, latest written %r' %
                          (k, 'default' if val is _MISSING else value_id(val), model[k]))
        elif kind == 'del':
            k = op[2]
            try:
                del cache[k]
            except KeyError:
                if k in model:
                    self.viol('%s.del:keyerror-for-present-key' % self.tag, 'del cache[%r]' % k)
            if k in model:
                del model[k]
                self.deleted[c].add(k)
        elif kind == 'in':
            k = op[2]
            if (k in cache) != (k in model):
                self.viol('%s.contains:wrong' % self.tag, '%r in cache = %r, model %r' % (k, k in cache, k in model))
        elif kind == 'len':
            if len(cache) != len(model):
                self.viol('%s.len:wrong' % self.tag, 'len %d model %d' % (len(cache), len(model)))
        elif kind == 'iter':
            if sorted(cache) != sorted(model):
                self.viol('%s.iter:wrong' % self.tag, 'iter %r model %r' % (sorted(cache), sorted(model)))
        elif kind == 'preload':
            ks, rm = op[2], op[3]
            missing = [k for k in ks if k not in model]
            try:
                cache.preload(*ks, raise_missing=rm)
                if rm and missing:
                    self.viol('%s.preload:no-keyerror-for-missing' % self.tag, 'keys %r missing %r' % (ks, missing))
            except KeyError:
                if not (rm and missing):
                    self.viol('%s.preload:unexpected-keyerror' % self.tag, 'keys %r' % ks)
        elif kind == 'stk':
            cache.set_short_term_keys(*op[2])
        elif kind == 'sub':
            sub = cache.create_subcache(op[2])
            self.caches.append(sub)
            self.models.append({})
            self.written.append(set())
            self.deleted.append(set())

    def _trivial_after_close_ok(self, cache):
        return False

    def final_check(self):
        """At quiescence: every model key readable with latest value in every (sub)cache (isolation)."""
        if self.closed:
            return
        for c, (cache, model) in enumerate(zip(self.caches, self.models)):
            for k in KEYS:
                self.step(['get', c, k])
            self.step(['len', c])
            self.step(['iter', c])


STORAGES = [('Storage', False), ('PickleStorage', False), ('PickleStorage', True), ('Hdf5Storage', False),
            ('Hdf5Storage', True), ('_NumpyLike', False)]


def open_cache(storage_class, threaded, tmpdir, delete=True, max_queue_size=2):
    from tenpy.tools.cache import CacheFile
    kw = {}
    if storage_class == 'PickleStorage':
        kw['directory'] = os.path.join(tmpdir, 'pk')
    elif storage_class == 'Hdf5Storage':
        kw['filename'] = os.path.join(tmpdir, 'c.h5')
    cache = CacheFile.open(storage_class, use_threading=threaded, delete=delete, max_queue_size=max_queue_size, **kw)
    return cache, kw


def case_seq(ctx, i):
    rng = ctx.rng
    # threaded real-thread histories cost ~1 s each (the worker notices `exit` only after its 1 s queue timeout)
    sc, threaded = STORAGES[int(rng.choice(5, p=[0.22, 0.33, 0.06, 0.33, 0.06]))]
    delete = bool(rng.random() < 0.7)
    n_ops = int(rng.integers(4, 22))
    ops = gen_history(rng, n_ops)
    tmpdir = tempfile.mkdtemp(prefix='vfc20-')
    tag = 'cache'
    viols = []

    def viol(key, what):
        viols.append((key, what))

    try:
        cache, kw = open_cache(sc, threaded, tmpdir, delete, max_queue_size=int(rng.integers(1, 3)))
        hr = HistoryRunner(cache, viol, tag)
        step_i = -1
        try:
            for step_i, op in enumerate(ops):
                if op[0] == 'close':
                    hr.final_check()
                hr.step(op)
        except Exception as e:
            import traceback
            tb = traceback.extract_tb(e.__traceback__)
            where = next((f.name for f in reversed(tb) if 'tenpy' in f.filename), '?')
            viols.append(('%s.%s:raises-%s@%s' % (tag, hr.current[0], type(e).__name__, where),
                          'step %d %r raised %r' % (step_i, hr.current, e)))
            try:
                if not hr.closed:
                    cache.close()
            except Exception:
                pass
        # files removed iff delete
        path = kw.get('directory') or kw.get('filename')
        if path is not None and hr.closed:
            if delete and os.path.exists(path):
                viols.append(('%s.close:files-not-removed' % tag, '%s still exists with delete=True' % path))
            if not delete and not os.path.exists(path):
                viols.append(('%s.close:files-removed-without-delete' % tag, '%s removed' % path))
    finally:
        shutil.rmtree(tmpdir, ignore_errors=True)
    case = {'part': 'seq', 'storage': sc, 'threaded': threaded, 'delete': delete, 'ops': ops}
    for key, what in viols:
        ctx.violation(key, what, case)
    ctx.count('seq.histories')
    ctx.count('seq.%s%s' % (sc, '+thread' if threaded else ''))
    ctx.sig(('seq', sc, threaded, repr(ops)), nontrivial=hr.nontrivial)
    if i % 400 == 0:
        ctx.sample(case)


# ==========================================================================================
# deterministic schedules
# ==========================================================================================
class FaultInjected(Exception):
    pass


class FaultInjectedBase(BaseException):
    pass


def _mem_storage_class():
    from tenpy.tools.cache import Storage

    class MemStorage(Storage):
        """Harness-owned non-trivial storage (dict of pickled bytes) with optional fault injection."""
        trivial = False

        def __init__(self, fault=None):
            super().__init__()
            self.data = {}
            self.calls = 0
            self.fault = fault  # (call_index, 'exc'|'base')
            self.log = []

        @classmethod
        def open(cls, delete=None, fault=None):
            res = cls(fault)
            res._owns_resources = True
            return res

        def _tick(self, what, key):
            self.calls += 1
            self.log.append((what, key))
            if self.fault is not None and self.calls == self.fault[0]:
                if self.fault[1] == 'base':
                    raise FaultInjectedBase('injected at call %d (%s %s)' % (self.calls, what, key))
                raise FaultInjected('injected at call %d (%s %s)' % (self.calls, what, key))

        def subcontainer(self, name):
            res = MemStorage(self.fault)
            self._subcontainers.append(res)
            return res

        def load(self, key):
            if not self._opened:
                raise ValueError('closed')
            self._tick('load', key)
            import pickle
            return pickle.loads(self.data[key])

        def save(self, key, val):
            if not self._opened:
                raise ValueError('closed')
            self._tick('save', key)
            import pickle
            self.data[key] = pickle.dumps(val)

        def delete(self, key):
            if not self._opened:
                raise ValueError('closed')
            self._tick('delete', key)
            self.data.pop(key, None)

    return MemStorage


def run_schedule(ops, choices, rng=None, fault=None, backend='mem', credits=1, max_queue_size=2):
    """Run one history under one schedule.  Returns dict(viols, trace, deadlock, died)."""
    from vf import sched as S
    import tenpy.tools.thread as T
    from tenpy.tools.cache import CacheFile, ThreadedStorage
    sch = S.Scheduler(choices=choices, rng=rng, timeout_credits=credits)
    qmod, tmod = S.make_shims(sch)
    old = (T.queue, T.threading)
    T.queue, T.threading = qmod, tmod
    viols = []
    tmpdir = None
    died = False

    def viol(key, what):
        viols.append((key, what))

    hr = None
    try:
        if backend == 'mem':
            disk = _mem_storage_class().open(fault=fault)
        else:
            from tenpy.tools.cache import PickleStorage
            tmpdir = tempfile.mkdtemp(prefix='vfc20s-')
            disk = PickleStorage.open(directory=os.path.join(tmpdir, 'pk'))
        storage = ThreadedStorage.open(disk, max_queue_size=max_queue_size)
        cache = CacheFile(storage)
        hr = HistoryRunner(cache, viol, 'sched')
        step_i = -1
        try:
            for step_i, op in enumerate(ops):
                if op[0] == 'close':
                    hr.final_check()
                hr.step(op)
            if not hr.closed:
                hr.final_check()
                cache.close()
                hr.closed = True
        except S.Deadlock as e:
            viols.append(('%s.%s:deadlock' % ('fault' if fault else 'sched', hr.current[0] if hr.current else 'open'),
                          'step %d %r never returns: %s' % (step_i, hr.current, e)))
        except (FaultInjected, FaultInjectedBase):
            died = True  # error surfaced directly: acceptable ("surfaces as an error")
        except Exception as e:
            import traceback
            tb = traceback.extract_tb(e.__traceback__)
            where = next((f.name for f in reversed(tb) if 'tenpy' in f.filename), '?')
            if fault is None:
                viols.append(('sched.%s:raises-%s@%s' % (hr.current[0], type(e).__name__, where),
                              'step %d %r raised %r' % (step_i, hr.current, e)))
            else:
                died = True  # any error (WorkerDied, the storage error, ...) counts as "surfaces as an error"
        if died or viols:
            # close() must still return (no hang) after a failure
            if hr is not None and not hr.closed and not sch.aborting:
                try:
                    cache.close()
                except S._Abort:
                    pass
                except S.Deadlock as e:
                    viols.append(('sched.close-after-failure:deadlock', 'close() never returns: %s' % e))
                except Exception:
                    pass
    except S.Deadlock as e:
        viols.append(('sched.open:deadlock', str(e)))
    finally:
        T.queue, T.threading = old
        if not all(t['done'] for n, t in sch.threads.items() if n != 'M'):
            sch.abort()
        if tmpdir:
            shutil.rmtree(tmpdir, ignore_errors=True)
    return {'viols': viols, 'trace': sch.trace, 'deadlock': sch.deadlock, 'died': died, 'sync_points': sch.sync_points,
            'nontrivial': hr.nontrivial if hr else False}


def dfs_schedules(ops, max_schedules, ctx_stop, **kw):
    """Stateless DFS over all schedules of one history.  Yields results; returns exhaustive flag via list."""
    stack = [[]]
    n = 0
    exhaustive = True
    seen = set()
    while stack:
        if n >= max_schedules or ctx_stop():
            exhaustive = False
            break
        prefix = stack.pop()
        res = run_schedule(ops, prefix, **kw)
        n += 1
        tr = res['trace']
        key = tuple(k for _, k, _ in tr)
        if key in seen:
            continue
        seen.add(key)
        # children: at every choice point at or beyond len(prefix), alternatives not yet taken
        for pos in range(len(prefix), len(tr)):
            nopt, k, _ = tr[pos]
            for alt in range(k + 1, nopt):
                stack.append([c for _, c, _ in tr[:pos]] + [alt])
        yield res
    dfs_schedules.last_exhaustive = exhaustive


MOTIFS = [
    # (two loads of one key in flight, the first consumed by a read; later write + preload + read)
    [['set', 'k', 1], ['stk', []], ['preload', ['k']], ['preload', ['k']], ['get', 'k'], ['stk', []], ['set', 'k', 2], ['preload', ['k']], ['get', 'k']],
    [['set', 'k', 1], ['stk', []], ['preload', ['k']], ['preload', ['k']], ['get', 'k'], ['set', 'k', 2], ['get', 'k']],
    # (delete / overwrite while a load is in flight)
    [['set', 'k', 1], ['stk', []], ['preload', ['k']], ['del', 'k'], ['preload', ['k']], ['getd', 'k'], ['set', 'k', 2], ['get', 'k']],
    [['set', 'k', 1], ['stk', []], ['preload', ['k']], ['set', 'k', 2], ['get', 'k'], ['stk', []], ['preload', ['k']], ['get', 'k']],
    # (two keys: preload both, change the short-term keys in between)
    [['set', 'k', 1], ['set', 'm', 2], ['stk', []], ['preload', ['k', 'm']], ['stk', ['m']], ['get', 'k'], ['preload', ['k']], ['set', 'k', 3], ['get', 'k'], ['get', 'm']],
]


def gen_motif_history(rng):
    """One of the hand-written motifs around loads in flight, on random keys, with random other operations inserted."""
    motif = MOTIFS[int(rng.integers(len(MOTIFS)))]
    perm = [KEYS[j] for j in rng.permutation(len(KEYS))]
    name = {'k': perm[0], 'm': perm[1 % len(perm)]}
    ops, vid = [], [100]
    for op in motif:
        if rng.random() < 0.25:
            ops += gen_history(rng, 1, allow_sub=False, allow_close=False)
        kind = op[0]
        if kind == 'set':
            vid[0] += 1
            ops.append(['set', 0, name[op[1]], vid[0]])
        elif kind in ('get', 'getd', 'del', 'in'):
            ops.append([kind, 0, name[op[1]]])
        elif kind == 'preload':
            ops.append(['preload', 0, [name[x] for x in op[1]], False])
        elif kind == 'stk':
            ops.append(['stk', 0, [name[x] for x in op[1]]])
    # (value ids of inserted random operations may collide with nothing: they count from 1, the motif from 101)
    return ops


def case_sched(ctx, i):
    rng = ctx.rng
    mode = 'dfs' if i % 2 == 0 else 'random'
    if i % 5 == 4:
        mode = 'motif'
    backend = 'mem' if rng.random() < 0.85 else 'pickle'
    mqs = int(rng.integers(1, 3))
    if mode == 'dfs':
        n_ops = int(rng.integers(2, 5))
        ops = gen_history(rng, n_ops, allow_sub=(rng.random() < 0.2), allow_close=False)
        nsched = 0
        cap = 400 if ctx.tier == 'quick' else 3000
        for res in dfs_schedules(ops, cap, ctx.out_of_time, backend=backend, credits=1, max_queue_size=mqs):
            nsched += 1
            _report_sched(ctx, ops, res, 'sched', backend, mqs, None)
        ctx.count('sched.dfs_histories')
        if getattr(dfs_schedules, 'last_exhaustive', False):
            ctx.count('sched.dfs_histories_exhausted')
        ctx.count('sched.schedules', nsched)
        ctx.count('sched.max_schedules_per_history_bucket_%d' % (len(str(nsched))))
    elif mode == 'motif':
        ops = gen_motif_history(rng)
        ns = 60 if ctx.tier == 'quick' else 300
        for s_ in range(ns):
            res = run_schedule(ops, [], rng=np.random.default_rng([ctx.seed, i, s_, 7]), backend=backend, credits=int(rng.integers(1, 3)),
                               max_queue_size=mqs)
            _report_sched(ctx, ops, res, 'sched', backend, mqs, None)
        ctx.count('sched.motif_histories')
        ctx.count('sched.schedules', ns)
    else:
        n_ops = int(rng.integers(4, 16))
        ops = gen_history(rng, n_ops, allow_sub=True, allow_close=bool(rng.random() < 0.5))
        ns = 12 if ctx.tier == 'quick' else 40
        for s in range(ns):
            res = run_schedule(ops, [], rng=np.random.default_rng([ctx.seed, i, s]), backend=backend, credits=2,
                               max_queue_size=mqs)
            _report_sched(ctx, ops, res, 'sched', backend, mqs, None)
        ctx.count('sched.random_histories')
        ctx.count('sched.schedules', ns)
    if i % 40 == 0:
        ctx.sample({'part': 'sched', 'mode': mode, 'backend': backend, 'ops': ops,
                    'one_schedule': [l for _, _, l in res['trace']][:60]})


def _report_sched(ctx, ops, res, part, backend, mqs, fault):
    sched_key = tuple(k for _, k, _ in res['trace'])
    ctx.sig((part, backend, mqs, fault, repr(ops), sched_key), nontrivial=len(res['trace']) >= 4)
    ctx.count('%s.sync_points' % part, res['sync_points'])
    for key, what in res['viols']:
        ctx.violation(key, what, {'part': part, 'backend': backend, 'max_queue_size': mqs, 'fault': fault, 'ops': ops,
                                  'schedule_choices': list(sched_key),
                                  'schedule': [l for _, _, l in res['trace']][-80:]})


def case_fault(ctx, i):
    rng = ctx.rng
    n_ops = int(rng.integers(2, 9))
    ops = gen_history(rng, n_ops, allow_sub=False, allow_close=False)
    # make sure storage gets called: prepend a set
    ops = [['set', 0, 'a', 900 + i % 50]] + ops
    fault = (int(rng.integers(1, 6)), 'exc' if rng.random() < 0.7 else 'base')
    mqs = int(rng.integers(1, 3))
    ns = 6 if ctx.tier == 'quick' else 20
    if i % 3 == 0:
        n = 0
        for res in dfs_schedules(ops[:4], 150 if ctx.tier == 'quick' else 1500, ctx.out_of_time, fault=fault,
                                 credits=1, max_queue_size=mqs):
            n += 1
            _report_sched(ctx, ops[:4], res, 'fault', 'mem', mqs, fault)
            if res['died']:
                ctx.count('fault.died_surfaced')
        ctx.count('fault.schedules', n)
    else:
        for s in range(ns):
            res = run_schedule(ops, [], rng=np.random.default_rng([ctx.seed, i, s, 7]), fault=fault, credits=2,
                               max_queue_size=mqs)
            _report_sched(ctx, ops, res, 'fault', 'mem', mqs, fault)
            if res['died']:
                ctx.count('fault.died_surfaced')
        ctx.count('fault.schedules', ns)
    ctx.count('fault.histories')
    if i % 100 == 0:
        ctx.sample({'part': 'fault', 'fault': fault, 'ops': ops})


# ==========================================================================================
# real threads with yield injection
# ==========================================================================================
_yield_rng = None


def _install_yield_injection(seed):
    """sys.monitoring LINE callback in thread.py/cache.py doing sleep(0) with some probability."""
    import random
    mon = sys.monitoring
    TOOL = 3
    r = random.Random(seed)
    lock = threading.Lock()

    def line(code, lineno):
        fn = code.co_filename
        if not (fn.endswith('tools/thread.py') or fn.endswith('tools/cache.py')):
            return mon.DISABLE
        with lock:
            x = r.random()
        if x < 0.3:
            time.sleep(0)
        elif x < 0.32:
            time.sleep(0.0005)

    try:
        mon.use_tool_id(TOOL, 'vf-yield')
    except ValueError:
        return None
    mon.register_callback(TOOL, mon.events.LINE, line)
    mon.set_events(TOOL, mon.events.LINE)
    return TOOL


def _remove_yield_injection(tool):
    if tool is None:
        return
    mon = sys.monitoring
    mon.set_events(tool, 0)
    mon.register_callback(tool, mon.events.LINE, None)
    mon.free_tool_id(tool)


def case_stress(ctx, i):
    """Unshimmed run with real worker thread + yield injection; watchdog firing = inconclusive (note only)."""
    rng = ctx.rng
    sc = 'PickleStorage'
    n_ops = int(rng.integers(6, 25))
    ops = gen_history(rng, n_ops)
    tmpdir = tempfile.mkdtemp(prefix='vfc20t-')
    viols = []
    done = threading.Event()
    box = {}

    def body():
        try:
            cache, kw = open_cache(sc, True, tmpdir, True, max_queue_size=int(rng.integers(1, 3)))
            hr = HistoryRunner(cache, lambda k, w: viols.append((k, w)), 'stress')
            box['hr'] = hr
            si = -1
            try:
                for si, op in enumerate(ops):
                    if op[0] == 'close':
                        hr.final_check()
                    hr.step(op)
            except Exception as e:
                viols.append(('stress.%s:raises-%s' % (ops[si][0], type(e).__name__), 'step %d %r raised %r' %
                              (si, ops[si], e)))
                try:
                    if not hr.closed:
                        cache.close()
                except Exception:
                    pass
        finally:
            done.set()

    old = sys.getswitchinterval()
    sys.setswitchinterval(1e-5)
    tool = _install_yield_injection(int(rng.integers(1 << 30)))
    th = threading.Thread(target=body, daemon=True)
    th.start()
    finished = done.wait(60)
    _remove_yield_injection(tool)
    sys.setswitchinterval(old)
    shutil.rmtree(tmpdir, ignore_errors=True)
    case = {'part': 'stress', 'storage': sc, 'ops': ops}
    if not finished:
        ctx.note('stress watchdog fired (inconclusive) on case %d' % i)
        ctx.count('stress.watchdog')
        return
    for key, what in viols:
        ctx.violation(key, what, case)
    ctx.count('stress.histories')
    ctx.sig(('stress', repr(ops)), nontrivial=box.get('hr') is not None and box['hr'].nontrivial)
