"""C15 — truncation honours its constraints and reports its error exactly.

Parts: truncate (brute force over all cuts), terr (TruncationError algebra), svd_theta, eigh_rho, qr_based.
"""
import math
import warnings

import numpy as np

from vf.runner import shard

PROP = 'C15'
LEVEL = 'exploration'
RULE = ('seeded random spectra (random/degenerate/zeros/unnormalised/unsorted/dyadic-exact/length-1) x random option '
        'sets (None, absent, plain dict or Config); oracle enumerates all cuts; non-trivial = the oracle cut is >0 '
        'and <n-1 or at least two constraints are active; distinct = (family, n, option-pattern, cut) signature; '
        'matrix parts: distinct (charge structure, options, kept) signatures'
        ' Also: eigh_rho with UPLO and junk in the unused triangle.')
ASSUMPTIONS = [
    'constraint comparisons closer than 1e-9 relative (but not exactly equal) are skipped as ties (counted)',
    'defaults for absent options are those read by truncate(): chi_max=100, svd_min=1e-14, trunc_cut=1e-14',
]
ANCHORS = {'tenpy/linalg/truncation.py': ['*']}
REQUIRED_ANCHORS = ['truncation.py:truncate', 'truncation.py:_combine_constraints', 'truncation.py:svd_theta',
                    'truncation.py:eigh_rho', 'truncation.py:TruncationError.from_S',
                    'truncation.py:TruncationError.from_norm', 'truncation.py:TruncationError.__add__',
                    'truncation.py:decompose_theta_qr_based']
REQUIRED_COUNTERS = {'truncate.cases': 1000, 'truncate.constraint_dropped': 20, 'truncate.exact_tie_cases': 20,
                     'svd_theta.cases': 50, 'eigh_rho.cases': 50, 'terr.cases': 50, 'qr_based.cases': 10}


def plan(tier, seed, jobs):
    q = tier == 'quick'
    u = []
    u += shard('compiled', 24000 if q else 1000000, 8 if q else 12, part='truncate', timeout=3000)
    u += shard('compiled', 2000 if q else 50000, 1, part='terr', timeout=3000)
    u += shard('compiled', 1500 if q else 40000, 3 if q else 6, part='svd_theta', timeout=3000)
    u += shard('compiled', 1200 if q else 30000, 2 if q else 5, part='eigh_rho', timeout=3000)
    u += shard('compiled', 400 if q else 10000, 2 if q else 5, part='qr_based', timeout=3000)
    return u


def worker_init(ctx):
    warnings.simplefilter('ignore')


def run_case(ctx, i):
    globals()['case_' + ctx.unit['part']](ctx, i)


# ------------------------------------------------------------------------------------------------
FAMILIES = ['random', 'degenerate', 'zeros', 'unnormalized', 'dyadic', 'len1', 'geometric', 'cluster']


def gen_spectrum(rng):
    fam = str(rng.choice(FAMILIES, p=[0.2, 0.15, 0.1, 0.1, 0.2, 0.03, 0.1, 0.12]))
    n = 1 if fam == 'len1' else int(rng.integers(2, 13))
    if fam == 'dyadic':
        S = np.array([2.0**(-int(k)) for k in rng.integers(0, 6, size=n)])
    elif fam == 'geometric':
        S = float(rng.uniform(0.2, 0.9))**np.arange(n) * float(rng.uniform(0.5, 2))
    elif fam == 'cluster':
        base = np.sort(rng.uniform(0.05, 1, size=max(1, n // 3)))
        S = np.concatenate([b * (1 + rng.uniform(-1e-7, 1e-7, size=3)) for b in base])[:n]
    else:
        S = rng.uniform(0.0, 1.0, size=n)**2 + 1e-6
    if fam == 'degenerate':
        for _ in range(int(rng.integers(1, 4))):
            a, b = rng.integers(n, size=2)
            S[a] = S[b]
    if fam == 'zeros':
        S[rng.random(n) < 0.3] = 0.0
        if not np.any(S > 0):
            S[0] = 1.0
    if fam not in ('unnormalized', 'dyadic') and rng.random() < 0.8:
        S = S / np.linalg.norm(S)
    if rng.random() < 0.7:
        S = S[rng.permutation(len(S))]
    else:
        S = np.sort(S)[::-1].copy()
    return fam, np.ascontiguousarray(S, dtype=np.float64)


def gen_options(rng, S):
    n = len(S)
    Ssort = np.sort(S)
    opts = {}

    def maybe(key, gen, p_absent=0.25, p_none=0.2):
        r = rng.random()
        if r < p_absent:
            return
        if r < p_absent + p_none:
            opts[key] = None
            return
        opts[key] = gen()

    maybe('chi_max', lambda: int(rng.integers(1, n + 3)))
    maybe('chi_min', lambda: int(rng.integers(1, n + 3)), p_absent=0.4)
    maybe('degeneracy_tol', lambda: float(rng.choice([0., 1e-10, 1e-6, 1e-3, 0.1, 0.5, 1.0])), p_absent=0.4)

    def svd_min():
        r = rng.random()
        if r < 0.3:
            return float(Ssort[int(rng.integers(n))])  # exact tie with a spectrum value
        if r < 0.7 and n > 1:
            k = int(rng.integers(n - 1))
            return float(0.5 * (Ssort[k] + Ssort[k + 1]))
        return float(10.0**rng.uniform(-15, 0))

    maybe('svd_min', svd_min)

    def trunc_cut():
        r = rng.random()
        if r < 0.5:
            k = int(rng.integers(n))
            w = math.fsum(float(x)**2 for x in Ssort[:k + 1])
            tc = math.sqrt(w)
            if r < 0.25:
                tc = tc * float(rng.uniform(0.7, 1.3))
            return min(tc, 0.999)
        return float(10.0**rng.uniform(-15, -0.01))

    maybe('trunc_cut', trunc_cut)
    return opts


def model_truncate(S, opts):
    """Brute force over all cuts.  Returns (n_keep, info) or (None, reason) for ambiguous ties."""
    n = len(S)
    chi_max = opts.get('chi_max', 100)
    chi_min = opts.get('chi_min', None)
    deg_tol = opts.get('degeneracy_tol', None)
    svd_min = opts.get('svd_min', 1e-14)
    trunc_cut = opts.get('trunc_cut', 1e-14)
    Sr = np.where(S <= 0, 1e-100, S)
    order = np.argsort(Sr, kind='stable')
    Ss = Sr[order]
    So = S[order]
    good = [True] * n
    dropped = []
    active = 0
    exact_tie = False

    def fold(g2, name):
        nonlocal good, active
        res = [a and b for a, b in zip(good, g2)]
        if any(res):
            if res != good:
                active += 1
            good = res
        else:
            dropped.append(name)

    if chi_max is not None:
        fold([(n - cut) <= chi_max for cut in range(n)], 'chi_max')
    if chi_min is not None and chi_min > 1:
        fold([(n - cut) >= chi_min for cut in range(n)], 'chi_min')
    if deg_tol:
        g2 = [True]
        for cut in range(1, n):
            d = math.log(Ss[cut]) - math.log(Ss[cut - 1])
            if abs(d - deg_tol) < 1e-9 * max(1.0, abs(deg_tol)) and d != 0.0:
                return None, 'tie:deg_tol'
            g2.append(d >= deg_tol)
        fold(g2, 'degeneracy_tol')
    if svd_min is not None:
        g2 = []
        for cut in range(n):
            x = Ss[cut]
            if x != svd_min and abs(x - svd_min) <= 1e-9 * max(abs(svd_min), 1e-300):
                return None, 'tie:svd_min'
            if x == svd_min:
                exact_tie = True
            g2.append(x >= svd_min)
        fold(g2, 'svd_min')
    if trunc_cut is not None:
        g2 = []
        tc2 = trunc_cut * trunc_cut
        for cut in range(n):
            w = math.fsum(float(x) * float(x) for x in So[:cut + 1])
            if w != tc2 and abs(w - tc2) <= 1e-9 * max(tc2, 1e-300):
                return None, 'tie:trunc_cut'
            if w == tc2:
                # exact only if all arithmetic was exact (dyadic family); else ambiguous
                if not all(float(x).hex().rstrip('0').endswith(('p+0', '1.', 'x1.')) or
                           math.frexp(float(x))[0] == 0.5 or x == 0 for x in So[:cut + 1]):
                    return None, 'tie:trunc_cut_inexact'
                exact_tie = True
            g2.append(w > tc2)
        fold(g2, 'trunc_cut')
    cut = good.index(True)
    return n - cut, {'cut': cut, 'dropped': dropped, 'active': active, 'exact_tie': exact_tie}


def _as_options(rng, opts):
    from tenpy.tools.params import Config, asConfig
    r = rng.random()
    if r < 0.5:
        return dict(opts), 'dict'
    if r < 0.8:
        return Config(dict(opts), 'truncation'), 'Config'
    return asConfig(dict(opts), 'trunc'), 'asConfig'


def check_truncate_result(ctx, S, mask, norm_new, err, case, prefix='truncate'):
    ok = True
    mask = np.asarray(mask)
    if mask.dtype != np.bool_ or mask.shape != S.shape:
        ctx.violation(prefix + ':mask-not-bool-mask', 'mask dtype %s shape %s' % (mask.dtype, mask.shape), case)
        return False
    kept, disc = S[mask], S[~mask]
    if kept.size == 0:
        ctx.violation(prefix + ':keeps-nothing', 'empty mask', case)
        return False
    if disc.size and kept.min() < disc.max():
        ctx.violation(prefix + ':discards-larger-than-kept', 'min kept %r < max discarded %r' % (kept.min(), disc.max()),
                      case)
        ok = False
    nn = math.sqrt(math.fsum(float(x)**2 for x in kept))
    if not (abs(norm_new - nn) <= 1e-12 * max(nn, 1e-300)):
        ctx.violation(prefix + ':norm_new-wrong', 'norm_new %r vs |S[mask]| %r' % (norm_new, nn), case)
        ok = False
    eps = math.fsum(float(x)**2 for x in disc)
    if not (abs(err.eps - eps) <= 1e-12 * max(eps, 1e-300) + 0.0):
        ctx.violation(prefix + ':eps-not-discarded-weight', 'err.eps %r vs sum S[~mask]^2 %r' % (err.eps, eps), case)
        ok = False
    if not (abs(err.ov - (1 - 2 * eps)) <= 1e-12):
        ctx.violation(prefix + ':ov-wrong', 'err.ov %r vs 1-2eps %r' % (err.ov, 1 - 2 * eps), case)
        ok = False
    return ok


def case_truncate(ctx, i):
    from tenpy.linalg.truncation import truncate
    rng = ctx.rng
    fam, S = gen_spectrum(rng)
    opts = gen_options(rng, S)
    case = {'part': 'truncate', 'family': fam, 'S': [float(x).hex() for x in S], 'S_repr': [float(x) for x in S],
            'options': opts}
    S_before = S.copy()
    o, okind = _as_options(rng, opts)
    try:
        mask, norm_new, err = truncate(S, o)
    except Exception as e:
        ctx.violation('truncate:raises-%s' % type(e).__name__, repr(e), case)
        return
    if not np.array_equal(S, S_before):
        ctx.violation('truncate:mutates-input-spectrum', 'S changed', case)
    ctx.count('truncate.cases')
    ctx.count('truncate.opts_' + okind)
    check_truncate_result(ctx, S, mask, norm_new, err, case)
    nk, info = model_truncate(S, opts)
    if nk is None:
        ctx.count('truncate.skipped_' + info)
        return
    got = int(np.sum(mask))
    if got != nk:
        which = 'keeps-too-few' if got < nk else 'keeps-too-many'
        act = '+'.join(sorted(k for k in ('chi_max', 'chi_min', 'degeneracy_tol', 'svd_min', 'trunc_cut')
                              if opts.get(k, 'absent') not in (None, ))) or 'defaults'
        ctx.violation('truncate:%s' % which,
                      'kept %d, brute force over cuts gives %d (dropped constraints %r); options %r' %
                      (got, nk, info['dropped'], opts), case, active=act)
    if info['dropped']:
        ctx.count('truncate.constraint_dropped')
        for d in info['dropped']:
            ctx.count('truncate.dropped_' + d)
    if info['exact_tie']:
        ctx.count('truncate.exact_tie_cases')
    n = len(S)
    pattern = tuple(sorted((k, v is None) for k, v in opts.items()))
    ctx.sig(('truncate', fam, n, pattern, info['cut'], tuple(info['dropped'])),
            nontrivial=(0 < info['cut'] < n - 1) or info['active'] >= 2)
    if i % 5000 == 0:
        ctx.sample(case)


def case_terr(ctx, i):
    from tenpy.linalg.truncation import TruncationError
    rng = ctx.rng
    n = int(rng.integers(0, 6))
    Sd = rng.uniform(0, 0.3, size=n)
    no = float(rng.uniform(0.5, 2)) if rng.random() < 0.6 else None
    e = TruncationError.from_S(Sd, no)
    eps = math.fsum(x * x for x in Sd) / ((no * no) if no else 1.0)
    case = {'part': 'terr', 'S_discarded': Sd.tolist(), 'norm_old': no}
    if not (abs(e.eps - eps) <= 1e-14) or not (abs(e.ov - (1 - 2 * eps)) <= 1e-14):
        ctx.violation('TruncationError.from_S:wrong', 'eps %r ov %r expected %r' % (e.eps, e.ov, eps), case)
    nn, n0 = float(rng.uniform(0.1, 1)), float(rng.uniform(1, 2))
    if rng.random() < 0.5:
        e2 = TruncationError.from_norm(nn, n0)
        eps2 = 1 - nn**2 / n0**2
    else:
        e2 = TruncationError.from_norm(nn)
        eps2 = 1 - nn**2
    if not (abs(e2.eps - eps2) <= 1e-14) or not (abs(e2.ov - (1 - 2 * eps2)) <= 1e-14):
        ctx.violation('TruncationError.from_norm:wrong', 'eps %r ov %r expected %r' % (e2.eps, e2.ov, eps2), case)
    e_eps, e_ov, e2_eps, e2_ov = e.eps, e.ov, e2.eps, e2.ov
    s = e + e2
    if not (abs(s.eps - (e_eps + e2_eps)) <= 1e-14) or not (abs(s.ov - e_ov * e2_ov) <= 1e-14):
        ctx.violation('TruncationError.__add__:wrong', 'sum eps %r ov %r' % (s.eps, s.ov), case)
    if (e.eps, e.ov, e2.eps, e2.ov) != (e_eps, e_ov, e2_eps, e2_ov):
        ctx.violation('TruncationError.__add__:mutates-operand', 'operands changed by +', case)
    c = e.copy()
    c.eps += 1
    if e.eps != e_eps:
        ctx.violation('TruncationError.copy:aliases', 'copy shares state', case)
    if not (abs(s.ov_err - (1 - s.ov)) <= 1e-15):
        ctx.violation('TruncationError.ov_err:wrong', '', case)
    z = TruncationError()
    if z.eps != 0.0 or z.ov != 1.0:
        ctx.violation('TruncationError.default:not-zero', '', case)
    s3 = z + e
    if not (abs(s3.eps - e_eps) <= 1e-15) or not (abs(s3.ov - e_ov) <= 1e-15):
        ctx.violation('TruncationError.__add__:zero-not-neutral', '', case)
    ctx.count('terr.cases')
    ctx.sig(('terr', n, no is None), nontrivial=n > 0)
    if i % 1000 == 0:
        ctx.sample(case)


# ------------------------------------------------------------------------------------------------
def _rand_theta(rng, big=False):
    from vf import gen
    chinfo = gen.rand_chinfo(rng, max_q=2)
    kw = dict(max_blocks=4, max_bs=4)
    if big:
        kw = dict(max_blocks=3, max_bs=60, kind='blocked')
    l0, k0 = gen.rand_leg(rng, chinfo, **kw)
    if rng.random() < 0.6:
        l1, m = gen.partner_leg(rng, l0)
        k1 = 'partner-' + m
    else:
        l1, k1 = gen.rand_leg(rng, chinfo, **kw)
    if l0.ind_len == 0 or l1.ind_len == 0:
        return None
    dtype = str(rng.choice(['float64', 'complex128']))
    a, dense, qt, fill = gen.rand_array(rng, [l0, l1], dtype=dtype, labels=['vL', 'vR'],
                                        fill=str(rng.choice(['all', 'missing'], p=[0.8, 0.2])))
    if big:
        # one dominant singular value: add a huge rank-1 component inside one block
        if a.stored_blocks:
            blk = a._data[0]
            u = np.ones(blk.shape[0])[:, None] * np.ones(blk.shape[1])[None, :]
            blk += 1e8 * u
            dense = a.to_ndarray()
    return a, np.array(dense), (k0, k1, dtype, fill, [int(m) for m in chinfo.mod])


def _trunc_opts_for(rng, n):
    opts = {'chi_max': int(rng.integers(1, n + 2)) if rng.random() < 0.7 else None}
    if rng.random() < 0.4:
        opts['svd_min'] = float(10.0**rng.uniform(-12, -0.5))
    if rng.random() < 0.4:
        opts['trunc_cut'] = float(10.0**rng.uniform(-8, -0.3))
    if rng.random() < 0.3:
        opts['chi_min'] = int(rng.integers(1, n + 1))
    if rng.random() < 0.3:
        opts['degeneracy_tol'] = float(rng.choice([1e-8, 1e-3]))
    return opts


def case_svd_theta(ctx, i):
    from tenpy.linalg import np_conserved as npc
    from tenpy.linalg.truncation import svd_theta
    rng = ctx.rng
    big = (i % 40 == 7)
    r = _rand_theta(rng, big)
    if r is None:
        return
    theta, dense, sig = r
    n = min(dense.shape)
    nrm = np.linalg.norm(dense)
    if nrm < 1e-12:
        return
    opts = _trunc_opts_for(rng, n)
    if big:
        opts = {'chi_max': None if rng.random() < 0.5 else 3, 'svd_min': 1e-5}
    case = {'part': 'svd_theta', 'shape': list(dense.shape), 'structure': sig, 'options': opts, 'big': big}
    o, okind = _as_options(rng, opts)
    theta_before = theta.to_ndarray().copy()
    try:
        U, S, VH, err, renorm = svd_theta(theta, o)
    except Exception as e:
        import traceback
        ctx.violation('svd_theta:raises-%s' % type(e).__name__, traceback.format_exc()[-800:], case)
        return
    ctx.count('svd_theta.cases')
    if big:
        ctx.count('svd_theta.big_cases')
    if not np.array_equal(theta.to_ndarray(), theta_before):
        ctx.violation('svd_theta:mutates-theta', 'theta changed', case)
    Ud, Vd = U.to_ndarray(), VH.to_ndarray()
    k = len(S)
    if Ud.shape != (dense.shape[0], k) or Vd.shape != (k, dense.shape[1]):
        ctx.violation('svd_theta:shape-mismatch', 'U %s S %d VH %s' % (Ud.shape, k, Vd.shape), case)
        return
    if not (abs(np.linalg.norm(S) - 1) <= 1e-10):
        ctx.violation('svd_theta:S-not-normalised', '|S|=%r' % np.linalg.norm(S), case)
    tol = 1e-9 if not big else 1e-6
    if not (np.linalg.norm(Ud.conj().T @ Ud - np.eye(k)) <= tol) or not (np.linalg.norm(Vd @ Vd.conj().T - np.eye(k)) <= tol):
        ctx.violation('svd_theta:factors-not-isometric', '', case)
    recon = (Ud * (S * renorm)[None, :]) @ Vd
    err2 = np.linalg.norm(dense - recon)**2 / nrm**2
    # exact answer from dense SVD
    sv = np.linalg.svd(dense, compute_uv=False) / nrm
    if not (abs(err2 - err.eps) <= 1e-9 * max(1.0, 1.0)) and not (abs(err2 - err.eps) <= 1e-6 * max(err2, err.eps)):
        ctx.violation('svd_theta:reported-eps-not-reconstruction-error',
                      'relative squared reconstruction error %r, reported eps %r' % (err2, err.eps), case)
    # kept values are the largest singular values of theta
    Sk = np.sort(S * renorm / nrm)[::-1]
    if not (np.max(np.abs(Sk - sv[:k])) <= 1e-8):
        ctx.violation('svd_theta:kept-not-largest-singular-values', 'kept %r vs svd %r' % (Sk[:6], sv[:6]), case)
    # constraints via the model on the dense spectrum (skip ties)
    K = _sector_rank_bound(theta)
    svn = sv[:min(n, K)].copy()
    nk, info = model_truncate(svn, opts)
    if nk is not None:
        # the tensor code truncates its own (blockwise) spectrum; allow ties between nearly equal values
        gaps_ok = nk >= len(svn) or nk == 0 or abs(svn[nk - 1] - svn[nk]) > 1e-7 * max(svn[nk - 1], 1e-300)
        near = any(abs(svn[j] - opts[key]) < 1e-7 * max(opts[key], 1e-300) for key in ('svd_min', ) if opts.get(key)
                   for j in range(len(svn)))
        if gaps_ok and not near and k != nk and not _near_cut_tie(svn, opts):
            ctx.violation('svd_theta:%s' % ('keeps-too-few' if k < nk else 'keeps-too-many'),
                          'kept %d, model on dense singular values %d; options %r' % (k, nk, opts), case)
    # legs / labels
    try:
        U.get_leg('vR').test_contractible(VH.get_leg('vL'))
    except Exception as e:
        ctx.violation('svd_theta:inner-legs-not-contractible', repr(e), case)
    ctx.sig(('svd_theta', tuple(map(str, sig)), tuple(sorted(opts)), k, n), nontrivial=(k < n))
    if i % 700 == 0:
        ctx.sample(case)


def _sector_rank_bound(theta):
    """Number of singular values a block-diagonal SVD yields: sum over charge sectors of min(#rows, #cols)."""
    from vf import gen
    mod = [int(m) for m in theta.chinfo.mod]
    l0, l1 = theta.legs
    r = gen.mod_valid(l0.qconj * gen.leg_qflat(l0), mod)
    c = gen.mod_valid(np.asarray(theta.qtotal)[None, :] - l1.qconj * gen.leg_qflat(l1), mod)
    rows, cols = {}, {}
    for q in map(tuple, r):
        rows[q] = rows.get(q, 0) + 1
    for q in map(tuple, c):
        cols[q] = cols.get(q, 0) + 1
    # (a charge sector without any stored block contributes no singular values at all -- not even zeros)
    stored = set()
    for qi in np.asarray(theta._qdata)[:, 0].tolist():
        stored.add(tuple(gen.mod_valid(l0.qconj * np.asarray(l0.charges)[int(qi)][None, :], mod)[0].tolist()))
    return sum(min(n, cols.get(q, 0)) for q, n in rows.items() if q in stored)


def _near_cut_tie(sv, opts):
    """True if trunc_cut/deg_tol decision is numerically ambiguous for the dense spectrum."""
    tc = opts.get('trunc_cut', 1e-14)
    asc = np.sort(sv)
    if tc is not None:
        cs = np.cumsum(asc**2)
        if np.any(np.abs(cs - tc * tc) < 1e-7 * max(tc * tc, 1e-300)):
            return True
    dt = opts.get('degeneracy_tol')
    if dt:
        pos = asc[asc > 0]
        d = np.diff(np.log(pos))
        if np.any(np.abs(d - dt) < 1e-6):
            return True
        if len(pos) < len(asc):
            return True
    sm = opts.get('svd_min', 1e-14)
    if sm is not None and np.any(np.abs(asc - sm) < 1e-7 * sm):
        return True
    if np.any((asc < 1e-13) & (asc > 0)):
        return True
    return False


def case_eigh_rho(ctx, i):
    from tenpy.linalg import np_conserved as npc
    from tenpy.linalg.truncation import eigh_rho
    from vf import gen
    rng = ctx.rng
    chinfo = gen.rand_chinfo(rng, max_q=2)
    l0, k0 = gen.rand_leg(rng, chinfo, max_blocks=4, max_bs=3)
    if l0.ind_len == 0:
        return
    dtype = str(rng.choice(['float64', 'complex128']))
    # rho = A A^dagger with A charge-neutral => rho hermitian PSD, block diagonal
    A, Ad, _, _ = gen.rand_array(rng, [l0, l0.conj()], dtype=dtype, qtotal=np.zeros(chinfo.qnumber, dtype=np.int64),
                                 labels=['p', 'p*'], fill='all')
    rank_def = rng.random() < 0.3
    if rank_def and Ad.shape[0] > 1:
        Ad = Ad.copy()
        Ad[:, -1] = 0
    rho_d = Ad @ Ad.conj().T
    tr = np.trace(rho_d).real
    if tr < 1e-12:
        return
    # UPLO: only one triangle of the Hermitian matrix is read ('L' by default); the other one may hold anything
    uplo = str(rng.choice(['L', 'L', 'U']))
    stored = rho_d
    if rng.random() < 0.6:
        junk = rng.standard_normal(rho_d.shape) * 3.0
        mask_c = gen.charge_mask([gen.leg_qflat(l0), gen.leg_qflat(l0.conj())], [l0.qconj, -l0.qconj], np.zeros(chinfo.qnumber, dtype=np.int64),
                                 [int(m) for m in chinfo.mod]) if chinfo.qnumber else np.ones(rho_d.shape, bool)
        other_tri = np.triu(np.ones(rho_d.shape, bool), 1) if uplo == 'L' else np.tril(np.ones(rho_d.shape, bool), -1)
        stored = np.where(other_tri & mask_c, junk.astype(rho_d.dtype), rho_d)
        ctx.count('eigh_rho.only_one_triangle_valid')
    rho = npc.Array.from_ndarray(stored, [l0, l0.conj()], labels=['p', 'p*'], cutoff=0.)
    n = rho_d.shape[0]
    opts = _trunc_opts_for(rng, n)
    case = {'part': 'eigh_rho', 'n': n, 'leg_kind': k0, 'dtype': dtype, 'options': opts, 'mod': [int(m) for m in chinfo.mod], 'UPLO': uplo}
    o, okind = _as_options(rng, opts)
    try:
        W, V, err = eigh_rho(rho, o, UPLO=uplo) if (uplo != 'L' or rng.random() < 0.5) else eigh_rho(rho, o)
    except Exception as e:
        import traceback
        ctx.violation('eigh_rho:raises-%s' % type(e).__name__, traceback.format_exc()[-800:], case)
        return
    ctx.count('eigh_rho.cases')
    Vd = V.to_ndarray()
    k = len(W)
    if Vd.shape != (n, k):
        ctx.violation('eigh_rho:shape-mismatch', 'V %s W %d' % (Vd.shape, k), case)
        return
    if not (np.linalg.norm(Vd.conj().T @ Vd - np.eye(k)) <= 1e-9):
        ctx.violation('eigh_rho:V-not-isometric', '', case)
    ev = np.sort(np.linalg.eigvalsh(rho_d))[::-1]
    ev = np.where(ev < 1e-14, 0, ev)
    # eigenvector property with original eigenvalues: rho V = V diag(w_orig)
    RV = rho_d @ Vd
    worig = np.real(np.einsum('ij,ij->j', Vd.conj(), RV))
    if not (np.linalg.norm(RV - Vd * worig[None, :]) <= 1e-8 * max(1, tr)):
        ctx.violation('eigh_rho:columns-not-eigenvectors', '', case)
    if not (np.max(np.abs(np.sort(worig)[::-1] - ev[:k])) <= 1e-8 * max(1, tr)):
        ctx.violation('eigh_rho:kept-not-largest-eigenvalues', 'kept %r vs %r' % (np.sort(worig)[::-1][:5], ev[:5]), case)
    kept_w = float(np.sum(ev[:k]))
    eps_exact = 1 - kept_w / float(np.sum(ev))
    if not (abs(err.eps - eps_exact) <= 1e-9):
        ctx.violation('eigh_rho:reported-eps-not-discarded-weight', 'eps %r exact %r' % (err.eps, eps_exact), case)
    # returned W: kept eigenvalues rescaled to the original trace
    if not (abs(np.sum(W) - np.sum(ev)) <= 1e-9 * max(1, tr)):
        ctx.violation('eigh_rho:W-not-renormalised-to-trace', 'sum W %r trace %r' % (np.sum(W), np.sum(ev)), case)
    if kept_w > 0 and not (np.max(np.abs(np.sort(W)[::-1] - ev[:k] * (np.sum(ev) / kept_w))) <= 1e-8 * max(1, tr)):
        ctx.violation('eigh_rho:W-values-wrong', '', case)
    sv = np.sqrt(ev / np.sum(ev))
    nk, info = model_truncate(sv, opts)
    ev_raw = np.sort(np.linalg.eigvalsh(rho_d))[::-1]
    near_zeroing = bool(np.any((np.abs(ev_raw) > 1e-16) & (np.abs(ev_raw) < 1e-12)))  # eigh_rho zeroes W < 1e-14: a tie there is round-off
    if near_zeroing:
        ctx.count('eigh_rho.near_zeroing_threshold')
    if nk is not None and not _near_cut_tie(sv, opts) and not near_zeroing:
        gaps_ok = nk >= n or abs(sv[nk - 1] - sv[nk]) > 1e-7 * max(sv[nk - 1], 1e-300)
        if gaps_ok and k != nk:
            ctx.violation('eigh_rho:%s' % ('keeps-too-few' if k < nk else 'keeps-too-many'),
                          'kept %d, model %d; options %r' % (k, nk, opts), case)
    ctx.sig(('eigh_rho', k0, dtype, tuple(sorted(opts)), k, n, rank_def), nontrivial=(k < n))
    if i % 600 == 0:
        ctx.sample(case)


def case_qr_based(ctx, i):
    """decompose_theta_qr_based(compute_err=True): reconstruction error equals reported eps."""
    from tenpy.linalg import np_conserved as npc
    from tenpy.linalg.truncation import decompose_theta_qr_based
    from vf import gen
    rng = ctx.rng
    chinfo = gen.rand_chinfo(rng, max_q=1)
    vL, _ = gen.rand_leg(rng, chinfo, max_blocks=3, max_bs=2, qconj=+1)
    vR, _ = gen.rand_leg(rng, chinfo, max_blocks=3, max_bs=2, qconj=-1)
    p0, _ = gen.rand_leg(rng, chinfo, max_blocks=2, max_bs=2, qconj=+1, kind='blocked')
    p1, _ = gen.rand_leg(rng, chinfo, max_blocks=2, max_bs=2, qconj=+1, kind='blocked')
    if min(vL.ind_len, vR.ind_len, p0.ind_len, p1.ind_len) == 0:
        return
    dtype = str(rng.choice(['float64', 'complex128']))
    # old tensors T_L [vL,p,vR], T_R [vL,p,vR] define the old bond leg and total charges
    mid, _ = gen.rand_leg(rng, chinfo, max_blocks=3, max_bs=2, qconj=-1, kind='blocked')
    if mid.ind_len == 0:
        return
    TL, _, _, _ = gen.rand_array(rng, [vL, p0, mid], dtype=dtype, labels=['vL', 'p', 'vR'], fill='all')
    TR, _, _, _ = gen.rand_array(rng, [mid.conj(), p1, vR], dtype=dtype, labels=['vL', 'p', 'vR'], fill='all')
    theta = npc.tensordot(TL.replace_label('p', 'p0'), TR.replace_label('p', 'p1'), axes=['vR', 'vL'])
    if rng.random() < 0.6:
        # generic theta in the same sector (not low-rank)
        theta2, _, _, _ = gen.rand_array(rng, theta.legs, dtype=dtype, qtotal=theta.qtotal,
                                         labels=theta.get_leg_labels(), fill='all')
        theta = theta2
    theta = theta.combine_legs([['vL', 'p0'], ['p1', 'vR']], qconj=[+1, -1])
    td = theta.to_ndarray()
    nrm = np.linalg.norm(td)
    if nrm < 1e-10:
        return
    theta = theta / nrm
    td = td / nrm
    n = min(td.shape)
    opts = {'chi_max': int(rng.integers(1, n + 2)), 'svd_min': 1e-14}
    move_right = bool(rng.random() < 0.5)
    use_eig = bool(rng.random() < 0.3)
    expand = float(rng.choice([0.1, 0.5, 1.0, 2.0]))
    case = {'part': 'qr_based', 'shape': list(td.shape), 'options': opts, 'move_right': move_right, 'use_eig': use_eig,
            'expand': expand, 'mod': [int(m) for m in chinfo.mod], 'dtype': dtype}
    try:
        T_L, S, T_R, form, terr, renorm = decompose_theta_qr_based(TL.qtotal, TR.qtotal, TL.get_leg('vR'), theta,
                                                                   move_right=move_right, expand=expand,
                                                                   min_block_increase=1, use_eig_based_svd=use_eig,
                                                                   trunc_params=dict(opts), compute_err=True,
                                                                   return_both_T=True)
    except Exception as e:
        import traceback
        ctx.violation('qr_based:raises-%s' % type(e).__name__, traceback.format_exc()[-800:], case)
        return
    ctx.count('qr_based.cases')
    L, R = T_L.to_ndarray(), T_R.to_ndarray()
    if use_eig:
        recon = renorm * (L @ R)
    else:
        recon = renorm * ((L * S[None, :]) @ R)
    err2 = np.linalg.norm(td - recon)**2
    tol = 1e-8 if not use_eig else 1e-5
    if not (abs(err2 - terr.eps) <= tol):
        ctx.violation('qr_based:reported-eps-not-reconstruction-error', 'error^2 %r reported eps %r (use_eig=%r)' %
                      (err2, terr.eps, use_eig), case)
    if not (abs(np.linalg.norm(S) - 1) <= 1e-8):
        ctx.violation('qr_based:S-not-normalised', '|S|=%r' % np.linalg.norm(S), case)
    k = len(S)
    if k > opts['chi_max']:
        ctx.violation('qr_based:exceeds-chi_max', 'kept %d > chi_max %d' % (k, opts['chi_max']), case)
    # isometry of the tensor declared 'A' / 'B'
    if form[0] == 'A' and not (np.linalg.norm(L.conj().T @ L - np.eye(L.shape[1])) <= 1e-7):
        ctx.violation('qr_based:T_L-not-left-isometric', 'form %r' % (form, ), case)
    if form[1] == 'B' and not (np.linalg.norm(R @ R.conj().T - np.eye(R.shape[0])) <= 1e-7):
        ctx.violation('qr_based:T_R-not-right-isometric', 'form %r' % (form, ), case)
    ctx.sig(('qr_based', move_right, use_eig, expand, k, n, dtype), nontrivial=k < n)
    if i % 200 == 0:
        ctx.sample(case)
