"""C13 — variational ground-state search is sound and converges on small systems (per-run soundness monitors)."""
import copy
import traceback
import warnings

import numpy as np

from vf.runner import shard

PROP = 'C13'
LEVEL = 'exploration'
RULE = ('random Hermitian models (on-site, nearest and longer-range couplings incl. complex strengths and fermions) on chains of '
        '3-8 sites from the C10 generator; random initial product states; engines TwoSiteDMRGEngine / SingleSiteDMRGEngine x mixers '
        '(None, True, DensityMatrixMixer, SubspaceExpansion) x diag_method x chi_list x sweep counts x orthogonal_to; every run is '
        'judged by: normalisation, canonical form, conserved charge sector, reported energy == <H> (dense), variational bound '
        'E >= E0(sector) from dense eigh, convergence to E0 for untruncated two-site DMRG with mixer (bounded progress), environment '
        'invariant (full_contraction equal on all bonds) at the engine\'s checkpoint event, EffectiveH.to_matrix vs matvec; VUMPS '
        'on infinite TFI chains vs the exact energy density. non-trivial = interacting model with >= 4 sites; distinct = (engine, '
        'mixer, diag_method, model signature)'
        ' Also: models with explicit_plus_hc; a part for infinite DMRG (ledger over sweep() calls for the reported truncation statistics, canonical form, energy density vs H_MPO.expectation_value and the exact transverse-field Ising value); VUMPS runs stopped after 3-14 sweeps.')
ASSUMPTIONS = ['C10/C07 (dense H of the MPO and dense state of the MPS)', 'degenerate ground spaces handled by projecting on the exact ground space']
ANCHORS = {'tenpy/algorithms/dmrg.py': ['*'], 'tenpy/algorithms/mps_common.py': ['*'], 'tenpy/algorithms/vumps.py': ['*']}
REQUIRED_COUNTERS = {'runs': 60, 'engine.TwoSiteDMRGEngine': 20, 'engine.SingleSiteDMRGEngine': 10, 'convergence.checked': 10,
                     'updates.energy_compared': 200, 'effH.checked': 10, 'vumps.runs': 3, 'ortho.runs': 3, 'idmrg.runs': 15, 'idmrg.ledger_truncating': 10}


def plan(tier, seed, jobs):
    q = tier == 'quick'
    return (shard('compiled', 140 if q else 1500, 14, part='dmrg', timeout=3000, time_budget=150 if q else 1500) +
            shard('compiled', 48 if q else 300, 6, part='vumps', timeout=3000, time_budget=150 if q else 1500) +
            shard('compiled', 40 if q else 600, 4, part='idmrg', timeout=3000, time_budget=150 if q else 1500))


def worker_init(ctx):
    warnings.simplefilter('ignore')
    import logging
    logging.disable(logging.CRITICAL)


class _Skip(Exception):
    pass


def run_case(ctx, i):
    try:
        globals()['case_' + ctx.unit['part']](ctx, i)
    except _Skip:
        ctx.count('skipped')


def make_model(ctx, rng, force=False):
    """Hermitian random model on an open chain; returns (MPOModel, dense H, sites, description)."""
    from tenpy.models import lattice as L
    from tenpy.models.model import CouplingModel, MPOModel
    from tenpy.networks import site as S
    from vf import dense
    import checks.C10 as C10
    kind = str(rng.choice(['spinhalf_Sz', 'spinhalf', 'fermion_N', 'boson_N', 'spin1_Sz', 'fermion_parity']))
    sites, kind = dense.make_sites(rng, 1, kind)
    s = sites[0]
    maxL = {2: 8, 3: 6}.get(s.dim, 5)
    Lx = int(rng.integers(3, maxL + 1))
    lat = L.Chain(Lx, s, bc='open', bc_MPS='finite')
    # (representation-only option: the MPO holds "half" of H and the engines add the Hermitian conjugate of the effective H)
    explicit = bool(rng.random() < 0.25)
    m = CouplingModel(lat, explicit_plus_hc=explicit)
    calls = []
    D = s.dim**Lx
    ref = np.zeros((D, D), dtype=complex)
    ref_nn = np.zeros((D, D), dtype=complex)
    msites = lat.mps_sites()
    chinfo = s.leg.chinfo
    # nearest-neighbour backbone + optional longer range + on-site
    ncalls = int(rng.integers(1, 5))
    for c in range(ncalls):
        dx = 1 if c == 0 else int(rng.choice([1, 1, 2, 3]))
        if dx >= Lx:
            continue
        ferm = rng.random() < 0.5
        n1 = C10.op_names(s, rng, 'fermionic' if ferm else 'bosonic') or C10.op_names(s, rng, 'bosonic')
        if c == 0 and (force or rng.random() < 0.75):
            # hopping / exchange backbone: an operator that moves between basis states, paired with its hermitian conjugate
            for _ in range(20):
                o = s.get_op(n1).to_ndarray()
                if not (np.linalg.norm(o - np.diag(np.diag(o))) <= 1e-12):
                    break
                n1 = C10.op_names(s, rng, 'fermionic' if rng.random() < 0.5 else 'bosonic') or n1
            n2 = s.get_hc_op_name(n1)
        else:
            n2 = s.get_hc_op_name(n1) if rng.random() < 0.6 else C10.op_names(s, rng, 'fermionic' if s.op_needs_JW(n1) else 'bosonic')
        if n2 is None or s.op_needs_JW(n1) != s.op_needs_JW(n2) or not C10.neutral([(s, n1), (s, n2)]):
            continue
        st = complex(np.round(rng.standard_normal(), 2) or 1.0, np.round(rng.standard_normal(), 2) if rng.random() < 0.3 else 0)
        if force and c == 0:
            # a hopping much weaker than the diagonal terms makes the problem nearly classical (local minima of the two-site
            # optimisation): the regime where convergence is demanded has a backbone of order one
            st = complex(float(np.round(rng.uniform(0.6, 1.4), 2)) * (1 if rng.random() < 0.5 else -1), st.imag)
        m.add_coupling(st, 0, n1, 0, n2, dx, plus_hc=True)
        calls.append(['add_coupling', str(st), n1, n2, dx])
        for x in range(Lx - dx):
            T = st * dense.term_matrix(msites, [(n1, x), (n2, x + dx)])
            ref += T + T.conj().T
            if dx == 1:
                ref_nn += T + T.conj().T
    for _ in range(int(rng.integers(0, 3))):
        n = C10.op_names(s, rng, 'bosonic')
        if n is None or s.hc_ops.get(n) != n or not C10.neutral([(s, n)]):
            continue
        st = np.round(rng.standard_normal(Lx), 2) if rng.random() < 0.5 else float(np.round(rng.standard_normal(), 2))
        m.add_onsite(st, 0, n)
        calls.append(['add_onsite', repr(st), n])
        sa = np.broadcast_to(np.asarray(st), (Lx, ))
        for x in range(Lx):
            ref += sa[x] * dense.term_matrix(msites, [(n, x)])
    desc = {'sites': kind, 'L': Lx, 'calls': calls, 'random_field': False, 'explicit_plus_hc': explicit}
    if explicit:
        ctx.count('model.explicit_plus_hc')
    if force or rng.random() < 0.6:
        # random longitudinal field: breaks reflection / spin-flip symmetries that are invisible in the product basis
        diag_ops = [n for n in sorted(s.opnames) if n not in ('Id', 'JW') and not s.op_needs_JW(n) and s.hc_ops.get(n) == n
                    and np.linalg.norm(s.get_op(n).to_ndarray() - np.diag(np.diag(s.get_op(n).to_ndarray()))) < 1e-14
                    and np.ptp(np.diag(s.get_op(n).to_ndarray()).real) > 0.5]
        if diag_ops:
            n = diag_ops[int(rng.integers(len(diag_ops)))]
            st = np.round(rng.uniform(-1, 1, Lx), 3)
            m.add_onsite(st, 0, n)
            calls.append(['add_onsite', repr(st), n])
            for x in range(Lx):
                ref += st[x] * dense.term_matrix(msites, [(n, x)])
            desc['random_field'] = True
    if not calls or np.linalg.norm(ref) < 1e-6:
        raise _Skip()
    H = m.calc_H_MPO()
    M = MPOModel(lat, H)
    return M, ref, msites, desc, ref_nn


def component(H, start):
    """Indices of the basis states connected with `start` through non-zero matrix elements of H."""
    from scipy.sparse.csgraph import connected_components
    A = np.abs(H) > 1e-9
    np.fill_diagonal(A, False)
    n, lab = connected_components(A, directed=False)
    return np.nonzero(lab == lab[start])[0]


def sector_indices(sites, p_state):
    from vf import gen
    chinfo = sites[0].leg.chinfo
    mod = [int(x) for x in chinfo.mod]
    if not mod:
        D = int(np.prod([s.dim for s in sites]))
        return np.arange(D)
    qfl = [gen.leg_qflat(s.leg) for s in sites]
    qt = gen.mod_valid(sum(s.leg.qconj * q[k] for s, q, k in zip(sites, qfl, p_state)), mod)
    mask = gen.charge_mask(qfl, [s.leg.qconj for s in sites], qt, mod)
    return np.nonzero(mask.reshape(-1))[0]


def case_dmrg(ctx, i):
    from tenpy.networks.mps import MPS
    from tenpy.networks.mpo import MPOEnvironment
    from tenpy.algorithms import dmrg
    from tenpy.algorithms.mps_common import OneSiteH, TwoSiteH
    from vf import dense
    rng = ctx.rng
    force_conv = bool(rng.random() < 0.35)  # a share of the cases is steered into the regime where convergence is judged
    M, Hd, sites, desc, Hnn = make_model(ctx, rng, force_conv)
    L = len(sites)
    p_state = [int(rng.integers(s.dim)) for s in sites]
    psi = MPS.from_product_state(sites, p_state, permute=False)
    engine = str(rng.choice(['TwoSiteDMRGEngine', 'TwoSiteDMRGEngine', 'SingleSiteDMRGEngine']))
    mixer = [None, True, 'DensityMatrixMixer', 'SubspaceExpansion'][int(rng.integers(4))]
    diag = str(rng.choice(['default', 'lanczos', 'ED_block', 'ED_all', 'arpack']))
    if force_conv:
        engine = 'TwoSiteDMRGEngine'
        mixer = [True, 'DensityMatrixMixer', 'SubspaceExpansion'][int(rng.integers(3))]
        diag = str(rng.choice(['default', 'lanczos', 'ED_block', 'arpack']))
    # diag_method='ED_all' is documented to leave the charge sector: the reference is then the whole space
    idx = sector_indices(sites, p_state) if diag != 'ED_all' else np.arange(Hd.shape[0])
    Hs = Hd[np.ix_(idx, idx)]
    if not dense.is_hermitian(Hs):
        raise _Skip()
    lam, vec = np.linalg.eigh(Hs)
    untruncated = bool(rng.random() < 0.6)
    if force_conv:
        untruncated = True
    chi_max = 200 if untruncated else int(rng.integers(2, 8))
    opts = {'trunc_params': {'chi_max': chi_max, 'svd_min': 1e-12}, 'max_sweeps': int(rng.integers(6, 16)), 'min_sweeps': 2,
            'diag_method': diag, 'max_E_err': 1e-12, 'max_S_err': 1e-8, 'combine': bool(rng.random() < 0.5), 'max_trunc_err': None}
    opts['mixer'] = mixer
    if mixer is not None:
        opts['mixer_params'] = {'amplitude': float(rng.choice([1e-2, 1e-3, 1e-5])), 'decay': float(rng.choice([1.5, 2.0])),
                                'disable_after': int(rng.integers(2, 9))}
    if force_conv:
        opts['max_sweeps'] = int(rng.integers(8, 16))
        opts['mixer_params']['amplitude'] = float(rng.choice([1e-2, 1e-3]))
    elif mixer is not None and rng.random() < 0.25:
        # a run that ends while the mixer is on, with a binding chi_max: what a mixer returns when it truncates goes into the result
        opts['mixer_params']['disable_after'] = 30
        if untruncated:
            untruncated = False
            chi_max = int(rng.integers(2, 5))
            opts['trunc_params']['chi_max'] = chi_max
        if rng.random() < 0.5:
            engine, mixer = 'TwoSiteDMRGEngine', 'DensityMatrixMixer'  # (the combination whose result is exactly normalised)
            opts['mixer'] = mixer
        ctx.count('mixer_kept_on_until_the_end')
    if diag in ('default', 'lanczos') and rng.random() < 0.4:
        # documented eigensolver option: the reported energies are those of H, not of the shifted operator
        opts['lanczos_params'] = {'E_shift': float(rng.choice([-4., -1.5, 2.5, -20.]))}
        ctx.count('lanczos.E_shift')
    has_chi_list = bool(rng.random() < 0.2) and not force_conv
    if has_chi_list:
        opts['chi_list'] = {0: 2, 2: chi_max}
    max_sweeps = opts['max_sweeps']
    amplitude = opts['mixer_params']['amplitude'] if mixer is not None else 0.
    case = dict(desc, p_state=p_state, engine=engine, options=copy.deepcopy(opts))
    ctx.count('runs')
    ctx.count('engine.' + engine)
    ctx.count('mixer.%s' % mixer)
    ctx.count('diag.' + diag)
    scale = max(1.0, float(np.linalg.norm(Hd, 2)))
    upd = []  # history of local updates: (sweep, i0, E_total reported, dense <H> afterwards or None, truncation eps, mixer on)
    mixer_class = [None]  # class of the mixer object last seen in an update

    try:
        eng = getattr(dmrg, engine)(psi, M, opts)
        orig_update_local = eng.update_local

        # monitor at the update boundary: after every local update compare the energy the engine logs with the dense <H>
        def update_local(theta, **kw):
            res = orig_update_local(theta, **kw)
            try:
                v = dense.finite_vector(eng.psi).reshape(-1)
                e = float(np.real(np.vdot(v, Hd @ v) / np.vdot(v, v)))
                nrm = float(np.linalg.norm(v))
            except NotImplementedError:  # 2D "S" while a mixer is on
                e = nrm = None
            upd.append((eng.sweeps, eng.i0, float(np.real(res['E0'])) if res.get('E0') is not None else None, e, float(res['err'].eps),
                        eng.mixer is not None, nrm))
            if eng.mixer is not None:
                mixer_class[0] = type(eng.mixer).__name__
            return res

        eng.update_local = update_local
        E, psi = eng.run()
    except Exception as e:
        tb = traceback.format_exc()
        if '/tenpy/' not in tb:
            raise
        if diag == 'arpack' and type(e).__name__ == 'ArpackError' and 'Starting vector is zero' in str(e):
            ctx.violation('diag_method=arpack:raises-ArpackError:start-vector-in-kernel-of-effective-H', tb[-300:], case)
        elif desc.get('explicit_plus_hc') and 'mix_and_decompose_1site' in tb and 'in mix_and_decompose' in tb and 'SubspaceExpansion' in type(eng.mixer).__name__:
            # mechanism of the recorded finding: the branch of SubspaceExpansion.mix_and_decompose_1site for MPOs with
            # explicit_plus_hc is broken (mask of the wrong length, wrong leg label)
            ctx.violation('DMRG:explicit_plus_hc:SubspaceExpansion.mix_and_decompose_1site:raises', tb[-700:], case)
        else:
            ctx.violation('%s:raises-%s' % (engine, type(e).__name__), tb[-700:], case)
        return
    # (the mixer object is dropped at the end of the sweep in which its life time ends: what counts is whether the last
    #  update still used one; a chi_list step re-activates the mixer, so 'disable_after' alone does not tell)
    mixer_on_at_end = eng.mixer is not None or bool(upd and upd[-1][5])
    tag = '%s:mixer=%s' % (engine, mixer)
    if mixer_on_at_end:
        ctx.count('mixer_on_at_end')
    # --- per-update history: without mixer and truncation every update is an exact minimisation in an exact environment:
    #     the logged energy equals <H> of the state just written, and the sequence never increases
    ctx.count('updates.observed', len(upd))
    prev = None
    for (sw, i0, e_rep, e_dense_u, eps, mix_on, nrm) in upd:
        if e_rep is None or e_dense_u is None or mix_on:
            prev = None if mix_on else prev
            continue
        if eps < 1e-20:
            ctx.count('updates.energy_compared')
            if not (abs(e_rep - e_dense_u) <= 1e-8 * scale):
                ctx.violation(tag + ':update-energy-differs-from-<H>', 'sweep %d i0 %d: E0 = %r but <psi|H|psi> = %r after the update '
                              '(no truncation, no mixer): effective Hamiltonian / environment is not the projected H' %
                              (sw, i0, e_rep, e_dense_u), case)
                break
            if not (abs(nrm - 1) <= 1e-8):
                ctx.violation(tag + ':state-not-normalised-after-update', 'sweep %d i0 %d |psi| = %r' % (sw, i0, nrm), case)
                break
        if prev is not None and diag != 'ED_all' and not has_chi_list and e_dense_u > prev + 1e-8 * scale and eps < 1e-20:
            ctx.violation(tag + ':energy-increases-in-exact-update', 'sweep %d i0 %d: <H> rose from %r to %r without truncation or mixer' %
                          (sw, i0, prev, e_dense_u), case)
            break
        prev = e_dense_u
    # --- soundness of the returned state
    try:
        v = dense.finite_vector(psi).reshape(-1)
    except NotImplementedError:
        ctx.violation(tag + ':non-diagonal-S-left-in-result', '', case)
        return
    late = ':mixer-still-active-after-last-sweep' if mixer_on_at_end else ''
    nrm = np.linalg.norm(v)
    nt = np.max(np.abs(psi.norm_test()))
    if not (abs(nrm - 1) <= 1e-8) or nt > 1e-7:
        if late:
            # (recorded finding; keyed by what is off and by the mixer class, so that other combinations still count)
            what_off = 'not-normalised' if not (abs(nrm - 1) <= 1e-8) else 'not-canonical'
            ctx.violation('DMRG%s:returned-state-%s:%s:%s' % (late, what_off, engine, mixer_class[0]), '%s: |psi| = %r, norm_test %r' % (tag, nrm, nt), case)
        else:
            ctx.violation('DMRG:returned-state-not-normalised-or-not-canonical', '%s: |psi| = %r, norm_test %r' % (tag, nrm, nt), case)
        if not (abs(nrm - 1) <= 1e-2):
            return
    v = v / nrm
    # the Schmidt values stored on every bond are normalised (every decomposition of an update normalises them, mixers included)
    s_dev = max(abs(float(np.linalg.norm(psi.get_SL(k))) - 1.) for k in range(1, L))
    if not (s_dev <= 1e-10):
        ctx.violation('DMRG%s:stored-Schmidt-values-not-normalised:%s:%s' % (late, engine, mixer_class[0] if late else mixer),
                      '%s: max_b | |S_b| - 1 | = %g' % (tag, s_dev), case)
    # Schmidt values of the returned state: trunc_params['svd_min'] (1e-12 here) discards smaller ones in every update, and form
    # conversions (get_B(form='A'), a fresh MPOEnvironment) divide by them
    s_min = min(float(np.min(psi.get_SL(k))) for k in range(1, L))
    zero_schmidt = not (s_min >= 1e-13)
    if zero_schmidt:
        ctx.violation('DMRG%s:returned-state-has-vanishing-Schmidt-values' % late, '%s: smallest Schmidt value %r (svd_min 1e-12): '
                      'conversions between canonical forms of the returned state divide by zero' % (tag, s_min), case)
    outside = np.ones(len(v), dtype=bool)
    outside[idx] = False
    if not (np.linalg.norm(v[outside]) <= 1e-8):
        ctx.violation(tag + ':leaves-charge-sector', 'weight outside the sector %r' % np.linalg.norm(v[outside]), case)
        return
    e_dense = float(np.real(np.vdot(v, Hd @ v)))
    exact_regime = untruncated and not mixer_on_at_end
    # "up to the reported truncation": the engine reports the largest energy change caused by a truncation of the last sweep
    e_trunc = abs(float(np.max(eng.sweep_stats['max_E_trunc'][-1:]))) if len(eng.sweep_stats['max_E_trunc']) else 0.
    etol = 1e-7 * scale + 1.05 * e_trunc + (2e-2 * scale if mixer_on_at_end else 0.)
    if not (abs(E - e_dense) <= etol):
        ctx.violation(tag + ':reported-energy-differs-from-<H>', 'E = %r, <psi|H|psi> = %r (chi_max %d)' % (E, e_dense, chi_max), case)
    if e_dense < lam[0] - 1e-8 * scale or (exact_regime and E < lam[0] - 1e-7 * scale):
        ctx.violation(tag + ':energy-below-exact-ground-state', 'E = %r, <H> = %r, E0(sector) = %r' % (E, e_dense, lam[0]), case)
    # --- convergence (bounded progress): untruncated two-site DMRG with a mixer reaches the ground state of the H-invariant
    #     subspace it starts in.  Judged only where getting stuck would be a defect and not a limit of local optimisation: the
    #     basis states linked with the initial product state by H are already linked by its nearest-neighbour terms alone, and a
    #     random field removes symmetries that the product basis does not show.
    if (force_conv and exact_regime and engine == 'TwoSiteDMRGEngine' and mixer is not None and max_sweeps >= 8 and not has_chi_list
            and amplitude >= 1e-3 and diag != 'ED_all' and desc['random_field']):
        start = int(np.ravel_multi_index(p_state, [s_.dim for s_ in sites]))
        comp = component(Hd, start)
        comp_nn = component(Hnn + np.diag(np.arange(len(Hnn))), start)
        if len(comp) == len(comp_nn) and len(comp) >= 2:
            ctx.count('convergence.checked')
            lam_c, vec_c = np.linalg.eigh(Hd[np.ix_(comp, comp)])
            if e_dense - lam_c[0] > 1e-6 * scale:
                ctx.violation(tag + ':does-not-converge-to-ground-state', 'E - E0 = %g after %d sweeps (dimension of the invariant '
                              'subspace %d)' % (e_dense - lam_c[0], eng.sweeps, len(comp)), case)
            elif e_dense < lam_c[0] - 1e-6 * scale:
                # the mixer moved the state into another sector of a symmetry that is not declared as a charge: lower energy, fine
                ctx.count('convergence.below_component_ground_state')
            else:
                # (energy within eps of the minimum bounds the weight outside the ground space by eps/gap: "and state" follows)
                ctx.count('convergence.reached')
        else:
            ctx.count('convergence.not_nn_connected')
    # --- effective Hamiltonian in a fresh environment of the returned state: to_matrix vs matvec vs dense <H>
    try:
        if zero_schmidt:
            raise _Skip()  # (reported above; a fresh environment is undefined for such a state)
        env = MPOEnvironment(psi, M.H_MPO, psi)
        EffH = TwoSiteH if rng.random() < 0.5 else OneSiteH
        i0 = int(rng.integers(0, L - 1))
        heff = EffH(env, i0, combine=bool(rng.random() < 0.5))
        if getattr(M.H_MPO, 'explicit_plus_hc', False):
            # the MPO holds half of H: the effective Hamiltonian is the sum with its adjoint (what Sweep.make_eff_H does)
            from tenpy.linalg.sparse import SumNpcLinearOperator
            heff = SumNpcLinearOperator(heff, heff.adjoint())
            ctx.count('effH.explicit_plus_hc')
        th = psi.get_theta(i0, n=heff.length)
        if heff.combine:
            th = heff.combine_theta(th)
        lbl = list(th.get_leg_labels())
        hv = heff.matvec(th)
        hv.itranspose(lbl)
        mat = heff.to_matrix()
        thc = th.combine_legs(lbl, pipes=mat.legs[1].conj())
        hvc = hv.combine_legs(lbl, pipes=mat.legs[0])
        got = mat.to_ndarray() @ thc.to_ndarray()
        ctx.count('effH.checked')
        if not (np.linalg.norm(got - hvc.to_ndarray()) <= 1e-9 * max(1.0, np.linalg.norm(got))):
            ctx.violation('%s.to_matrix:differs-from-matvec' % EffH.__name__, '|to_matrix @ theta - matvec(theta)| = %g' %
                          np.linalg.norm(got - hvc.to_ndarray()), case)
        e_loc = float(np.real(np.vdot(thc.to_ndarray(), hvc.to_ndarray())))
        if not (abs(e_loc - e_dense * nrm**2) <= 1e-7 * scale) and nt < 1e-9:
            ctx.violation('%s:local-energy-differs-from-<H>' % EffH.__name__, '<theta|Heff|theta> = %r, <H> = %r' % (e_loc, e_dense), case)
    except _Skip:
        ctx.count('effH.skipped_vanishing_schmidt_values')
    except Exception as e:
        tb = traceback.format_exc()
        if '/tenpy/' in tb:
            ctx.violation('EffectiveH:raises-%s' % type(e).__name__, tb[-500:], case)
        else:
            raise
    # --- excited state via orthogonal_to (sometimes)
    if (exact_regime and diag != 'ED_all' and len(idx) >= 3 and rng.random() < 0.4 and e_dense - lam[0] < 1e-7 * scale
            and lam[1] - lam[0] > 1e-3 * scale and lam[1] < -1e-2 * scale):
        # (a target energy >= 0 is a documented limitation of the projection used for orthogonal_to: the engine warns)
        try:
            psi1 = MPS.from_product_state(sites, p_state, permute=False)
            o2 = dict(opts)
            o2['mixer'] = True
            o2['mixer_params'] = {'amplitude': 1e-2, 'decay': 1.5, 'disable_after': 8}
            o2['max_sweeps'] = 14
            o2.pop('chi_list', None)
            o2.pop('lanczos_params', None)  # (a positive E_shift moves the target energy above 0: the documented limitation again)
            eng1 = dmrg.TwoSiteDMRGEngine(psi1, M, o2, orthogonal_to=[psi])
            E1, psi1 = eng1.run()
            ctx.count('ortho.runs')
            if eng1.sweep_stats['E'][-1] > -1e-8:
                # documented limitation (engine warns, tenpy issue 329): stuck at the zero eigenvalue of the projected problem
                ctx.count('ortho.warned_zero_energy')
                raise _Skip()
            v1 = dense.finite_vector(psi1).reshape(-1)
            if not (abs(np.vdot(v, v1)) <= 1e-6):
                ctx.violation('orthogonal_to:result-not-orthogonal', '|<psi0|psi1>| = %r' % abs(np.vdot(v, v1)), case)
            e1 = float(np.real(np.vdot(v1, Hd @ v1)))
            if e1 < lam[1] - 1e-7 * scale:
                ctx.violation('orthogonal_to:energy-below-first-excited', 'E1 %r < lambda_1 %r' % (e1, lam[1]), case)
            if lam[1] < -1e-3 * scale and e1 - lam[1] > 1e-5 * scale:
                ctx.count('ortho.not_converged')  # recorded, not judged: excited-state convergence is not part of the property
        except Exception as e:
            tb = traceback.format_exc()
            if diag == 'arpack' and type(e).__name__ == 'ArpackError' and 'Starting vector is zero' in str(e):
                ctx.violation('diag_method=arpack:raises-ArpackError:start-vector-in-kernel-of-effective-H', tb[-300:], case)
            elif '/tenpy/' in tb:
                ctx.violation('orthogonal_to:raises-%s' % type(e).__name__, tb[-500:], case)
            else:
                raise
    ctx.sig((engine, str(mixer), diag, desc['sites'], L, tuple(c[0] + str(c[2:4]) for c in desc['calls']), untruncated), nontrivial=L >= 4)
    if i % 30 == 0:
        ctx.sample(case)


def case_idmrg(ctx, i):
    """Infinite DMRG: ledger of the reported truncation statistics, canonical form of the returned state, reported energy density
    vs H_MPO.expectation_value and vs the exact energy density (transverse-field Ising), short and long runs."""
    from tenpy.models.tf_ising import TFIChain
    from tenpy.models.xxz_chain import XXZChain
    from tenpy.networks.mps import MPS
    from tenpy.algorithms import dmrg
    rng = ctx.rng
    engine = str(rng.choice(['TwoSiteDMRGEngine', 'TwoSiteDMRGEngine', 'SingleSiteDMRGEngine']))
    which = 'TFI' if rng.random() < 0.7 else 'XXZ'
    if which == 'TFI':
        g = float(rng.choice([0.5, 0.7, 1.5, 2.0, 3.0]))
        Lc = int(rng.choice([2, 2, 3, 4]))
        cons = str(rng.choice(['None', 'parity']))
        M = TFIChain({'L': Lc, 'J': 1.0, 'g': g, 'bc_MPS': 'infinite', 'conserve': None if cons == 'None' else cons})
        k = np.linspace(0, np.pi, 20001)
        e0 = -np.trapezoid(np.sqrt(1 + g * g + 2 * g * np.cos(k)), k) / np.pi
        p0 = ['up'] * Lc
        model = {'model': 'TFIChain', 'g': g, 'L': Lc, 'conserve': cons}
    else:
        Jz = float(rng.choice([0.5, 2.0, 4.0]))
        Lc = int(rng.choice([2, 4]))
        M = XXZChain({'L': Lc, 'Jxx': 1.0, 'Jz': Jz, 'hz': 0.0, 'bc_MPS': 'infinite'})
        e0 = None
        p0 = ['up', 'down'] * (Lc // 2)
        model = {'model': 'XXZChain', 'Jz': Jz, 'L': Lc}
    psi = MPS.from_product_state(M.lat.mps_sites(), p0, bc='infinite')
    chi = int(rng.choice([2, 3, 4, 6, 10, 30]))
    N_check = int(rng.choice([1, 2, 2, 3, 4]))
    short = bool(rng.random() < 0.5)
    sweeps = int(rng.integers(2, 8)) if short else int(rng.choice([30, 60]))
    mixer = [None, True, 'DensityMatrixMixer', 'SubspaceExpansion'][int(rng.integers(4))]
    if engine == 'SingleSiteDMRGEngine' and mixer is None:
        mixer = True  # (single-site updates cannot grow the bond dimension of a product state)
    opts = {'trunc_params': {'chi_max': chi, 'svd_min': 1e-12}, 'max_sweeps': sweeps, 'min_sweeps': min(sweeps, 2), 'N_sweeps_check': N_check,
            'mixer': mixer, 'max_E_err': 1e-11, 'max_S_err': 1e-7,
            'max_trunc_err': None}  # (the engine's own consistency check on large truncation errors raises by design)
    if mixer is not None:
        # switched off well before the end (else: the recorded finding about runs that end with the mixer on), sometimes not
        late = bool(rng.random() < 0.15)
        opts['mixer_params'] = {'amplitude': float(rng.choice([1e-3, 1e-5])), 'disable_after': sweeps + 5 if late else max(1, sweeps // 2 - 1), 'decay': 2.0}
    if rng.random() < 0.3:
        opts['update_env'] = int(rng.integers(0, 4))
    case = dict(model, engine=engine, options=copy.deepcopy(opts))
    ctx.count('idmrg.runs')
    try:
        eng = getattr(dmrg, engine)(psi, M, copy.deepcopy(opts))
    except Exception as e:
        tb = traceback.format_exc()
        if '/tenpy/' not in tb:
            raise
        ctx.violation('iDMRG:%s:init-raises-%s' % (engine, type(e).__name__), tb[-700:], case)
        return
    # --- ledger of sweeps: (optimize?, returned maximal truncation error, truncation energies measured in that sweep)
    ledger = []
    orig_sweep = eng.sweep

    def sweep(optimize=True, *a, **kw):
        r = orig_sweep(optimize, *a, **kw)
        ledger.append((bool(optimize), float(r) if r is not None else None, [x for x in getattr(eng, 'E_trunc_list', [])],
                       [float(x) for x in getattr(eng, 'trunc_err_list', [])]))
        return r

    eng.sweep = sweep
    try:
        E, psi = eng.run()
    except Exception as e:
        tb = traceback.format_exc()
        if '/tenpy/' not in tb:
            raise
        ctx.violation('iDMRG:%s:raises-%s' % (engine, type(e).__name__), tb[-700:], case)
        return
    mixer_on_at_end = eng.mixer is not None
    stats = eng.sweep_stats
    opt = [l for l in ledger if l[0]]
    n_it = len(stats['sweep'])
    ctx.count('idmrg.iterations', n_it)
    if len(opt) != n_it * N_check:
        ctx.violation('iDMRG:sweep-count', '%d optimising sweeps for %d iterations with N_sweeps_check=%d' % (len(opt), n_it, N_check), case)
        return
    for kk in range(n_it):
        last = opt[(kk + 1) * N_check - 1]
        rep = float(stats['max_trunc_err'][kk])
        exp = max(last[3]) if last[3] else 0.0
        ctx.count('idmrg.ledger_checked')
        if exp > 1e-14:
            ctx.count('idmrg.ledger_truncating')
        if not (abs(rep - exp) <= 1e-12 * max(1.0, 0) + 1e-9 * exp):
            ctx.violation('iDMRG:reported-max_trunc_err-is-not-that-of-the-optimising-sweep', 'iteration %d: sweep_stats %r, the last optimising '
                          'sweep truncated by at most %r' % (kk, rep, exp), case)
            return
        et = [x for x in last[2] if x is not None]
        if et:
            rep_e, exp_e = float(stats['max_E_trunc'][kk]), float(np.max(et))
            if not (abs(rep_e - exp_e) <= 1e-12 + 1e-9 * abs(exp_e)):
                ctx.violation('iDMRG:reported-max_E_trunc-is-not-that-of-the-optimising-sweep', 'iteration %d: sweep_stats %r, measured %r' %
                              (kk, rep_e, exp_e), case)
                return
    # --- returned state
    nt = float(np.max(np.abs(psi.norm_test())))
    late = ':mixer-still-active-after-last-sweep' if mixer_on_at_end else ''
    try:
        smin = min(float(np.min(psi.get_SL(b))) for b in range(psi.L))
    except Exception:
        smin = 0.0
    if not (nt <= 1e-8):
        if late:
            ctx.violation('DMRG%s:returned-state-not-canonical:%s' % (late, type(eng.mixer).__name__), 'infinite %s: norm_test %r' % (engine, nt), case)
        else:
            ctx.violation('DMRG:returned-state-not-normalised-or-not-canonical', 'infinite %s: norm_test %r' % (engine, nt), case)
        if not (nt <= 1e-3):
            return
    e_mpo = float(np.real(M.H_MPO.expectation_value(psi)))
    E = float(np.real(E))
    terr = float(np.max(stats['max_trunc_err'])) if n_it else 0.0
    conv = n_it >= 2 and abs(stats['Delta_E'][-1]) < 1e-9 and not mixer_on_at_end
    ctx.obs.setdefault('idmrg_gap', []).append([abs(E - e_mpo), terr, bool(conv), bool(short)])
    if e0 is not None and e_mpo < e0 - 1e-7 and nt <= 1e-8 and not mixer_on_at_end:
        # (only a canonical infinite MPS makes H_MPO.expectation_value a variational energy density; a run that ends with the mixer
        #  still on skips the final canonicalisation -- the recorded finding -- and its singular values need not be the fixed point
        #  of the transfer matrix even where norm_test is small)
        ctx.violation('iDMRG:energy-density-below-exact', 'e = %r exact %r' % (e_mpo, e0), case)
    if conv and not mixer_on_at_end:
        ctx.count('idmrg.converged')
        # converged: the reported energy density is the one of the returned state up to the (reported) truncation
        if not (abs(E - e_mpo) <= 1e-7 + 20 * terr):
            ue = opts.get('update_env', N_check // 2)
            if engine == 'SingleSiteDMRGEngine' and ue == 1:
                # mechanism: the energy density is the slope of E_total over age in a window of 2L+1 updates; entries written by
                # environment sweeps hold the energy of the network *after* the update next to the age *before* it, entries of
                # optimising updates hold both before the update; with exactly one environment sweep the window mixes both kinds
                ctx.violation('iDMRG:SingleSiteDMRGEngine:update_env=1:reported-energy-is-not-the-energy-density-of-the-returned-state',
                              'E %r, <H> %r (ratio %.4f), max_trunc_err %r' % (E, e_mpo, E / e_mpo, terr), case)
            else:
                ctx.violation('iDMRG:reported-energy-differs-from-expectation-value-beyond-reported-truncation', 'E %r, <H> %r, max_trunc_err %r' %
                              (E, e_mpo, terr), case)
        if e0 is not None and not short and chi >= 10 and not (e_mpo - e0 <= 1e-5):
            ctx.violation('iDMRG:does-not-converge', 'e - e_exact = %g (chi %d)' % (e_mpo - e0, chi), case)
    ctx.sig(('idmrg', engine, repr(mixer), N_check, chi, short, which), nontrivial=True)
    if i % 10 == 0:
        ctx.sample(case)


def case_vumps(ctx, i):
    """VUMPS on the infinite transverse-field Ising chain vs the exact energy density."""
    from tenpy.models.tf_ising import TFIChain
    from tenpy.networks.mps import MPS
    from tenpy.algorithms import vumps
    rng = ctx.rng
    g = float(rng.choice([0.5, 1.5, 2.0]))
    Lc = int(rng.choice([1, 2])) if True else 2
    engine = str(rng.choice(['SingleSiteVUMPSEngine', 'TwoSiteVUMPSEngine']))
    if engine == 'TwoSiteVUMPSEngine':
        Lc = 2
    explicit = bool(rng.random() < 0.5)
    M = TFIChain({'L': Lc, 'J': 1.0, 'g': g, 'bc_MPS': 'infinite', 'conserve': None, 'explicit_plus_hc': explicit})
    k = np.linspace(0, np.pi, 20001)
    e0 = -np.trapezoid(np.sqrt(1 + g * g + 2 * g * np.cos(k)), k) / np.pi
    case = {'model': 'TFIChain', 'g': g, 'L': Lc, 'engine': engine, 'explicit_plus_hc': explicit}
    if explicit:
        ctx.count('vumps.explicit_plus_hc')
    chi = 0
    ctx.count('vumps.runs')
    st = np.random.get_state()
    np.random.seed(int(rng.integers(1 << 30)))
    try:
        chi = int(rng.choice([2, 3, 4, 6, 8]))
        psi = MPS.from_desired_bond_dimension(M.lat.mps_sites(), chi, bc='infinite')
        opts = {'trunc_params': {'chi_max': chi, 'svd_min': 1e-10}, 'max_sweeps': 60, 'min_sweeps': 5, 'max_E_err': 1e-10, 'max_S_err': 1e-6,
                'mixer': None}
        short = bool(rng.random() < 0.5)
        if short:
            # a run stopped early: the reported energy is still the energy density of the returned state (observed agreement on
            # the unchanged library: 1e-11), only convergence is not demanded
            opts.update({'max_sweeps': int(rng.integers(3, 15)), 'min_sweeps': 1})
            ctx.count('vumps.short_runs')
        case['options'] = copy.deepcopy(opts)
        eng = getattr(vumps, engine)(psi, M, opts)
        E, psi = eng.run()
    except Exception as e:
        tb = traceback.format_exc()
        if '/tenpy/' not in tb:
            raise
        ctx.violation('%s:raises-%s' % (engine, type(e).__name__), tb[-700:], case)
        return
    finally:
        np.random.set_state(st)
    e_mpo = float(np.real(M.H_MPO.expectation_value(psi)))
    smin = min(float(np.min(psi.get_SL(b))) for b in range(psi.L))
    if smin < 1e-7:
        # Schmidt values at round-off level: the environments of VUMPS (inverse-free, but built from transfer-matrix eigenvectors
        # of an almost rank-deficient state) lose precision there -- numerical regime, only the state itself is judged
        ctx.count('vumps.ill_conditioned')
    else:
        # VUMPS reports the energy found in the last local problems, i.e. of the iterate before the last update of the tensors: for
        # a run stopped before convergence the value lags by what one sweep still changes (observed: 5e-4 after 2 sweeps, 1e-5 after
        # 3, 1e-9 after 5, 1e-14 after 8), so the change of the energy in the last sweep bounds the allowed difference
        dE = eng.sweep_stats.get('Delta_E', [])
        lag = 2 * abs(float(dE[-1])) if len(dE) and np.isfinite(dE[-1]) else np.inf
        ctx.count('vumps.energy_compared')
        if lag <= 1e-7:
            ctx.count('vumps.energy_compared_converged')
        if not (abs(E - e_mpo) <= 1e-6 + lag):
            ctx.violation('%s:reported-energy-differs-from-H_MPO.expectation_value' % engine, 'E %r vs %r (last sweep changed E by %r)' %
                          (E, e_mpo, float(dE[-1]) if len(dE) else None), case)
    if e_mpo < e0 - 1e-7:
        ctx.violation('%s:energy-density-below-exact' % engine, 'e = %r exact %r' % (e_mpo, e0), case)
    if not short and e_mpo - e0 > {2: 2e-2, 3: 5e-3}.get(chi, 1e-4):
        ctx.violation('%s:does-not-converge' % engine, 'e - e_exact = %g (chi %d, g=%g)' % (e_mpo - e0, chi, g), case)
    nt = psi.norm_test()
    if not (np.max(np.abs(nt)) <= 1e-5):
        ctx.violation('%s:not-canonical' % engine, 'norm_test %r' % np.max(np.abs(nt)), case)
    case['chi'] = chi
    ctx.sig(('vumps', engine, g, Lc, chi), nontrivial=True)
    ctx.sample(case)
