"""C07 — an MPS always denotes the state it was built from (harness contraction vs source state; Schmidt spectra)."""
import traceback
import warnings

import numpy as np

from vf.runner import shard

PROP = 'C07'
LEVEL = 'exploration'
RULE = ('random finite/segment MPS (L 2-7; spin-1/2, spin-1, fermion, spinful fermion, boson and mixed sites; every conserve '
        'option; random sector states incl. sparse ones) built by from_product_state / from_full / from_Bflat (non-canonical) / '
        'from_singlets / from_product_mps_covering / from_random_unitary_evolution / from_desired_bond_dimension / '
        'project_onto_charge_sector, followed by random histories of convert_form / canonical_form / copy / get_B-set_B; '
        'infinite MPS are checked on windows through harness-built theta tensors. The harness contracts the raw stored '
        'tensors with the recorded form exponents itself. non-trivial = entangled state (some bond dimension >= 2); '
        'distinct = (builder, site kind, L, history) signature'
        ' Also: from_lat_product_state on all lattice kinds, re-canonicalisation of infinite states from site-dependent forms, real infinite states made complex through set_B, charge-resolved entanglement spectrum against the dense state.'
        ' Round 5: entropies of segment MPS and at explicitly given bonds of infinite MPS (bond L and beyond); MPS(sites,Bs,SVs), copy() and extract_segment() stay unchanged when their sources are overwritten in place.')
ASSUMPTIONS = ['the stored tensor of site i denotes S_i^nuL Gamma_i S_{i+1}^nuR with form (nuL, nuR) (module docstring of mps.py)']
ANCHORS = {'tenpy/networks/mps.py': ['*']}
REQUIRED_COUNTERS = {'builder.from_full': 10, 'builder.from_product_state': 10, 'builder.from_Bflat': 10, 'builder.from_singlets': 5,
                     'builder.from_product_mps_covering': 3, 'history.steps': 50, 'schmidt.cuts_checked': 100, 'segment.cases': 5,
                     'infinite.cases': 5}
REQUIRED_ANCHORS = ['mps.py:MPS.from_full', 'mps.py:MPS.from_Bflat', 'mps.py:MPS.canonical_form_finite', 'mps.py:MPS.convert_form',
                    'mps.py:MPS.get_theta', 'mps.py:MPS._scale_axis_B', 'mps.py:MPS.canonical_form_infinite1',
                    'mps.py:MPS.canonical_form_infinite2', 'mps.py:MPS.entanglement_spectrum']
BUILDERS = ['from_full', 'from_full', 'from_product_state', 'from_product_state', 'from_Bflat', 'from_Bflat', 'from_singlets',
            'from_product_mps_covering', 'from_random_unitary_evolution', 'from_desired_bond_dimension',
            'project_onto_charge_sector', 'segment', 'infinite', 'infinite', 'from_lat_product_state']


def plan(tier, seed, jobs):
    q = tier == 'quick'
    return shard('compiled', 480 if q else 15000, 16, timeout=3000, time_budget=150 if q else 1500)


def worker_init(ctx):
    warnings.simplefilter('ignore')
    import logging
    logging.disable(logging.CRITICAL)


class _Skip(Exception):
    pass


def run_case(ctx, i):
    rng = ctx.rng
    builder = BUILDERS[int(rng.integers(len(BUILDERS)))]
    try:
        globals()['build_' + builder](ctx, rng, i)
    except _Skip:
        ctx.count('skipped')
    finally:
        ctx.__dict__.pop('violation', None)  # (a case may tag its verdicts by wrapping the sink)


def describe(kind, L, extra):
    d = {'sites': kind, 'L': L}
    d.update(extra)
    return d


def check_state(ctx, name, psi, ref, case, expect_norm=None, tol=1e-9, phase_free=False):
    """psi (finite MPS) must denote `ref` (dense, axes p0..): ref == psi.norm * unit-vector; returns dense vec or None."""
    from vf import dense
    try:
        psi.test_sanity()
    except Exception as e:
        ctx.violation(name + ':test_sanity-raises', repr(e)[:300], case)
        return None
    try:
        vec = dense.finite_vector(psi)
    except NotImplementedError:
        raise _Skip()
    if vec.shape != ref.shape:
        ctx.violation(name + ':shape', '%r vs %r' % (vec.shape, ref.shape), case)
        return None
    scale = max(1.0, float(np.linalg.norm(ref)))
    if phase_free:
        ov, dist = dense.align_phase(vec.reshape(-1), ref.reshape(-1))
        if not (abs(ov - 1) <= 1e-8) or not (abs(np.linalg.norm(vec) - np.linalg.norm(ref)) <= tol * scale):
            ctx.violation(name + ':state-differs', 'overlap %r, |vec| %r |ref| %r' % (ov, np.linalg.norm(vec), np.linalg.norm(ref)), case)
            return None
    elif not (np.linalg.norm(vec - ref) <= tol * scale):
        ov, _ = dense.align_phase(vec.reshape(-1), ref.reshape(-1))
        kind = 'norm-or-phase' if abs(ov - 1) < 1e-8 else 'direction'
        ctx.violation('%s:state-differs:%s' % (name, kind), '|psi - ref| = %g, normalised overlap %r, psi.norm %r' %
                      (np.linalg.norm(vec - ref), ov, psi.norm), case)
        return None
    if expect_norm is not None and not (abs(psi.norm - expect_norm) <= tol * max(1.0, expect_norm)):
        ctx.violation(name + ':norm-attribute', 'psi.norm %r expected %r' % (psi.norm, expect_norm), case)
    return vec


def check_canonical(ctx, name, psi, vec, case):
    """In canonical form: stored S are the dense Schmidt values at every cut; entropies, spectrum, norm_test, chi."""
    from vf import dense
    L = psi.L
    unit = vec / np.linalg.norm(vec)
    nt = psi.norm_test()
    if not (np.max(np.abs(nt)) <= 1e-8):
        ctx.violation(name + ':norm_test-nonzero', 'norm_test %r' % np.asarray(nt).tolist(), case)
        return
    ent = psi.entanglement_entropy()
    ent2 = psi.entanglement_entropy(n=2)
    spec = psi.entanglement_spectrum()
    for b in range(1, L):
        sv = dense.schmidt_values(unit, b)
        sv = sv[sv > 1e-12]
        S = np.asarray(psi._S[b])
        if S.ndim != 1:
            continue
        ctx.count('schmidt.cuts_checked')
        Ss = np.sort(S[S > 1e-12])[::-1]
        if len(Ss) != len(sv) or not (np.max(np.abs(Ss - sv)) <= 1e-8):
            ctx.violation(name + ':singular-values-not-schmidt', 'bond %d: stored %r dense %r' % (b, Ss[:6], sv[:6]), case)
            return
        if psi.chi[b - 1] != len(S):
            ctx.violation(name + ':chi', 'bond %d chi %r len(S) %d' % (b, psi.chi, len(S)), case)
        p = sv**2
        e1 = -np.sum(p * np.log(p))
        e2 = -np.log(np.sum(p**2))
        if not (abs(ent[b - 1] - e1) <= 1e-8) or not (abs(ent2[b - 1] - e2) <= 1e-8):
            ctx.violation(name + ':entanglement_entropy', 'bond %d: %r / %r expected %r / %r' % (b, ent[b - 1], ent2[b - 1], e1, e2), case)
            return
        sp = np.sort(np.asarray(spec[b - 1]))
        if len(sp) != len(S) or not (np.max(np.abs(sp[:len(sv)] - np.sort(-2 * np.log(sv)))) <= 1e-6):
            ctx.violation(name + ':entanglement_spectrum', 'bond %d' % b, case)
            return
    # charge-resolved spectrum: the Schmidt values of every charge sector of the left part (labels up to the gauge of the bond leg)
    chinfo = psi.sites[0].leg.chinfo
    mod = [int(m) for m in chinfo.mod]
    if mod and psi.bc == 'finite' and all(np.asarray(S_).ndim == 1 for S_ in psi._S):
        from vf import gen
        spec_q = psi.entanglement_spectrum(by_charge=True)
        dims = [s_.dim for s_ in psi.sites]
        T = unit.reshape(dims)
        for b in range(1, L):
            left_q = np.zeros((1, len(mod)), dtype=np.int64)
            for s_ in psi.sites[:b]:
                q_ = s_.leg.qconj * gen.leg_qflat(s_.leg)
                left_q = (left_q[:, None, :] + q_[None, :, :]).reshape(-1, len(mod))
            left_q = gen.mod_valid(left_q, mod)
            M = T.reshape(int(np.prod(dims[:b])), -1)
            groups = {}
            for q_ in set(map(tuple, left_q.tolist())):
                rows = np.all(left_q == np.array(q_), axis=1)
                sv_q = np.linalg.svd(M[rows], compute_uv=False)
                sv_q = sv_q[sv_q > 1e-10]
                if len(sv_q):
                    groups[q_] = np.sort(-2 * np.log(sv_q))
            got = []
            for q_, sub in spec_q[b - 1]:
                sub = np.asarray(sub)
                sub = sub[sub < -2 * np.log(1e-10)]
                if len(sub):
                    got.append(np.sort(sub))
            ctx.count('schmidt.by_charge_checked')
            want = sorted(groups.values(), key=lambda a: (len(a), tuple(np.round(a, 6))))
            got = sorted(got, key=lambda a: (len(a), tuple(np.round(a, 6))))
            if len(want) != len(got) or any(len(a) != len(c) or not (np.max(np.abs(a - c)) <= 1e-6) for a, c in zip(want, got)):
                ctx.violation(name + ':entanglement_spectrum(by_charge):sectors-differ-from-dense', 'bond %d: %r vs dense %r' %
                              (b, [np.round(a, 4).tolist() for a in got][:4], [np.round(a, 4).tolist() for a in want][:4]), case)
                return


def check_independent_copies(ctx, rng, psi, case):
    """An MPS denotes the state it was built from: MPS(sites, Bs, SVs), copy() and extract_segment() hold their own tensors and
    Schmidt values, so overwriting the caller's buffers / the values of the other object in place does not change the state."""
    from tenpy.networks.mps import MPS
    from vf import dense
    L = psi.L
    if L < 3 or max(psi.chi) < 2:
        return
    before = dense.finite_vector(psi).copy()
    ent_before = np.asarray(psi.entanglement_entropy()).copy()

    def unchanged(who, obj, v0, e0):
        v1 = dense.finite_vector(obj)
        e1 = np.asarray(obj.entanglement_entropy())
        if not (np.linalg.norm(v1 - v0) <= 1e-12 * max(1., np.linalg.norm(v0))) or not (np.max(np.abs(e1 - e0)) <= 1e-12):
            ctx.violation('MPS:shares-storage:%s' % who, 'state or entropies changed after the other object / the input buffers were '
                          'overwritten in place', case)
            return False
        return True

    mode = int(rng.integers(3))
    ctx.count('independent_copies.checked')
    if mode == 0:
        form = psi.form[0]
        f = {(0., 1.): 'B', (1., 0.): 'A'}.get(tuple(form), None)
        if f is None or any(tuple(x) != tuple(form) for x in psi.form):
            return
        Bs = [psi.get_B(k, form=None).copy(deep=True) for k in range(L)]
        SVs = [np.array(psi.get_SL(k), dtype=np.float64) for k in range(L)] + [np.array(psi.get_SR(L - 1), dtype=np.float64)]
        new = MPS(psi.sites, Bs, SVs, bc=psi.bc, form=f, norm=psi.norm)
        v0, e0 = dense.finite_vector(new).copy(), np.asarray(new.entanglement_entropy()).copy()
        for S_ in SVs:
            S_[...] = S_[::-1].copy() * 0.5
        for B_ in Bs:
            B_ *= 3.
        unchanged('MPS(sites,Bs,SVs)-with-the-input-arrays', new, v0, e0)
    elif mode == 1:
        cp = psi.copy()
        for k in range(1, L):
            S_ = cp.get_SL(k)
            S_[...] = S_[::-1].copy() * 0.5
        for k in range(L):
            B_ = cp.get_B(k, form=None)
            B_ *= 3.
        unchanged('copy()-with-the-original', psi, before, ent_before)
    else:
        first = int(rng.integers(0, L - 1))
        last = int(rng.integers(first + 1, L))
        src = psi.copy()
        src.canonical_form()
        v0, e0 = dense.finite_vector(src).copy(), np.asarray(src.entanglement_entropy()).copy()
        seg = src.extract_segment(first, last)
        for k in range(seg.L + 1):
            S_ = seg.get_SL(k) if k < seg.L else seg.get_SR(seg.L - 1)
            S_[...] = S_[::-1].copy() * 0.5
        for k in range(seg.L):
            B_ = seg.get_B(k, form=None)
            B_ *= 3.
        unchanged('extract_segment()-with-the-original', src, v0, e0)


def expected_total_charge(sites, qtotal):
    return np.asarray(qtotal)


def history(ctx, rng, psi, ref, case, name):
    """Random sequence of form conversions / canonicalisations: state and norm must not change."""
    steps = []
    norm0 = psi.norm
    n = int(rng.integers(1, 5))
    for _ in range(n):
        op = str(rng.choice(['convert_form', 'convert_form_list', 'canonical_form', 'copy', 'get_set_B', 'canonical_norenorm']))
        try:
            if op == 'convert_form':
                f = rng.choice(['A', 'B', 'C', 'G', 'Th'])
                psi.convert_form(str(f))
                steps.append(['convert_form', str(f)])
            elif op == 'convert_form_list':
                f = [str(rng.choice(['A', 'B', 'C', 'G', 'Th'])) for _ in range(psi.L)]
                psi.convert_form(f)
                steps.append(['convert_form', f])
            elif op == 'canonical_form':
                psi.canonical_form()
                steps.append(['canonical_form'])
            elif op == 'canonical_norenorm':
                psi.canonical_form(renormalize=False)
                steps.append(['canonical_form(renormalize=False)'])
            elif op == 'copy':
                cp = psi.copy()
                psi.convert_form('A')  # changing the original must not affect the copy
                psi = cp
                steps.append(['copy'])
            else:
                k = int(rng.integers(psi.L))
                f = str(rng.choice(['A', 'B', 'C']))
                B = psi.get_B(k, form=f, copy=True)
                psi.set_B(k, B, form=f)
                steps.append(['get_set_B', k, f])
        except Exception as e:
            ctx.violation('%s:history.%s:raises-%s' % (name, op, type(e).__name__), traceback.format_exc()[-500:], dict(case, history=steps))
            return psi
        ctx.count('history.steps')
        renorm_free = steps[-1][0] == 'canonical_form(renormalize=False)'
        c = dict(case, history=list(steps))
        # canonical_form(renormalize=True) keeps psi.norm as it was; renormalize=False folds the norm in
        r = ref if not renorm_free else ref
        v = check_state(ctx, '%s:after-%s' % (name, steps[-1][0]), psi, r, c, phase_free=False)
        if v is None:
            return psi
    return psi


# ------------------------------------------------------------------------------------------------
def build_from_full(ctx, rng, i):
    from tenpy.networks.mps import MPS
    from vf import dense
    L = int(rng.integers(2, 8))
    sites, kind = dense.make_sites(rng, L)
    if np.prod([s.dim for s in sites]) > 3000:
        L = 4
        sites = sites[:4]
    vec, qt = dense.rand_sector_vector(rng, sites, sparse=float(rng.choice([0, 0, 0.5, 0.9])))
    form = rng.choice([None, 'A', 'B', 'C', 'G'])
    normalize = bool(rng.random() < 0.5)
    case = describe(kind, L, {'builder': 'from_full', 'form': form, 'normalize': normalize, 'qtotal': qt.tolist()})
    try:
        psi = MPS.from_full(sites, dense.npc_state(sites, vec, qt), form=form, normalize=normalize)
    except Exception as e:
        ctx.violation('from_full:raises-%s' % type(e).__name__, traceback.format_exc()[-500:], case)
        return
    ctx.count('builder.from_full')
    nrm = float(np.linalg.norm(vec))
    ref = vec / nrm if normalize else vec
    v = check_state(ctx, 'from_full', psi, ref, case, expect_norm=1.0 if normalize else nrm)
    if v is None:
        return
    check_canonical(ctx, 'from_full', psi, v, case)
    tc = psi.get_total_charge(only_physical_legs=True)
    if not np.array_equal(np.asarray(tc), qt):
        ctx.violation('from_full:get_total_charge', '%r expected %r' % (np.asarray(tc).tolist(), qt.tolist()), case)
    check_independent_copies(ctx, rng, psi, case)
    psi = history(ctx, rng, psi, ref, case, 'from_full')
    ctx.sig(('from_full', kind, L, form, normalize), nontrivial=max(psi.chi) >= 2)
    if i % 150 == 0:
        ctx.sample(case)


def build_from_product_state(ctx, rng, i):
    from tenpy.networks.mps import MPS
    from vf import dense
    L = int(rng.integers(2, 8))
    sites, kind = dense.make_sites(rng, L)
    conserving = len(sites[0].leg.chinfo.mod) > 0
    p_state, local = [], []
    for s in sites:
        r = rng.random()
        if r < 0.4 or conserving and r < 0.7:
            k = int(rng.integers(s.dim))  # index in the conserve=None basis (permute=True)
            p_state.append(k)
            loc = np.zeros(s.dim)
            loc[k] = 1
            local.append(loc)
        elif r < 0.8 and s.state_labels:
            lab = str(rng.choice(sorted(s.state_labels)))
            p_state.append(lab)
            loc = np.zeros(s.dim)
            loc[s.state_labels[lab]] = 1  # labels index the *leg* basis
            local.append(('leg', loc))
        else:
            loc = rng.standard_normal(s.dim)
            loc /= np.linalg.norm(loc)
            p_state.append(loc)
            local.append(loc)
    permute = True
    dtype = np.float64
    form = str(rng.choice(['B', 'A', 'C']))
    case = describe(kind, L, {'builder': 'from_product_state', 'p_state': [x if not isinstance(x, np.ndarray) else x.tolist() for x in p_state],
                              'form': form})
    try:
        psi = MPS.from_product_state(sites, p_state, dtype=dtype, permute=permute, form=form)
    except Exception as e:
        if ('charge' in str(e).lower() or 'wrong sector' in str(e)) and any(isinstance(x, np.ndarray) for x in p_state):
            raise _Skip()  # local superposition incompatible with charge conservation: documented error
        ctx.violation('from_product_state:raises-%s' % type(e).__name__, traceback.format_exc()[-500:], case)
        return
    ctx.count('builder.from_product_state')
    # reference: local vectors given in the conserve=None basis are permuted by site.perm into the leg basis
    ref = np.ones(())
    for s, loc in zip(sites, local):
        if isinstance(loc, tuple):
            v = loc[1]
        else:
            perm = np.asarray(s.perm)
            v = np.asarray(loc)[perm]  # leg index k holds the standard-basis state perm[k]
        ref = np.multiply.outer(ref, v)
    v = check_state(ctx, 'from_product_state', psi, ref, case, expect_norm=1.0)
    if v is None:
        return
    check_canonical(ctx, 'from_product_state', psi, v, case)
    history(ctx, rng, psi, ref, case, 'from_product_state')
    ctx.sig(('from_product_state', kind, L, form, tuple(type(x).__name__ for x in p_state)), nontrivial=False)
    if i % 150 == 0:
        ctx.sample(case)


def build_from_Bflat(ctx, rng, i):
    """Random non-canonical tensors (conserve=None sites): the state is the plain product of the matrices."""
    from tenpy.networks.mps import MPS
    from vf import dense
    L = int(rng.integers(2, 7))
    kind = str(rng.choice(['spinhalf', 'spin1', 'fermion', 'boson', 'sf_none']))
    sites, kind = dense.make_sites(rng, L, kind)
    chis = [1] + [int(rng.integers(1, 5)) for _ in range(L - 1)] + [1]
    cplx = rng.random() < 0.5
    Bs = []
    for k, s in enumerate(sites):
        B = rng.standard_normal((s.dim, chis[k], chis[k + 1]))
        if cplx:
            B = B + 1j * rng.standard_normal(B.shape)
        Bs.append(B)
    case = describe(kind, L, {'builder': 'from_Bflat', 'chis': chis, 'complex': bool(cplx)})
    try:
        psi = MPS.from_Bflat(sites, Bs, form=None)
    except Exception as e:
        ctx.violation('from_Bflat:raises-%s' % type(e).__name__, traceback.format_exc()[-500:], case)
        return
    ctx.count('builder.from_Bflat')
    # reference: product of matrices; Bflat given in conserve=None basis, permuted by site.perm
    ref = None
    for s, B in zip(sites, Bs):
        Bp = B[np.asarray(s.perm)]  # leg basis
        T = np.transpose(Bp, (1, 0, 2))
        ref = T if ref is None else np.tensordot(ref, T, axes=[[-1], [0]])
    ref = ref.reshape(ref.shape[1:-1])
    nrm = float(np.linalg.norm(ref))
    if nrm < 1e-10:
        return
    # from_Bflat canonicalises (and thereby normalises) whenever some bond dimension exceeds 1
    auto_canon = L > 1 and max(chis) > 1
    v = check_state(ctx, 'from_Bflat', psi, ref / nrm if auto_canon else ref, case)
    if v is None:
        return
    # norm tracking of canonical_form: rebuild a non-canonical, non-normalised MPS through the public constructor
    from tenpy.networks.mps import MPS as _MPS
    c = float(rng.uniform(0.3, 3.0))
    k = int(rng.integers(L))
    Bs2 = [B.copy() for B in psi._B]
    Bs2[k] = Bs2[k] * c
    forms_now = list(psi.form)
    start = dense.finite_vector(psi) * c if all(f is not None for f in forms_now) else ref * c
    psi = _MPS(sites, Bs2, [np.array(S) for S in psi._S], bc='finite', form=forms_now if all(f is not None for f in forms_now) else None)
    renorm = bool(rng.random() < 0.5)
    c2 = dict(case, scaled_site=k, factor=c, canonical_form={'renormalize': renorm})
    try:
        psi.canonical_form(renormalize=renorm)
    except Exception as e:
        ctx.violation('canonical_form_finite:raises-%s' % type(e).__name__, traceback.format_exc()[-500:], c2)
        return
    n0 = float(np.linalg.norm(start))
    exp = start / n0 * (1.0 if renorm else n0)
    v = check_state(ctx, 'canonical_form_finite(renormalize=%s)' % renorm, psi, exp, c2, phase_free=False,
                    expect_norm=1.0 if renorm else n0)
    if v is None:
        return
    check_canonical(ctx, 'canonical_form_finite', psi, v, c2)
    history(ctx, rng, psi, exp, c2, 'from_Bflat')
    ctx.sig(('from_Bflat', kind, L, tuple(chis), renorm), nontrivial=max(chis) >= 2)
    if i % 150 == 0:
        ctx.sample(case)


def build_from_singlets(ctx, rng, i):
    from tenpy.networks.mps import MPS
    from vf import dense
    L = int(rng.integers(2, 9))
    kind = str(rng.choice(['spinhalf', 'spinhalf_Sz', 'spinhalf_parity']))
    sites, kind = dense.make_sites(rng, L, kind)
    s = sites[0]
    perm = [int(x) for x in rng.permutation(L)]
    npairs = int(rng.integers(1, L // 2 + 1))
    pairs = [tuple(sorted((perm[2 * k], perm[2 * k + 1]))) for k in range(npairs)]
    lonely = sorted(perm[2 * npairs:])
    lonely_state = str(rng.choice(['up', 'down']))
    case = describe(kind, L, {'builder': 'from_singlets', 'pairs': pairs, 'lonely': lonely, 'lonely_state': lonely_state})
    try:
        psi = MPS.from_singlets(s, L, pairs, lonely=lonely, lonely_state=lonely_state)
    except Exception as e:
        ctx.violation('from_singlets:raises-%s' % type(e).__name__, traceback.format_exc()[-500:], case)
        return
    ctx.count('builder.from_singlets')
    up, down = s.state_labels['up'], s.state_labels['down']
    ref = np.zeros([2] * L)
    # sum over assignments
    import itertools
    for bits in itertools.product([0, 1], repeat=npairs):
        idx = [None] * L
        sign = 1.0
        for (a, b), bit in zip(pairs, bits):
            if bit == 0:
                idx[a], idx[b] = up, down
            else:
                idx[a], idx[b] = down, up
                sign = -sign
        for k in lonely:
            idx[k] = s.state_labels[lonely_state]
        ref[tuple(idx)] += sign / np.sqrt(2)**npairs
    v = check_state(ctx, 'from_singlets', psi, ref, case, expect_norm=1.0, phase_free=True)
    if v is None:
        return
    check_canonical(ctx, 'from_singlets', psi, v, case)
    ctx.sig(('from_singlets', kind, L, tuple(pairs)), nontrivial=True)
    if i % 150 == 0:
        ctx.sample(case)


def build_from_product_mps_covering(ctx, rng, i):
    from tenpy.networks.mps import MPS
    from vf import dense
    L = int(rng.integers(3, 8))
    kinds = ['spinhalf', 'spinhalf_Sz', 'spin1_Sz', 'fermion_N', 'boson_N', 'spinhalf_parity', 'fermion_parity']
    if rng.random() < 0.35:
        # several entangled pairs crossing the same bonds: the singular values of the crossing pairs are combined (and permuted
        # with the pipe of the combined bond legs)
        m = int(rng.integers(2, 5))
        L = 2 * m
        # (no fermions here: interleaving fermionic local states needs an operator ordering the constructor does not define)
        sites, kind = dense.make_sites(rng, L, str(rng.choice(['spinhalf_Sz', 'spinhalf_parity', 'spinhalf', 'spin1_Sz', 'boson_N'])))
        shift = int(rng.integers(1, m + 1))
        left = list(range(m))
        right = [m + (k + shift) % m for k in range(m)]
        groups = [tuple(sorted((a, b))) for a, b in zip(left, right)]
        ctx.count('covering.crossing_pairs')
    else:
        sites, kind = dense.make_sites(rng, L, str(rng.choice(kinds)))
        perm = [int(x) for x in rng.permutation(L)]
        if any(dense.is_fermionic(s_) for s_ in sites):
            perm = list(range(L))  # fermions: contiguous local states only (interleaving would need a fermionic operator ordering)
        groups = []
        k = 0
        while k < L:
            n = int(rng.integers(1, 4))
            groups.append(tuple(sorted(perm[k:k + n])))
            k += n
    local, locvecs = [], []
    for g in groups:
        ss = [sites[j] for j in g]
        vec, qt = dense.rand_sector_vector(rng, ss, cplx=False)
        vec = vec / np.linalg.norm(vec)
        if len(g) == 1:
            # one-site MPS via product state (array entry given in the leg basis: permute=False)
            lp = MPS.from_product_state(ss, [vec], permute=False)
        else:
            lp = MPS.from_full(ss, dense.npc_state(ss, vec, qt))
        local.append(lp)
        locvecs.append(vec)
    case = describe(kind, L, {'builder': 'from_product_mps_covering', 'index_map': groups})
    try:
        psi = MPS.from_product_mps_covering(local, groups)
    except Exception as e:
        interleaved = any(any(a < x < b for g2 in groups if g2 is not g for x in g2) for g in groups if len(g) > 1
                          for a, b in zip(g[:-1], g[1:]))
        entangled = any(lp.L > 1 and max(lp.chi) > 1 for lp in local)
        if 'incompatible LegCharge' in str(e) and interleaved and entangled:
            ctx.violation('from_product_mps_covering:interleaved-entangled-local-mps-raises-incompatible-LegCharge',
                          'entangled local MPS whose bond passes over sites of another local MPS: ' + str(e).splitlines()[0], case)
        else:
            ctx.violation('from_product_mps_covering:raises-%s' % type(e).__name__, traceback.format_exc()[-500:], case)
        return
    ctx.count('builder.from_product_mps_covering')
    # reference: tensor product with axes placed according to index_map
    ref = np.ones(())
    axes = []
    for g, v in zip(groups, locvecs):
        ref = np.multiply.outer(ref, v)
        axes.extend(g)
    ref = np.transpose(ref, np.argsort(axes))
    interleaved = any(any(a < x < b for g2 in groups if g2 is not g for x in g2) for g in groups if len(g) > 1 for a, b in zip(g[:-1], g[1:]))
    entangled = any(lp.L > 1 and max(lp.chi) > 1 for lp in local)
    # mechanism of the recorded finding: the bond legs of local MPS passing over each other are fused into *sorted* pipes, and the two
    # tensors sharing a bond fuse different sets of (trivial) legs, so the orders of their combined indices can differ (an error is
    # raised if the charges differ, the state is silently wrong if they agree)
    name_ = 'from_product_mps_covering:interleaved-entangled-local-mps' if (interleaved and entangled) else 'from_product_mps_covering'
    v = check_state(ctx, name_, psi, ref, case, phase_free=any(is_f for is_f in [dense.is_fermionic(s) for s in sites]))
    if v is None:
        return
    check_canonical(ctx, name_, psi, v, case)
    ctx.sig(('covering', kind, L, tuple(groups)), nontrivial=any(len(g) > 1 for g in groups))
    if i % 150 == 0:
        ctx.sample(case)


def build_from_random_unitary_evolution(ctx, rng, i):
    """No reference state: the result must be a normalised canonical MPS in the charge sector of the product state."""
    from tenpy.networks.mps import MPS
    from vf import dense
    L = int(rng.integers(2, 7))
    # the constructor loops until the requested bond dimension is reached: only reachable requests are made
    if rng.random() < 0.5:
        sites, kind = dense.make_sites(rng, L, str(rng.choice(['spinhalf', 'spin1'])))
        p_state = [int(rng.integers(s.dim)) for s in sites]
        chi = int(rng.integers(2, min(5, sites[0].dim**(L // 2)) + 1))
    else:
        sites, kind = dense.make_sites(rng, L, str(rng.choice(['spinhalf_Sz', 'fermion_N'])))
        p_state = [k % 2 for k in range(L)]  # Neel-type state: the sector allows entanglement
        chi = 2
    case = describe(kind, L, {'builder': 'from_random_unitary_evolution', 'p_state': p_state, 'chi': chi})
    state = np.random.get_state()
    np.random.seed(int(rng.integers(1 << 30)))
    try:
        psi = MPS.from_random_unitary_evolution(sites, chi, p_state)
    except Exception as e:
        ctx.violation('from_random_unitary_evolution:raises-%s' % type(e).__name__, traceback.format_exc()[-500:], case)
        return
    finally:
        np.random.set_state(state)
    ctx.count('builder.from_random_unitary_evolution')
    vec = dense.finite_vector(psi)
    if not (abs(np.linalg.norm(vec) - 1) <= 1e-8):
        ctx.violation('from_random_unitary_evolution:not-normalised', '%r' % np.linalg.norm(vec), case)
        return
    ref0 = MPS.from_product_state(sites, p_state)
    if not np.array_equal(np.asarray(psi.get_total_charge(only_physical_legs=True)), np.asarray(ref0.get_total_charge(only_physical_legs=True))):
        ctx.violation('from_random_unitary_evolution:charge-sector-changed', '', case)
    check_canonical(ctx, 'from_random_unitary_evolution', psi, vec, case)
    history(ctx, rng, psi, vec, case, 'from_random_unitary_evolution')
    ctx.sig(('rue', kind, L, chi), nontrivial=max(psi.chi) >= 2)


def build_from_desired_bond_dimension(ctx, rng, i):
    from tenpy.networks.mps import MPS
    from vf import dense
    L = int(rng.integers(2, 7))
    sites, kind = dense.make_sites(rng, L, str(rng.choice(['spinhalf', 'spin1', 'boson'])))
    d = sites[0].dim
    # only reachable bond dimensions (chi_k <= d^min(k, L-k)); an unreachable request is an input error
    chis = [min(int(rng.integers(1, 5)), d**min(k + 1, L - k - 1)) for k in range(L - 1)]
    case = describe(kind, L, {'builder': 'from_desired_bond_dimension', 'chis': list(chis)})
    state = np.random.get_state()
    np.random.seed(int(rng.integers(1 << 30)))
    try:
        psi = MPS.from_desired_bond_dimension(sites, chis)
    except Exception as e:
        ctx.violation('from_desired_bond_dimension:raises-%s' % type(e).__name__, traceback.format_exc()[-500:], case)
        return
    finally:
        np.random.set_state(state)
    ctx.count('builder.from_desired_bond_dimension')
    vec = dense.finite_vector(psi)
    if not (abs(np.linalg.norm(vec) - 1) <= 1e-8):
        ctx.violation('from_desired_bond_dimension:not-normalised', '%r' % np.linalg.norm(vec), case)
        return
    check_canonical(ctx, 'from_desired_bond_dimension', psi, vec, case)
    ctx.sig(('dbd', kind, L, repr(chis)), nontrivial=max(psi.chi) >= 2)


def build_project_onto_charge_sector(ctx, rng, i):
    from tenpy.networks.mps import MPS
    from vf import dense, gen
    L = int(rng.integers(2, 6))
    sites, kind = dense.make_sites(rng, L, str(rng.choice(['spinhalf_Sz', 'fermion_N', 'boson_N', 'spin1_Sz'])))
    s = sites[0]
    local = [rng.standard_normal(s.dim) for _ in range(L)]
    local = [v / np.linalg.norm(v) for v in local]
    mod = [int(m) for m in s.leg.chinfo.mod]
    qfl = [gen.leg_qflat(x.leg) for x in sites]
    idx = [int(rng.integers(x.dim)) for x in sites]
    sector = gen.mod_valid(sum(x.leg.qconj * q[k] for x, q, k in zip(sites, qfl, idx)), mod)
    case = describe(kind, L, {'builder': 'project_onto_charge_sector', 'sector': sector.tolist()})
    try:
        psi = MPS.project_onto_charge_sector(sites, [v.copy() for v in local], tuple(int(x) for x in sector))
    except Exception as e:
        ctx.violation('project_onto_charge_sector:raises-%s' % type(e).__name__, traceback.format_exc()[-500:], case)
        return
    ctx.count('builder.project_onto_charge_sector')
    ref = np.ones(())
    for x, v in zip(sites, local):
        ref = np.multiply.outer(ref, v)  # documented: p_state given in the basis of the site (no permutation argument)
    mask = gen.charge_mask(qfl, [x.leg.qconj for x in sites], sector, mod)
    proj = np.where(mask, ref, 0)
    if np.linalg.norm(proj) < 1e-8:
        raise _Skip()
    vec = dense.finite_vector(psi, include_norm=False)
    ov, _ = dense.align_phase(vec.reshape(-1), proj.reshape(-1))
    # local vectors may be interpreted in the conserve=None basis: accept either convention, but it must be a projection
    refp = np.ones(())
    for x, v in zip(sites, local):
        refp = np.multiply.outer(refp, v[np.asarray(x.perm)])
    projp = np.where(mask, refp, 0)
    ov2 = dense.align_phase(vec.reshape(-1), projp.reshape(-1))[0] if np.linalg.norm(projp) > 1e-8 else 0
    # the implementation reads the local amplitudes in reversed order ("go through values reversed"); the docstring
    # does not fix a convention, so any of the three is accepted -- but the result must be *a* projected product state
    refr = np.ones(())
    for x, v in zip(sites, local):
        refr = np.multiply.outer(refr, v[::-1])
    projr = np.where(mask, refr, 0)
    ov3 = dense.align_phase(vec.reshape(-1), projr.reshape(-1))[0] if np.linalg.norm(projr) > 1e-8 else 0
    ov = max(ov, ov3)
    if np.linalg.norm(projr) < 1e-8:
        raise _Skip()
    if max(ov, ov2) < 1 - 1e-8:
        ctx.violation('project_onto_charge_sector:not-the-projected-state', 'overlap with projected product state %r / %r' % (ov, ov2), case)
        return
    if not np.array_equal(np.asarray(psi.get_total_charge(only_physical_legs=True)), sector):
        ctx.violation('project_onto_charge_sector:wrong-sector', '', case)
    ctx.sig(('project', kind, L), nontrivial=max(psi.chi) >= 2)


def build_segment(ctx, rng, i):
    """Segment MPS: from_full with vL/vR legs and outer_S; extract_segment of a finite MPS."""
    from tenpy.networks.mps import MPS
    from vf import dense
    L = int(rng.integers(4, 8))
    sites, kind = dense.make_sites(rng, L)
    if np.prod([s.dim for s in sites]) > 3000:
        raise _Skip()
    vec, qt = dense.rand_sector_vector(rng, sites)
    vec = vec / np.linalg.norm(vec)
    psi = MPS.from_full(sites, dense.npc_state(sites, vec, qt))
    first = int(rng.integers(0, L - 2))
    last = int(rng.integers(first + 1, L))
    case = describe(kind, L, {'builder': 'segment', 'first': first, 'last': last})
    try:
        seg = psi.extract_segment(first, last)
        seg.test_sanity()
    except Exception as e:
        ctx.violation('extract_segment:raises-%s' % type(e).__name__, traceback.format_exc()[-500:], case)
        return
    ctx.count('segment.cases')
    # the segment tensor (vL, p_first..p_last, vR) equals the Schmidt-basis decomposition of the full state:
    # contracting with the environments' orthonormal Schmidt vectors gives back the state; check via singular values:
    T = dense.mps_to_vector(seg)
    if not (abs(np.linalg.norm(T) - 1) <= 1e-8):
        ctx.violation('extract_segment:segment-not-normalised', '|theta| = %r' % np.linalg.norm(T), case)
        return
    # reduced density matrix of the segment sites must equal the dense one
    n = last - first + 1
    dl = int(np.prod([s.dim for s in sites[:first]])) if first else 1
    dm = int(np.prod([s.dim for s in sites[first:last + 1]]))
    M = vec.reshape(dl, dm, -1)
    rho = np.einsum('amb,anb->mn', M, M.conj())
    Tm = T.reshape(T.shape[0], dm, T.shape[-1])
    rho_seg = np.einsum('amb,anb->mn', Tm, Tm.conj())
    if not (np.linalg.norm(rho - rho_seg) <= 1e-8):
        ctx.violation('extract_segment:reduced-density-matrix-differs', '|rho - rho_seg| = %g' % np.linalg.norm(rho - rho_seg), case)
    # entropies of a segment: one value per bond 0..L_seg, the cuts first..last+1 of the full state
    n_r = [1, 2, 0.5][int(rng.integers(3))]
    ent = np.asarray(seg.entanglement_entropy(n=n_r))
    exp_ent = []
    for b in range(first, last + 2):
        sv = dense.schmidt_values(vec, b) if 0 < b < L else np.ones(1)
        p_ = sv[sv > 1e-14]**2
        exp_ent.append(-np.sum(p_ * np.log(p_)) if n_r == 1 else np.log(np.sum(p_**n_r)) / (1. - n_r))
    ctx.count('segment.entropies')
    if ent.shape != (n + 1,) or not (np.max(np.abs(ent - np.asarray(exp_ent))) <= (1e-8 if n_r >= 1 else 1e-5)):
        ctx.violation('segment.entanglement_entropy:differs-from-dense-state', 'n=%r segment %d..%d of %d: %r expected %r' %
                      (n_r, first, last, L, ent.tolist(), exp_ent), case)
    e_last = seg.entanglement_entropy(n=n_r, bonds=[n])
    if not (abs(e_last[0] - exp_ent[-1]) <= (1e-8 if n_r >= 1 else 1e-5)):
        ctx.violation('segment.entanglement_entropy:right-most-bond', '%r expected %r' % (e_last[0], exp_ent[-1]), case)
    # form conversions on a segment keep theta
    try:
        seg.convert_form(str(rng.choice(['A', 'C', 'G', 'Th'])))
        T2 = dense.mps_to_vector(seg)
        if not (np.linalg.norm(T2 - T) <= 1e-8):
            ctx.violation('segment.convert_form:state-differs', '', case)
    except Exception as e:
        ctx.violation('segment.convert_form:raises-%s' % type(e).__name__, traceback.format_exc()[-500:], case)
    # repeated canonicalisation of a segment: the gauge rotations of the two boundary legs are accumulated in `segment_boundaries`
    # (U_L, V_R); U_L . segment . V_R (norm included) is what the segment represents inside the original environment and must follow
    # exactly the local operators applied, however often canonical_form() runs in between
    def seg_full(sg):
        Tn = dense.mps_to_vector(sg)
        UL, VR = sg.segment_boundaries
        if UL is not None:
            Tn = np.tensordot(UL.itranspose(['vL', 'vR']).to_ndarray(), Tn, axes=[1, 0])
            Tn = np.tensordot(Tn, VR.itranspose(['vL', 'vR']).to_ndarray(), axes=[Tn.ndim - 1, 0])
        return Tn

    try:
        seg2 = psi.extract_segment(first, last)
        F = seg_full(seg2)
        for rep in range(int(rng.integers(2, 4))):
            j = int(rng.integers(0, n))
            st = seg2.sites[j]
            names = sorted(nm for nm in st.opnames if not st.op_needs_JW(nm) and not np.any(st.get_op(nm).qtotal != 0) and nm != 'Id')
            if not names:
                break
            nm = names[int(rng.integers(len(names)))]
            O = st.get_op(nm).to_ndarray() + 0.7 * np.eye(st.dim)  # non-unitary, invertible-ish, charge neutral
            from tenpy.linalg import np_conserved as npc
            op = st.get_op(nm) + 0.7 * st.get_op('Id')
            seg2.apply_local_op(j, op, unitary=False, renormalize=False)  # canonicalises the segment again
            F = np.moveaxis(np.tensordot(O, F, axes=[1, j + 1]), 0, j + 1)
            got = seg_full(seg2)
            ctx.count('segment.recanonicalised')
            if got.shape != F.shape or not (np.linalg.norm(got - F) <= 1e-8 * max(1.0, np.linalg.norm(F))):
                ctx.violation('segment.canonical_form:boundary-rotations-not-accumulated', 'after %d local operators with re-canonicalisation: '
                              '|U_L.segment.V_R - expected| = %g (|expected| = %g)' %
                              (rep + 1, np.linalg.norm(got - F) if got.shape == F.shape else -1, np.linalg.norm(F)), case)
                break
    except Exception as e:
        tb = traceback.format_exc()
        if '/tenpy/' in tb:
            ctx.violation('segment.apply_local_op:raises-%s' % type(e).__name__, tb[-500:], case)
        else:
            raise
    ctx.sig(('segment', kind, L, first, last), nontrivial=True)


def window_theta(psi, i0, n):
    """Harness theta over sites i0..i0+n-1 of an infinite MPS: S_left * B...B (B form), axes (vL, p.., vR)."""
    from vf import dense
    L = psi.L
    res = None
    for k in range(i0, i0 + n):
        j = k % L
        T = dense.stored_tensor(psi, j)
        f = psi.form[j]
        SL, SR = np.asarray(psi._S[j]), np.asarray(psi._S[(j + 1) % len(psi._S)] if psi.bc == 'infinite' else psi._S[j + 1])
        T = dense._spow(SL, 0. - f[0])[:, None, None] * T * dense._spow(SR, 1. - f[1])[None, None, :]
        if res is None:
            res = dense._spow(SL, 1.)[:, None, None] * T
        else:
            res = np.tensordot(res, T, axes=[[-1], [0]])
    return res


def build_from_lat_product_state(ctx, rng, i):
    """Product state given in lattice coordinates (tiled pattern): every site holds the state of its lattice position, whatever the
    order of the lattice is."""
    from tenpy.networks.mps import MPS
    import checks.C19 as C19
    kind = str(rng.choice(['Chain', 'Ladder', 'Square', 'Honeycomb', 'Kagome', 'Triangular', 'Lattice']))
    try:
        lat, desc = C19.make_lattice(ctx, rng, kind)
    except Exception:
        raise _Skip()
    shape = tuple(int(x) for x in lat.shape)
    # pattern whose extent divides the lattice shape in every direction (tiled by from_lat_product_state)
    pat_shape = tuple(int(rng.choice([d for d in range(1, n + 1) if n % d == 0])) for n in shape[:-1]) + (shape[-1], )
    dims_u = [s_.dim for s_ in lat.unit_cell]
    pat = np.zeros(pat_shape, dtype=int)
    for idx in np.ndindex(*pat_shape):
        pat[idx] = int(rng.integers(dims_u[idx[-1]]))
    case = {'builder': 'from_lat_product_state', 'lattice': kind, 'shape': list(shape), 'order': str(desc.get('order')), 'bc_MPS': lat.bc_MPS,
            'pattern': pat.tolist()}
    try:
        psi = MPS.from_lat_product_state(lat, pat, permute=False)
        psi.test_sanity()
    except Exception as e:
        tb = traceback.format_exc()
        if '/tenpy/' not in tb:
            raise
        ctx.violation('from_lat_product_state:raises-%s' % type(e).__name__, tb[-500:], case)
        return
    ctx.count('builder.from_lat_product_state')
    if psi.L != lat.N_sites or psi.bc != lat.bc_MPS:
        ctx.violation('from_lat_product_state:geometry', 'L %d bc %r for a lattice with %d sites, bc_MPS %r' % (psi.L, psi.bc, lat.N_sites, lat.bc_MPS), case)
        return
    for j in range(psi.L):
        li = [int(x) for x in lat.mps2lat_idx(j)]
        want = int(pat[tuple(a % b for a, b in zip(li, pat_shape))])
        B = psi.get_B(j).to_ndarray().reshape(-1)
        if B.shape[0] != lat.mps_sites()[j].dim or int(np.argmax(np.abs(B))) != want or not (abs(abs(B[want]) - 1) <= 1e-12):
            ctx.violation('from_lat_product_state:wrong-state-on-site', 'MPS site %d = lattice %r holds basis state %d, pattern says %d' %
                          (j, li, int(np.argmax(np.abs(B))), want), case)
            return
    ctx.sig(('from_lat_product_state', kind, shape, str(desc.get('order')), pat_shape), nontrivial=lat.dim >= 2 or shape[-1] >= 2)


def build_infinite(ctx, rng, i):
    """Infinite MPS from random tensors: canonical_form_infinite1/2, then window observables invariant under form changes."""
    from tenpy.networks.mps import MPS
    from vf import dense
    L = int(rng.integers(1, 4))
    kind = str(rng.choice(['spinhalf', 'spin1', 'boson', 'fermion']))
    sites, kind = dense.make_sites(rng, L, kind)
    chi = int(rng.integers(2, 5))
    Bs = [rng.standard_normal((s.dim, chi, chi)) + (1j * rng.standard_normal((s.dim, chi, chi)) if rng.random() < 0.5 else 0)
          for s in sites]
    which = int(rng.integers(1, 3))
    case = describe(kind, L, {'builder': 'infinite', 'chi': chi, 'canonical_form_infinite': which})
    try:
        psi = MPS.from_Bflat(sites, Bs, bc='infinite', form=None)
        if L >= 2 and rng.random() < 0.35:
            # tensors of different dtypes on different sites: a real state in which one site got a complex tensor through set_B
            j_c = int(rng.integers(L))
            Bs = [np.real(B) + (1j * rng.standard_normal(B.shape) if k_ == j_c else 0) for k_, B in enumerate(Bs)]
            psi_c = MPS.from_Bflat(sites, Bs, bc='infinite', form=None)
            psi = MPS.from_Bflat(sites, [np.real(B) for B in Bs], bc='infinite', form=None)
            psi.set_B(j_c, psi_c.get_B(j_c, form=None), form=None)
            case['complex_tensor_only_on_site'] = j_c
            ctx.count('infinite.mixed_dtypes')
        if 'complex_tensor_only_on_site' in case:
            # (recorded finding: see known_findings.json; all verdicts of such a case carry the mechanism in their key)
            _orig_violation = ctx.violation

            def _tagged(key, what, case_=None, **kw):
                return _orig_violation(key + ':tensors-of-different-dtypes', what, case_, **kw)

            ctx.violation = _tagged
        elif rng.random() < 0.25:
            # a real state whose tensors are all replaced by complex ones through set_B (bookkeeping of MPS.dtype)
            Bs = [np.real(B) + 1j * rng.standard_normal(B.shape) for B in Bs]
            psi_c = MPS.from_Bflat(sites, Bs, bc='infinite', form=None)
            psi = MPS.from_Bflat(sites, [np.real(B) for B in Bs], bc='infinite', form=None)
            for k_ in range(L):
                psi.set_B(k_, psi_c.get_B(k_, form=None), form=None)
            case['all_tensors_replaced_by_complex_ones'] = True
            ctx.count('infinite.real_state_made_complex_by_set_B')
        if which == 1:
            psi.canonical_form_infinite1()
        else:
            psi.canonical_form_infinite2()
        psi.test_sanity()
    except Exception as e:
        if isinstance(e, RuntimeError) and 'did not converge' in str(e):
            # the iterative orthogonalisation gave up and says so (default tol 1e-15 is at round-off): a refusal, not a wrong state
            ctx.count('canonical_form_infinite%d.did_not_converge' % which)
            raise _Skip()
        ctx.violation('canonical_form_infinite%d:raises-%s' % (which, type(e).__name__), traceback.format_exc()[-500:], case)
        return
    ctx.count('infinite.cases')
    nt = psi.norm_test()
    if not (np.max(np.abs(nt)) <= 1e-6):
        ctx.violation('canonical_form_infinite%d:norm_test-nonzero' % which, '%r' % np.asarray(nt).tolist(), case)
        return
    # reference transfer-matrix fixed point from the raw input tensors: dominant eigenvector of the unit-cell transfer
    # matrix gives the exact single-site reduced density matrices
    D = chi
    E = np.eye(D * D).reshape(D, D, D, D)

    def transfer(Bp):
        # Bp: (vL, p, vR)
        return np.einsum('apb,cpd->acbd', Bp, Bp.conj()).reshape(D * D, D * D)

    raw = [np.transpose(B[np.asarray(s.perm)], (1, 0, 2)) for s, B in zip(sites, Bs)]
    Tm = np.eye(D * D)
    for R in raw:
        Tm = Tm @ transfer(R)
    w, vr = np.linalg.eig(Tm)
    k = int(np.argmax(np.abs(w)))
    gap_ok = np.sort(np.abs(w))[-2] < 0.98 * np.abs(w[k]) if len(w) > 1 else True
    if not gap_ok:
        raise _Skip()
    wl, vl = np.linalg.eig(Tm.T)
    kl = int(np.argmax(np.abs(wl)))
    r = vr[:, k].reshape(D, D)
    l = vl[:, kl].reshape(D, D)
    # single-site density matrix at site 0 of the unit cell: rho_{pq} = l_{ac} A_{apb} conj(A_{cqd}) [T_rest r]_{bd}
    rest = np.eye(D * D)
    for R in raw[1:]:
        rest = rest @ transfer(R)
    rr = (rest @ r.reshape(-1)).reshape(D, D)
    rho = np.einsum('ac,apb,cqd,bd->pq', l, raw[0], raw[0].conj(), rr)
    rho = rho / np.trace(rho)
    # tenpy side: harness theta on site 0 from raw storage
    th = window_theta(psi, 0, 1)
    rho_t = np.einsum('apb,aqb->pq', th, th.conj())
    if not (abs(np.trace(rho_t) - 1) <= 1e-7):
        ctx.violation('canonical_form_infinite%d:theta-not-normalised' % which, 'tr rho = %r' % np.trace(rho_t), case)
        return
    if not (np.linalg.norm(rho_t - rho) <= 1e-6):
        ctx.violation('canonical_form_infinite%d:local-density-matrix-differs' % which,
                      '|rho_mps - rho_exact| = %g' % np.linalg.norm(rho_t - rho), case)
        return
    if 'complex_tensor_only_on_site' in case:
        return  # (only the canonicalisation itself is judged for tensors of different dtypes: see the recorded finding)
    # entropies at explicitly given bonds, including bond L (= bond 0 of the next unit cell) and beyond
    n_r = [1, 2, 0.5][int(rng.integers(3))]
    bonds = [int(b) for b in rng.integers(0, 2 * L + 1, size=3)] + [L]
    ent = np.asarray(psi.entanglement_entropy(n=n_r, bonds=bonds))
    ctx.count('infinite.entropy_at_given_bonds')
    for b, e in zip(bonds, ent):
        p_ = np.asarray(psi._S[b % L])**2
        p_ = p_[p_ > 1e-30]
        exp_e = -np.sum(p_ * np.log(p_)) if n_r == 1 else np.log(np.sum(p_**n_r)) / (1. - n_r)
        if not (abs(e - exp_e) <= 1e-9):
            ctx.violation('infinite.entanglement_entropy:given-bond', 'n=%r bond %d of a unit cell of %d sites: %r, from the stored Schmidt '
                          'values %r' % (n_r, b, L, e, exp_e), case)
            return
    # form conversions and get_theta across the unit-cell boundary keep window density matrices
    n = int(rng.integers(1, 4))
    i0 = int(rng.integers(0, 2 * L))
    base = window_theta(psi, i0, n)
    try:
        th_t = psi.get_theta(i0, n)
        idx = [th_t.get_leg_index(l) for l in ['vL'] + ['p%d' % k for k in range(n)] + ['vR']]
        th_d = np.transpose(th_t.to_ndarray(), idx)
        if not (np.linalg.norm(th_d - base) <= 1e-8):
            ctx.violation('get_theta:differs-from-harness-contraction', 'i=%d n=%d: |diff| = %g' % (i0, n, np.linalg.norm(th_d - base)), case)
        f = [str(rng.choice(['A', 'B', 'C', 'G', 'Th'])) for _ in range(L)]
        psi.convert_form(f)
        after = window_theta(psi, i0, n)
        if not (np.linalg.norm(after - base) <= 1e-8):
            ctx.violation('infinite.convert_form:window-state-differs', 'forms %r window (%d,%d)' % (f, i0, n), dict(case, forms=f))
        th2 = psi.get_theta(i0, n)
        th2d = np.transpose(th2.to_ndarray(), [th2.get_leg_index(l) for l in ['vL'] + ['p%d' % k for k in range(n)] + ['vR']])
        if not (np.linalg.norm(th2d - base) <= 1e-8):
            ctx.violation('get_theta:depends-on-form', 'forms %r window (%d,%d): |diff| %g' % (f, i0, n, np.linalg.norm(th2d - base)), dict(case, forms=f))
        # canonicalising again from site-dependent forms (the gauge of the bonds may change, the state may not):
        # the reduced density matrix of the window is gauge invariant
        def window_rho_(t):
            M = t.reshape(t.shape[0], -1, t.shape[-1])
            return np.einsum('apb,aqb->pq', M, M.conj())

        rho_before = window_rho_(base)
        which2 = int(rng.integers(1, 3))
        try:
            if which2 == 1:
                psi.canonical_form_infinite1()
            else:
                psi.canonical_form_infinite2()
        except RuntimeError as e:
            if 'did not converge' in str(e):
                ctx.count('canonical_form_infinite%d.did_not_converge' % which2)
                raise _Skip()
            raise
        ctx.count('infinite.recanonicalised_from_mixed_forms')
        psi.test_sanity()
        rho_after = window_rho_(window_theta(psi, i0, n))
        nt2 = psi.norm_test()
        if not (np.max(np.abs(nt2)) <= 1e-6):
            ctx.violation('canonical_form_infinite%d:from-mixed-forms:norm_test-nonzero' % which2, 'forms %r: %r' % (f, np.max(np.abs(nt2))), dict(case, forms=f))
        elif not (np.linalg.norm(rho_after - rho_before) <= 1e-6):
            ctx.violation('canonical_form_infinite%d:from-mixed-forms:state-differs' % which2, 'forms %r window (%d,%d): |rho - rho_before| = %g' %
                          (f, i0, n, np.linalg.norm(rho_after - rho_before)), dict(case, forms=f))
    except _Skip:
        raise
    except Exception as e:
        ctx.violation('infinite.history:raises-%s' % type(e).__name__, traceback.format_exc()[-500:], case)
    ctx.sig(('infinite', kind, L, chi, which), nontrivial=True)
    if i % 150 == 0:
        ctx.sample(case)
