"""C17 — saving and loading reproduces an equal object (round-trip monitors over generated object graphs)."""
import copy
import io
import os
import pickle
import tempfile
import traceback
import warnings

import numpy as np

from vf.runner import shard

PROP = 'C17'
LEVEL = 'exploration'
RULE = ('object graphs built from: scalars (None, bool, int incl. > 2^64, float incl. nan/inf, complex, str incl. unicode, bytes, numpy '
        'scalars), ndarrays (all dataset dtypes, 0-d, empty), masked arrays, dtype, range, nested list/tuple/set/dict (simple and '
        'general keys), shared references and self-referential containers, and instances of every tenpy class that offers save_hdf5 '
        '(discovered by reflection; generators of C01-C12: ChargeInfo, LegCharge of every kind, LegPipe, Array, sites, GroupedSite, '
        'MPS finite/segment/infinite, MPO, lattices, models incl. the predefined ones, term lists, TruncationError, Config); each '
        'graph goes through HDF5 (format selection None/blocks/compact/flat), hdf5_io.save/load with .h5/.pkl/.pklz files, pickle '
        'and deepcopy; the result is compared by a generic structural comparator (types, dtypes, values, leg structure), its own '
        'test_sanity, class-specific dense observables, and a sharing monitor (partition of container slots by object identity). '
        'non-trivial = graph with a tenpy object or sharing; distinct = (root kinds, route)'
        ' Also: saves at the root path of the file, DipolarChargeInfo, segment lattices and models, objects saved next to their own parts.')
ASSUMPTIONS = ['h5py/pickle themselves are trusted', 'documented exception: tuples inside reference cycles come back as lists',
               "format 'flat' is documented lossy: compared through the charge of every index, not the block structure"]
ANCHORS = {'tenpy/tools/hdf5_io.py': ['*'], 'tenpy/linalg/charges.py': ['save_hdf5', 'from_hdf5', '__getstate__', '__setstate__'],
           'tenpy/linalg/np_conserved.py': ['save_hdf5', 'from_hdf5']}
REQUIRED_COUNTERS = {'roundtrips': 300, 'route.hdf5': 100, 'route.pickle': 30, 'route.deepcopy': 30, 'route.file': 20,
                     'sharing.checked': 100, 'sharing.graphs_with_sharing': 30, 'kind.Array': 20, 'kind.LegCharge': 12, 'kind.MPS': 10,
                     'kind.MPO': 8, 'kind.lattice': 8, 'kind.model': 8, 'kind.site': 10, 'kind.terms': 8, 'cyclic.checked': 10}


def plan(tier, seed, jobs):
    q = tier == 'quick'
    return (shard('compiled', 900 if q else 9000, 12, part='graph', timeout=3000, time_budget=150 if q else 1500) +
            shard('compiled', 1, 1, part='reflect', timeout=3000, time_budget=200 if q else 1500) +
            shard('pure', 60 if q else 600, 2, part='graph', timeout=3000, time_budget=150 if q else 1500))


def worker_init(ctx):
    warnings.simplefilter('ignore')
    import logging
    logging.disable(logging.CRITICAL)


class _Skip(Exception):
    pass


def run_case(ctx, i):
    try:
        globals()['case_' + ctx.unit['part']](ctx, i)
    except _Skip:
        ctx.count('skipped')


# ------------------------------------------------------------------------------------------------
# harness-defined classes (importable as checks.C17.<name>): the generic Hdf5Exportable path and the pickle-protocol fallback
# ------------------------------------------------------------------------------------------------
def _exportable_base():
    from tenpy.tools.hdf5_io import Hdf5Exportable
    return Hdf5Exportable


class Plain:
    """No HDF5 format of its own: saved through __reduce__ (state = __dict__)."""
    def __init__(self, **kw):
        self.__dict__.update(kw)


class PlainList(list):
    """list subclass with an attribute: __reduce_ex__ gives state and listitems."""


class PlainDict(dict):
    """dict subclass with an attribute: __reduce_ex__ gives state and dictitems."""


class WithSlots:
    __slots__ = ['a', 'b']

    def __init__(self, a=None, b=None):
        self.a, self.b = a, b


_EXPORTABLE = []


def exportable_class():
    if not _EXPORTABLE:
        base = _exportable_base()

        class Exportable(base):
            """Generic Hdf5Exportable subclass: everything lives in __dict__."""
            def __init__(self, **kw):
                self.__dict__.update(kw)

        Exportable.__module__ = __name__
        Exportable.__qualname__ = 'Exportable'
        globals()['Exportable'] = Exportable
        _EXPORTABLE.append(Exportable)
    return _EXPORTABLE[0]


# ------------------------------------------------------------------------------------------------
# comparator
# ------------------------------------------------------------------------------------------------
# attributes that are caches / process-local and are documented not to be saved
IGNORED_ATTRS = {
    'Config': {'unused', 'name', 'pretty_print'},
    'Lattice': {'_mps_sites_cache', '_reciprocal_basis', '_BZ'},
    # derived from the C matrices on demand (to_diagonal_gauge); the loaded object starts without them
    'UniformMPS': {'_S', 'diagonal_gauge'},
}


def _is_tenpy(o):
    return type(o).__module__.startswith('tenpy.')


def _state_of(o):
    """(kind, mapping) used to compare two instances of a class."""
    gs = getattr(o, '__getstate__', None)
    if hasattr(o, '__dict__'):
        return dict(vars(o))
    if gs is not None:
        st = gs()
        if isinstance(st, dict):
            return st
        if isinstance(st, tuple):
            return {'state%d' % k: v for k, v in enumerate(st)}
    return None


class Diff(Exception):
    pass


def compare(a, b, path='', memo=None, lossy_legs=False, cyclic=False, inside=False):
    """Raise Diff(path: what) at the first structural difference."""
    if memo is None:
        memo = {}
    key = (id(a), id(b))
    if key in memo:
        return
    memo[key] = (a, b)
    ta, tb = type(a), type(b)
    if ta is not tb:
        if cyclic and {ta, tb} == {tuple, list}:
            pass  # documented exception
        elif isinstance(a, (bool, np.bool_)) and isinstance(b, (bool, np.bool_)):
            pass  # bool and numpy.bool_ share one representation in the format
        elif inside and isinstance(a, (int, np.integer)) and isinstance(b, (int, np.integer)):
            pass  # private attributes of a tenpy object: python int vs numpy int is not observable
        elif inside and isinstance(a, (float, np.floating)) and isinstance(b, (float, np.floating)):
            pass
        else:
            raise Diff('%s: type %s became %s' % (path, ta.__name__, tb.__name__))
    if a is None or isinstance(a, (bool, np.bool_, str, bytes)):
        if a != b:
            raise Diff('%s: %r became %r' % (path, a, b))
        return
    if isinstance(a, (int, float, complex, np.number)):
        if not (a == b or (a != a and b != b)):
            raise Diff('%s: %r became %r' % (path, a, b))
        return
    if isinstance(a, np.ma.MaskedArray):
        if a.shape != b.shape or a.dtype != b.dtype:
            raise Diff('%s: masked array shape/dtype %s %s became %s %s' % (path, a.shape, a.dtype, b.shape, b.dtype))
        if not np.array_equal(np.ma.getmaskarray(a), np.ma.getmaskarray(b)):
            raise Diff('%s: mask changed' % path)
        if not np.array_equal(a.filled(0), b.filled(0)):
            raise Diff('%s: masked data changed' % path)
        return
    if isinstance(a, np.ndarray):
        if a.shape != b.shape:
            raise Diff('%s: array shape %s became %s' % (path, a.shape, b.shape))
        if a.dtype != b.dtype:
            raise Diff('%s: array dtype %s became %s' % (path, a.dtype, b.dtype))
        if a.dtype == object:
            for k, (x, y) in enumerate(zip(a.reshape(-1), b.reshape(-1))):
                compare(x, y, '%s[%d]' % (path, k), memo, lossy_legs, cyclic, inside)
            return
        eq = np.array_equal(a, b, equal_nan=a.dtype.kind in 'fc')
        if not eq:
            raise Diff('%s: array values changed' % path)
        return
    if isinstance(a, np.dtype):
        if a != b:
            raise Diff('%s: dtype %r became %r' % (path, a, b))
        return
    if isinstance(a, range):
        if a != b or (a.start, a.stop, a.step) != (b.start, b.stop, b.step):
            raise Diff('%s: %r became %r' % (path, a, b))
        return
    import collections
    if isinstance(a, collections.deque):
        a, b = list(a), list(b)
    if isinstance(a, (list, tuple)):
        if len(a) != len(b):
            raise Diff('%s: length %d became %d' % (path, len(a), len(b)))
        for k, (x, y) in enumerate(zip(a, b)):
            compare(x, y, '%s[%d]' % (path, k), memo, lossy_legs, cyclic, inside)
        return
    if isinstance(a, (set, frozenset)):
        if a != b:
            raise Diff('%s: set %r became %r' % (path, a, b))
        return
    if isinstance(a, dict):
        ka, kb = list(a.keys()), list(b.keys())
        if len(ka) != len(kb):
            raise Diff('%s: dict with %d keys became %d keys' % (path, len(ka), len(kb)))
        for k in ka:
            if k not in b:
                raise Diff('%s: key %r lost' % (path, k))
            compare(a[k], b[k], '%s[%r]' % (path, k), memo, lossy_legs, cyclic, inside)
        # key types
        tb_keys = {(type(k), k) for k in kb}
        for k in ka:
            if (type(k), k) not in tb_keys and not isinstance(k, (bool, np.bool_)):
                raise Diff('%s: key %r changed its type' % (path, k))
        return
    if callable(a) and not _is_tenpy(a):
        if a is not b:
            raise Diff('%s: callable %r became %r' % (path, a, b))
        return
    if isinstance(a, type):
        if a is not b:
            raise Diff('%s: class changed' % path)
        return
    # instances
    from tenpy.linalg import charges
    if lossy_legs and isinstance(a, charges.LegCharge):
        # flat format: compare what is observable through the flat charges (and the pipe structure is dropped)
        from vf import gen
        if a.ind_len != b.ind_len or a.qconj != b.qconj or not np.array_equal(gen.leg_qflat(a), gen.leg_qflat(b)):
            raise Diff('%s: charges per index changed in the flat format' % path)
        compare(a.chinfo, b.chinfo, path + '.chinfo', memo, lossy_legs, cyclic, True)
        return
    sa, sb = _state_of(a), _state_of(b)
    if sa is None or sb is None:
        if a != b:
            raise Diff('%s: %r became %r' % (path, a, b))
        return
    ign = set()
    for c in ta.__mro__:
        ign |= IGNORED_ATTRS.get(c.__name__, set())
    for k in sa:
        if k in ign:
            continue
        if k not in sb:
            raise Diff('%s.%s: attribute lost (%s)' % (path, k, ta.__name__))
        compare(sa[k], sb[k], '%s.%s' % (path, k), memo, lossy_legs, cyclic, True)
    for k in sb:
        if k not in sa and k not in ign:
            raise Diff('%s.%s: attribute appeared (%s)' % (path, k, ta.__name__))


def slots(obj, path='', out=None, seen=None):
    """Container-level identity map: list of (path, id, type name) for every mutable value reachable through plain containers.
    tenpy instances and arrays are atoms (their inside is compared by value, not by identity)."""
    if out is None:
        out, seen = [], set()
    mutable = isinstance(obj, (list, dict, set, np.ndarray)) or (hasattr(obj, '__dict__') and not isinstance(obj, type)
                                                                 and not callable(obj)) or _is_tenpy(obj)
    if mutable:
        out.append((path, id(obj), type(obj).__name__))
    if id(obj) in seen:
        return out
    if isinstance(obj, (list, tuple)):
        seen.add(id(obj))
        for k, x in enumerate(obj):
            slots(x, '%s[%d]' % (path, k), out, seen)
    elif isinstance(obj, dict):
        seen.add(id(obj))
        # canonical order (the loaded dict may iterate in another order than the saved one)
        for k, x in sorted(obj.items(), key=lambda kv: (type(kv[0]).__name__, repr(kv[0]))):
            slots(x, '%s[%r]' % (path, k), out, seen)
    return out


def partition(sl):
    groups = {}
    for path, ident, tn in sl:
        groups.setdefault(ident, []).append(path)
    return sorted(tuple(sorted(v)) for v in groups.values() if len(v) > 1)


# ------------------------------------------------------------------------------------------------
# generators
# ------------------------------------------------------------------------------------------------
def gen_scalar(rng):
    k = int(rng.integers(0, 16))
    if k == 0:
        return None, 'None'
    if k == 1:
        return bool(rng.random() < 0.5), 'bool'
    if k == 2:
        return int(rng.integers(-10**9, 10**9)), 'int'
    if k == 3:
        return int(rng.choice([2**64 + 5, -2**70, 2**63, 2**64 - 1, -2**63 - 1])), 'bigint'
    if k == 4:
        return float(rng.choice([0.0, -0.0, 1.5, np.nan, np.inf, -np.inf, 1e-320, 1.7976931348623157e308])), 'float'
    if k == 5:
        return complex(rng.standard_normal(), rng.choice([0., 1.5, np.inf])), 'complex'
    if k == 6:
        return str(rng.choice(['', 'abc', 'ä€😀', 'with/slash', 'with space', '0', 'None', 'a' * 300, 'line\nbreak'])), 'str'
    if k == 7:
        return bytes(rng.choice([b'', b'abc', b'\xff\xfe', b'tab\tnewline\n'])), 'bytes'
    if k == 8:
        t = [np.int64, np.float64, np.complex128, np.int32, np.float32, np.complex64, np.bool_][int(rng.integers(7))]
        return t(rng.integers(0, 2) if t is np.bool_ else rng.integers(-5, 5)), 'npscalar'
    if k == 9:
        return np.dtype(rng.choice(['float64', 'int32', 'complex128', 'bool', 'int8', '<U5', 'float16'])), 'dtype'
    if k == 10:
        a, b, c = int(rng.integers(-3, 3)), int(rng.integers(-3, 10)), int(rng.choice([1, 2, -1, 3]))
        return range(a, b, c), 'range'
    if k in (11, 12, 13):
        dt = str(rng.choice(['float64', 'int64', 'complex128', 'bool', 'int32', 'float32', 'complex64', 'uint8', 'int8', 'float16']))
        shape = [(), (0, ), (3, ), (2, 0), (2, 3), (1, 1, 2)][int(rng.integers(6))]
        a = np.asarray(rng.standard_normal(shape) * 3).astype(dt)
        if rng.random() < 0.2 and a.ndim == 2:
            a = np.asfortranarray(a)
        if rng.random() < 0.15 and a.ndim >= 1 and a.shape[0] > 1:
            a = a[::2]
        return a, 'ndarray'
    if k == 14:
        a = np.ma.MaskedArray(rng.integers(0, 4, size=(4, )).astype(float), mask=rng.random(4) < 0.4, fill_value=float(rng.choice([0., 999.])))
        return a, 'masked'
    return float(rng.standard_normal()), 'float'


def rand_dipolar_chinfo(ctx, rng):
    """DipolarChargeInfo over 1-2 charges and 1-3 dipole moments of them (any direction, dipoles of any of the charges)."""
    from tenpy.linalg import charges
    nq = int(rng.integers(1, 3))
    qmods = [int(rng.choice([1, 1, 2, 3, 4])) for _ in range(nq)]
    nd = int(rng.integers(1, 4))
    c_idx = [int(rng.integers(nq)) for _ in range(nd)]
    d_mods = [qmods[c] for c in c_idx]
    d_dims = [int(rng.integers(0, 3)) if m != 1 else 0 for m in d_mods]
    names = ['q%d' % j for j in range(nq)] + ['p%d' % j for j in range(nd)] if rng.random() < 0.7 else None
    ci = charges.DipolarChargeInfo(qmods + d_mods, names, c_idx, list(range(nq, nq + nd)), d_dims)
    ctx.count('gen.dipolar_chinfo')
    if d_dims != c_idx:
        ctx.count('gen.dipolar_chinfo_dims_differ_from_charge_idcs')
    return ci


def gen_tenpy(ctx, rng):
    """(object, kind, observables function or None)"""
    from tenpy.linalg import np_conserved as npc, charges
    from vf import gen, dense
    k = int(rng.integers(0, 15))
    if k == 0:
        ci = gen.rand_chinfo(rng) if rng.random() < 0.5 else rand_dipolar_chinfo(ctx, rng)
        return ci, 'ChargeInfo'
    if k in (1, 2):
        ci = gen.rand_chinfo(rng) if rng.random() < 0.8 else rand_dipolar_chinfo(ctx, rng)
        leg, kind = gen.rand_leg(rng, ci)
        if rng.random() < 0.3:
            leg = leg.bunch()[1] if rng.random() < 0.5 else leg.sort()[1]
        return leg, 'LegCharge'
    if k == 3:
        ci = gen.rand_chinfo(rng)
        legs = [gen.rand_leg(rng, ci, max_blocks=3, max_bs=2)[0] for _ in range(int(rng.integers(1, 4)))]
        pipe = charges.LegPipe(legs, qconj=int(rng.choice([1, -1])), sort=bool(rng.random() < 0.7), bunch=bool(rng.random() < 0.7))
        if rng.random() < 0.3:
            pipe = charges.LegPipe([pipe, gen.rand_leg(rng, ci, max_blocks=2, max_bs=2)[0]], qconj=int(rng.choice([1, -1])))
        return pipe, 'LegPipe'
    if k in (4, 5, 6):
        ci = gen.rand_chinfo(rng)
        rank = int(rng.integers(0, 4))
        legs = [gen.rand_leg(rng, ci, max_blocks=3, max_bs=2)[0] for _ in range(rank)]
        if rank == 0:
            a = npc.Array.from_ndarray_trivial(np.arange(6.).reshape(2, 3)) if rng.random() < 0.5 else npc.Array.from_ndarray_trivial(
                np.ones((2, 2), dtype=complex), labels=['a', None])
            return a, 'Array'
        dt = str(rng.choice(['float64', 'complex128', 'int64', 'float32']))
        labels = [None if rng.random() < 0.2 else 'l%d' % j for j in range(rank)]
        a = gen.rand_array(rng, legs, dtype=dt, labels=labels)[0]
        if rank >= 2 and rng.random() < 0.4:
            a = a.combine_legs([0, 1])
        if rng.random() < 0.2 and a.rank >= 2:
            a = a.transpose(list(range(a.rank))[::-1])  # unsorted _qdata
        return a, 'Array'
    if k == 7:
        import checks.C12 as C12
        from tenpy.networks import site as S
        g = C12.grid()
        cls, kw = g[int(rng.integers(len(g)))]
        s = getattr(S, cls)(**kw)
        if rng.random() < 0.3:
            s.add_op('myop', s.Id * 2., hc='myop')
        if rng.random() < 0.2 and s.dim <= 3:
            s2 = getattr(S, cls)(**kw)
            try:
                S.set_common_charges([s, s2], 'same')
                s = S.GroupedSite([s, s2], charges='same')
            except Exception:
                pass
        return s, 'site'
    if k in (8, 9):
        import checks.C11 as C11
        r = rng.random()
        if r < 0.5:
            sites, kind = dense.make_sites(rng, int(rng.integers(2, 6)))
            psi, vec, qt = C11.rand_state(rng, sites)
            if rng.random() < 0.5:
                psi.convert_form(['A', 'B', 'C', 'Th'][int(rng.integers(4))])
            if rng.random() < 0.3:
                psi.norm = float(rng.uniform(0.5, 2))
            return psi, 'MPS'
        elif r < 0.8:
            from tenpy.networks.mps import MPS
            sites, kind = dense.make_sites(rng, int(rng.integers(1, 4)))
            p = [int(rng.integers(s.dim)) for s in sites]
            psi = MPS.from_product_state(sites, p, bc='infinite', permute=False)
            return psi, 'MPS'
        elif r < 0.9:
            from tenpy.networks.mps import MPS
            sites, kind = dense.make_sites(rng, 4)
            psi, vec, qt = C11.rand_state(rng, sites)
            seg = psi.extract_segment(1, 2)
            return seg, 'MPS'
        elif r < 0.95:
            from tenpy.networks.purification_mps import PurificationMPS
            sites, kind = dense.make_sites(rng, int(rng.integers(2, 4)))
            return PurificationMPS.from_infiniteT(sites, bc='finite'), 'MPS'
        else:
            from tenpy.networks.mps import MPS
            from tenpy.networks.uniform_mps import UniformMPS
            sites, kind = dense.make_sites(rng, int(rng.integers(1, 3)))
            p = [int(rng.integers(s.dim)) for s in sites]
            psi = MPS.from_product_state(sites, p, bc='infinite', permute=False)
            return UniformMPS.from_MPS(psi), 'MPS'
    if k == 10:
        import checks.C11 as C11
        try:
            H, ref, sites, kind, terms, strengths = C11.make_mpo(rng)
        except C11._Skip:
            raise _Skip()
        return H, 'MPO'
    if k == 11:
        import checks.C19 as C19
        kinds = ['Chain', 'Ladder', 'Square', 'Triangular', 'Honeycomb', 'Kagome', 'Irregular', 'Helical', 'NLegLadder',
                 'TrivialLattice', 'SimpleLattice', 'MultiSpecies', 'Lattice']
        kd = kinds[int(rng.integers(len(kinds)))]
        try:
            out = C19.make_lattice(ctx, rng, kd)
        except Exception:
            raise _Skip()
        lat = out[0] if isinstance(out, tuple) else out
        if rng.random() < 0.3 and kd not in ('Irregular', 'Helical'):
            # a segment of the lattice (carries segment_first_last and bc_MPS='segment')
            N = lat.N_sites
            try:
                if lat.bc_MPS == 'infinite' and rng.random() < 0.5:
                    seg = lat.extract_segment(enlarge=int(rng.integers(1, 3)))
                else:
                    first = int(rng.integers(0, N - 1))
                    last = int(rng.integers(first + 1, N if lat.bc_MPS == 'finite' else 2 * N))
                    seg = lat.extract_segment(first, last)
                seg.test_sanity()
            except Exception:
                raise _Skip()
            ctx.count('gen.segment_lattice')
            return seg, 'lattice'
        return lat, 'lattice'
    if k == 12:
        import checks.C10 as C10
        try:
            lat, kind, geo = C10.make_lattice(rng, max_dim=300)
            out = C10.build_model(ctx, rng, lat)
        except C10._Skip:
            raise _Skip()
        m = out[0] if isinstance(out, tuple) else out
        if rng.random() < 0.25 and hasattr(m, 'extract_segment'):
            N = m.lat.N_sites
            try:
                first = int(rng.integers(0, N - 1))
                last = int(rng.integers(first + 1, N if m.lat.bc_MPS == 'finite' else 2 * N))
                seg = m.extract_segment(first, last)
                seg.test_sanity()
            except Exception:
                raise _Skip()
            ctx.count('gen.segment_model')
            return seg, 'model'
        return m, 'model'
    if k == 13:
        from tenpy.networks import terms as T
        r = int(rng.integers(5))
        L = int(rng.integers(2, 6))
        if r == 0:
            t = T.TermList([[('Sz', 0), ('Sx', 2)], [('Sz', 1)]], [0.5, 1.5j])
        elif r == 1:
            t = T.OnsiteTerms(L)
            t.add_onsite_term(0.5, 0, 'Sz')
            t.add_onsite_term(1.5, L - 1, 'Sx')
            t.add_onsite_term(0.25, L - 1, 'Sx')
        elif r == 2:
            t = T.CouplingTerms(L)
            t.add_coupling_term(0.5, 0, 1, 'Sp', 'Sm')
            t.add_coupling_term(1.5j, 0, L - 1, 'Sz', 'Sz', 'JW')
        elif r == 3:
            L = max(L, 3)
            t = T.MultiCouplingTerms(L)
            t.add_multi_coupling_term(0.5, [0, 1, L - 1], ['Sz', 'Sx', 'Sz'], ['Id', 'Id'])
            t.add_coupling_term(0.25, 0, 1, 'Sp', 'Sm')
        else:
            t = T.ExponentiallyDecayingTerms(L)
            t.add_exponentially_decaying_coupling(0.5, 0.3, 'Sz', 'Sz')
            t.add_exponentially_decaying_coupling(1.5, 0.1, 'Sp', 'Sm', subsites=[0, 1] if L > 2 else None)
        return t, 'terms'
    from tenpy.linalg.truncation import TruncationError
    from tenpy.tools.params import Config
    if rng.random() < 0.3:
        return TruncationError(float(rng.random() * 1e-3), float(1 - rng.random() * 1e-3)), 'TruncationError'
    c = Config({'a': 1, 'sub': {'b': 2.5, 'arr': np.arange(3)}, 'name_with space': 'x'}, 'verif')
    c.subconfig('sub')
    c.get('a', 0)
    return c, 'Config'


def gen_graph(ctx, rng, depth=0, pool=None, kinds=None):
    """Random container graph; `pool` holds already created mutable objects to be shared."""
    r = rng.random()
    if pool and r < 0.18:
        kinds.append('shared')
        return pool[int(rng.integers(len(pool)))]
    if depth >= 3 or r < 0.35:
        if rng.random() < 0.45:
            obj, kind = gen_tenpy(ctx, rng)
            kinds.append(kind)
            pool.append(obj)
            inner = [getattr(obj, a_, None) for a_ in ('options', 'lat', 'H_MPO', 'chinfo', 'leg')]
            inner = [x for x in inner if x is not None and _is_tenpy(x)]
            if inner and rng.random() < 0.35:
                # an object next to one of its own parts (e.g. results = {'model': M, 'model_params': M.options}): shared by reference
                part = inner[int(rng.integers(len(inner)))]
                kinds.append('shared')
                kinds.append('list')
                ctx.count('gen.object_next_to_its_part')
                out = [obj, part] if rng.random() < 0.5 else [part, obj]
                pool.append(out)
                return out
            return obj
        obj, kind = gen_scalar(rng)
        kinds.append(kind)
        if isinstance(obj, np.ndarray):
            pool.append(obj)
        return obj
    n = int(rng.integers(0, 4))
    c = int(rng.integers(0, 5))
    if rng.random() < 0.12:
        # objects without a format of their own
        import collections
        which = int(rng.integers(0, 7))  # (classes with __slots__ and no __getstate__ fail loudly in __reduce__)
        kids = [gen_graph(ctx, rng, depth + 1, pool, kinds) for _ in range(n)]
        if which == 0:
            out = exportable_class()(**{'attr%d' % j: x for j, x in enumerate(kids)})
            kinds.append('Exportable')
        elif which == 1:
            out = Plain(**{'attr%d' % j: x for j, x in enumerate(kids)})
            kinds.append('reduce_state')
        elif which == 2:
            out = PlainList(kids)
            out.note = 'n%d' % n
            kinds.append('reduce_listitems')
        elif which == 3:
            out = PlainDict({'k%d' % j: x for j, x in enumerate(kids)})
            out.note = 'n%d' % n
            kinds.append('reduce_dictitems')
        elif which == 4:
            out = collections.OrderedDict(('k%d' % j, x) for j, x in enumerate(kids))
            kinds.append('reduce_dictitems')
        elif which == 5:
            out = collections.deque(kids)
            kinds.append('reduce_listitems')
        else:
            out = collections.defaultdict(list)
            for j, x in enumerate(kids):
                out['k%d' % j] = x
            kinds.append('reduce_dictitems')
        pool.append(out)
        return out
    if c == 0:
        out = []
        pool.append(out)
        out.extend(gen_graph(ctx, rng, depth + 1, pool, kinds) for _ in range(n))
        kinds.append('list')
        return out
    if c == 1:
        kinds.append('tuple')
        return tuple(gen_graph(ctx, rng, depth + 1, pool, kinds) for _ in range(n))
    if c == 2:
        kinds.append('set')
        return set(int(x) if rng.random() < 0.5 else str(x) for x in rng.integers(0, 5, size=n))
    out = {}
    pool.append(out)
    general = c == 4
    kinds.append('dict_general' if general else 'dict')
    for j in range(n):
        if general:
            key = [int(rng.integers(0, 100)), (int(rng.integers(3)), 'x'), 'with/slash', 1.5, None, True, 'plain%d' % j][int(rng.integers(7))]
        else:
            key = ['a', 'b_c', 'K%d' % j, 'x y', '0'][int(rng.integers(5))] + str(j)
        out[key] = gen_graph(ctx, rng, depth + 1, pool, kinds)
    return out


# ------------------------------------------------------------------------------------------------
# routes
# ------------------------------------------------------------------------------------------------
def route_hdf5(obj, fmt, at_root=False):
    import h5py
    from tenpy.tools import hdf5_io
    name = 'verif-%d-%d.h5' % (os.getpid(), id(obj))
    with h5py.File(name, 'w', driver='core', backing_store=False) as f:
        sel = None if fmt is None else {'LegCharge': fmt}
        if at_root:
            # the default path of Hdf5Saver.save / Hdf5Loader.load is the root group of the file
            hdf5_io.Hdf5Saver(f, sel).save(obj)
            return hdf5_io.Hdf5Loader(f).load()
        hdf5_io.Hdf5Saver(f, sel).save(obj, '/data')
        return hdf5_io.Hdf5Loader(f).load('/data')


def route_file(obj, ext, tmp):
    from tenpy.tools import hdf5_io
    fn = os.path.join(tmp, 'x' + ext)
    # (the root of a file has to be a group: the documented usage saves a dictionary)
    if type(obj) is dict and obj and all(isinstance(k, str) for k in obj) and len(obj) % 2 == 0:
        # the documented usage: a dictionary of results is the root of the file
        hdf5_io.save(obj, fn)
        return hdf5_io.load(fn)
    hdf5_io.save({'data': obj}, fn)
    return hdf5_io.load(fn)['data']


def has_cycle_or_tuple_cycle(obj):
    """Is a tuple part of a reference cycle? (documented exception of the format)"""
    stack = []

    def walk(o, onpath):
        if isinstance(o, (list, tuple, dict)):
            if id(o) in onpath:
                return True
            onpath = onpath | {id(o)}
            it = o.values() if isinstance(o, dict) else o
            return any(walk(x, onpath) for x in it)
        return False

    return walk(obj, frozenset())


def observables(obj):
    """Class-specific dense observables (beyond the structural comparison)."""
    from tenpy.linalg import np_conserved as npc
    from tenpy.networks.mps import MPS
    from tenpy.networks.mpo import MPO
    from vf import dense
    if isinstance(obj, npc.Array):
        return ('Array', obj.to_ndarray(), tuple(obj.get_leg_labels()), tuple(int(q) for q in obj.qtotal), str(obj.dtype))
    if isinstance(obj, MPS):
        if type(obj).__name__ == 'UniformMPS':
            psi = obj.to_MPS()
            return ('UniformMPS', [dense.stored_tensor(psi, i) for i in range(psi.L)], [np.asarray(s) for s in psi._S])
        if type(obj) is not MPS:
            return None
        if obj.bc == 'finite':
            return ('MPS', dense.finite_vector(obj), tuple(obj.chi), obj.norm)
        return ('MPS', [dense.stored_tensor(obj, i) for i in range(obj.L)], [np.asarray(s) for s in obj._S], tuple(map(tuple, obj.form)), obj.bc, obj.norm)
    if isinstance(obj, MPO) and obj.bc == 'finite':
        return ('MPO', dense.mpo_to_matrix(obj), obj.explicit_plus_hc)
    lat = obj if hasattr(obj, 'mps2lat_idx') else getattr(obj, 'lat', None)
    if lat is not None and hasattr(lat, 'mps2lat_idx') and hasattr(lat, 'segment_first_last'):
        # documented public attribute "tuple of int", handed on to MPS.extract_segment(first, last) by users
        fl = lat.segment_first_last
        return ('segment_first_last', tuple(type(x).__name__ for x in fl), tuple(int(x) for x in fl), lat.bc_MPS, int(lat.N_sites))
    return None


def roundtrip(ctx, obj, route, fmt, kinds, case, tmp=None):
    """Run one route; returns the loaded object or None after reporting a violation."""
    tag = route if fmt is None else '%s[%s]' % (route, fmt)
    ctx.count('roundtrips')
    ctx.count('route.' + route)
    try:
        if route == 'hdf5':
            at_root = bool(case.get('at_root'))
            if at_root:
                ctx.count('route.hdf5_at_root')
                if 'cycle' in kinds:
                    ctx.count('route.hdf5_at_root_cyclic')
            new = route_hdf5(obj, fmt, at_root)
        elif route == 'pickle':
            new = pickle.loads(pickle.dumps(obj, protocol=int(case.get('protocol', pickle.HIGHEST_PROTOCOL))))
        elif route == 'deepcopy':
            new = copy.deepcopy(obj)
        else:
            new = route_file(obj, fmt, tmp)
    except Exception as e:
        tb = traceback.format_exc()
        where = 'tenpy' if '/tenpy/' in tb else 'other'
        ctx.violation('%s:raises-%s:%s' % (tag, type(e).__name__, classify(kinds, tb)), tb[-1200:], copy.deepcopy(case))
        return None
    return new


def classify(kinds, tb):
    """Stable mechanism key for an exception: the innermost tenpy function in the traceback."""
    fn = 'unknown'
    for line in tb.splitlines():
        line = line.strip()
        if line.startswith('File') and '/tenpy/' in line and ', in ' in line:
            fn = line.split('/tenpy/')[-1].split('"')[0] + ':' + line.rsplit(', in ', 1)[1]
    return fn


def judge(ctx, obj, new, route, fmt, kinds, case):
    tag = route if fmt in (None, '.h5', '.pkl', '.pklz') else '%s[%s]' % (route, fmt)
    lossy = route == 'hdf5' and fmt == 'flat'
    cyc = has_cycle_or_tuple_cycle(obj)
    try:
        compare(obj, new, 'obj', lossy_legs=lossy, cyclic=cyc)
    except Diff as d:
        msg = str(d)
        where = msg.split(':')[0]
        # mechanism key: route + last attribute name + what happened (without values)
        attr = where.split('.')[-1].split('[')[0] if '.' in where else 'value'
        what = msg.split(':', 1)[1].strip().split(' ')[0:3]
        ctx.violation('%s:differs:%s:%s' % (tag, attr, '-'.join(w for w in what if not any(ch.isdigit() for ch in w))[:40]), msg[:600], copy.deepcopy(case))
        return
    except RecursionError:
        ctx.count('compare.recursion')
        return
    # sanity of loaded tenpy objects
    for path, ident, tn in slots(new):
        pass
    seen = set()

    def sanity(o):
        if id(o) in seen:
            return
        seen.add(id(o))
        if isinstance(o, (list, tuple)):
            for x in o:
                sanity(x)
        elif isinstance(o, dict):
            for x in o.values():
                sanity(x)
        elif _is_tenpy(o) and hasattr(o, 'test_sanity'):
            ctx.count('sanity.checked')
            try:
                o.test_sanity()
            except Exception as e:
                ctx.violation('%s:loaded-%s-fails-test_sanity' % (tag, type(o).__name__), traceback.format_exc()[-500:], copy.deepcopy(case))
            try:
                observables(o)
            except Exception:
                ctx.violation('%s:loaded-%s-not-usable' % (tag, type(o).__name__), traceback.format_exc()[-500:], copy.deepcopy(case))

    sanity(new)

    # class-specific dense observables agree (also covers attributes the structural comparison treats as derived)
    def walk_pairs(a, b, seenp):
        if id(a) in seenp:
            return
        seenp.add(id(a))
        if isinstance(a, (list, tuple)) and isinstance(b, (list, tuple)):
            for x, y in zip(a, b):
                walk_pairs(x, y, seenp)
        elif isinstance(a, dict) and isinstance(b, dict):
            for k in a:
                if k in b:
                    walk_pairs(a[k], b[k], seenp)
        elif _is_tenpy(a) and type(a) is type(b):
            try:
                oa, ob = observables(a), observables(b)
            except Exception:
                return
            if oa is None:
                return
            ctx.count('observables.compared')
            try:
                compare(oa, ob, 'observables(%s)' % type(a).__name__, inside=True)
            except Diff as d:
                ctx.violation('%s:observable-of-%s-differs' % (tag, type(a).__name__), str(d)[:400], copy.deepcopy(case))

    walk_pairs(obj, new, set())
    # sharing: partition of container slots by identity
    if route != 'deepcopy' or True:
        ctx.count('sharing.checked')
        pa, pb = partition(slots(obj)), partition(slots(new))
        if pa:
            ctx.count('sharing.graphs_with_sharing')
        if cyc:
            ctx.count('cyclic.checked')
        if pa != pb:
            lost = [g for g in pa if g not in pb]
            gained = [g for g in pb if g not in pa]
            types = {p: t for p, _, t in slots(obj)}
            tn = types.get((lost or gained)[0][0], '?')
            ctx.violation('%s:sharing-%s:%s' % (tag, 'lost' if lost else 'introduced', tn),
                          'objects shared before saving (slots %r) are %s after loading; gained: %r' % (lost[:3], 'separate copies', gained[:3]), copy.deepcopy(case))


def case_graph(ctx, i):
    rng = ctx.rng
    kinds = []
    pool = []
    obj = gen_graph(ctx, rng, 0, pool, kinds)
    # self-referential containers
    if rng.random() < 0.12 and not any(k.startswith('reduce_') for k in kinds):
        # (objects saved through __reduce__ carry their content in an argument *tuple*: inside a cycle that is the documented
        #  exception of the format, so cycles are only closed through plain lists and dicts)
        lists = [p for p in pool if type(p) in (list, dict)]
        if lists:
            tgt = lists[int(rng.integers(len(lists)))]
            if isinstance(tgt, list):
                tgt.append(obj if isinstance(obj, (list, dict)) else tgt)
            else:
                tgt['self'] = obj if isinstance(obj, (list, dict)) else tgt
            kinds.append('cycle')
    for kd in set(kinds):
        ctx.count('kind.' + kd)
    case = {'kinds': kinds}
    routes = [('hdf5', None), ('hdf5', 'blocks'), ('hdf5', 'compact'), ('hdf5', 'flat'), ('pickle', None), ('deepcopy', None),
              ('file', '.h5'), ('file', '.pkl'), ('file', '.pklz')]
    p = [0.25, 0.12, 0.12, 0.12, 0.12, 0.12, 0.07, 0.04, 0.04]
    chosen = sorted(set(int(x) for x in rng.choice(len(routes), size=2, p=p)))
    tmp = None
    try:
        for r in chosen:
            route, fmt = routes[r]
            if route == 'pickle':
                case['protocol'] = int(rng.choice([2, 4, pickle.HIGHEST_PROTOCOL]))
            if route == 'file' and tmp is None:
                tmp = tempfile.mkdtemp(prefix='vf17-')
            case['route'] = [route, fmt]
            # the root of an HDF5 file must be a group: containers and objects with a format of their own
            case['at_root'] = bool(route == 'hdf5' and rng.random() < 0.4 and (type(obj) in (list, dict) or _is_tenpy(obj)))
            if fmt == 'flat' and any(k in ('Array', 'LegPipe', 'site', 'MPS', 'MPO', 'lattice', 'model') for k in kinds):
                # 'flat' is documented as insufficient to recover the blocks: only meaningful for plain LegCharges
                ctx.count('route.flat_skipped')
                continue
            new = roundtrip(ctx, obj, route, fmt, kinds, case, tmp)
            if new is None and obj is not None:
                continue
            judge(ctx, obj, new, route, fmt, kinds, case)
    finally:
        if tmp:
            import shutil
            shutil.rmtree(tmp, ignore_errors=True)
    ctx.sig((tuple(sorted(set(kinds))), tuple(chosen)), nontrivial=any(k[0].isupper() or k in ('site', 'lattice', 'model', 'terms', 'shared')
                                                                      for k in kinds))
    if i % 60 == 0:
        ctx.sample(case)


# ------------------------------------------------------------------------------------------------
# reflection: every class of the package that offers save_hdf5 is either exercised or listed
# ------------------------------------------------------------------------------------------------
def case_reflect(ctx, i):
    import importlib
    import inspect
    import pkgutil
    import tenpy
    classes = {}
    for m in pkgutil.walk_packages(tenpy.__path__, 'tenpy.'):
        try:
            mod = importlib.import_module(m.name)
        except Exception:
            continue
        for n, c in vars(mod).items():
            if inspect.isclass(c) and c.__module__ == mod.__name__ and hasattr(c, 'save_hdf5'):
                classes[c.__module__ + '.' + c.__qualname__] = c
    ctx.count('reflect.classes', len(classes))
    rng = ctx.rng
    covered = set()
    # predefined models + their lattices/sites by reflection
    from tenpy.models.model import CouplingMPOModel
    for name, c in sorted(classes.items()):
        if ctx.out_of_time():
            break
        obj = None
        try:
            if inspect.isclass(c) and issubclass(c, CouplingMPOModel) and c is not CouplingMPOModel:
                params = {'L': 3, 'bc_MPS': 'finite', 'Lx': 2, 'Ly': 2, 'bc_x': 'open'}
                obj = c(dict(params))
        except Exception:
            ctx.count('reflect.construct_failed')
            continue
        if obj is None:
            continue
        covered.add(name)
        kinds = ['model:' + c.__name__]
        case = {'class': name}
        for route, fmt in [('hdf5', None), ('hdf5', 'compact'), ('pickle', None), ('deepcopy', None)]:
            case['route'] = [route, fmt]
            # the root of an HDF5 file must be a group: containers and objects with a format of their own
            case['at_root'] = bool(route == 'hdf5' and rng.random() < 0.4 and (type(obj) in (list, dict) or _is_tenpy(obj)))
            new = roundtrip(ctx, obj, route, fmt, kinds, case)
            if new is not None:
                judge(ctx, obj, new, route, fmt, kinds, case)
        ctx.sig(('reflect', name), nontrivial=True)
    ctx.count('reflect.models_covered', len(covered))
    ctx.obs['reflect_classes'] = sorted(classes)
