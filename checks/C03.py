"""C03 — operations never corrupt their operands or shared charge data (fingerprint monitor)."""
import warnings

from vf.runner import shard
from checks import C01 as base

PROP = 'C03'
LEVEL = 'exploration'
MONITORS = ('c03', )
RULE = ('same seeded program generator as C01 with operand reuse (legs shared through a pool, same array passed twice, '
        'results kept alive next to their operands); before every step every live Array, LegCharge/LegPipe and '
        'ChargeInfo object (by identity) is fingerprinted (dense bytes, labels, qtotal, dtype, slices, charges, qconj, '
        'flags, q_map) and re-checked afterwards: only the receiver of an in-place method (and arrays documented to '
        'share its data) may change, leg objects never; results documented as deep copies must not share block memory, '
        '_qdata, qtotal, label list or leg list with any live array; leg arrays are made read-only in half of the '
        'pure-Python cases so that a write raises at the culprit (Cython memoryviews refuse read-only buffers). non-trivial/distinct as in C01')
ASSUMPTIONS = ['shallow results (copy(deep=False), replace_label, add_trivial_leg, gauge_total_charge, '
               'unary/binary_blockwise, scale_axis, sort_legcharge, complex_conj) are documented to share block data']
ANCHORS = base.ANCHORS
REQUIRED_COUNTERS = {'monitor.fingerprints': 5000, 'op.linear': 20, 'op.tensordot': 20, 'op.transpose': 20,
                     'op.setitem': 10, 'op.legops': 20}
WEIGHTS = {'misc': 4.0, 'linear': 5.0, 'tensordot': 5.0, 'legops': 4.0, 'chargeops': 2.0}
CONFIGS = {'quick': [('compiled', 1800, 11), ('pure', 800, 5)],
           'thorough': [('compiled', 40000, 10), ('pure', 20000, 6)]}


def plan(tier, seed, jobs):
    units = []
    for cfg, n, nsh in CONFIGS[tier]:
        units += shard(cfg, n, nsh, timeout=3000, time_budget=75 if tier == 'quick' else 1500)
    return units


def worker_init(ctx):
    warnings.simplefilter('ignore')


def run_case(ctx, i):
    base.run_program(ctx, i, MONITORS, weights=WEIGHTS, readonly_legs=(i % 2 == 0 and ctx.config.startswith('pure')))
