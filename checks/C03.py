"""C03 — operations never corrupt their operands or shared charge data (fingerprint monitor)."""
import warnings

from vf.runner import shard
from checks import C01 as base

PROP = 'C03'
LEVEL = 'exploration'
MONITORS = ('c03', )
RULE = ('same seeded program generator as C01 with operand reuse (legs shared through a pool, same array passed twice, '
        'results kept alive next to their operands); before every step every live Array, LegCharge/LegPipe and '
        'ChargeInfo object (by identity) is fingerprinted (dense bytes, labels, qtotal, dtype, slices, charges, qconj, '
        'flags, q_map) and re-checked afterwards: only the receiver of an in-place method (and arrays documented to '
        'share its data) may change, leg objects never; results documented as deep copies must not share block memory, '
        '_qdata, qtotal, label list or leg list with any live array; leg arrays are made read-only in half of the '
        'pure-Python cases so that a write raises at the culprit (Cython memoryviews refuse read-only buffers). non-trivial/distinct as in C01'
        ' Two further parts: `network` (tensors stored in MPS / MPO / sites and the sites lists are fingerprinted around accessor calls, in-place methods on returned objects and on copies, and binary operations with a second state in another charge sector or gauge) and `linalg` (operands and shared legs around every factorization of the C05 workload).')
ASSUMPTIONS = ['shallow results (copy(deep=False), replace_label, add_trivial_leg, gauge_total_charge, '
               'unary/binary_blockwise, scale_axis, sort_legcharge, complex_conj) are documented to share block data']
ANCHORS = base.ANCHORS
REQUIRED_COUNTERS = {'monitor.linalg_fingerprints': 500, 'linalg.qr': 30, 'linalg.svd': 30, 'monitor.network_fingerprints': 300, 'network.results_mutated': 100, 'netop.get_theta': 10, 'netop.get_B': 10,
                     'monitor.fingerprints': 5000, 'op.linear': 20, 'op.tensordot': 20, 'op.transpose': 20,
                     'op.setitem': 10, 'op.legops': 20}
WEIGHTS = {'misc': 4.0, 'linear': 5.0, 'tensordot': 5.0, 'legops': 4.0, 'chargeops': 2.0}
CONFIGS = {'quick': [('compiled', 1800, 11), ('pure', 800, 5)],
           'thorough': [('compiled', 40000, 10), ('pure', 20000, 6)]}


def plan(tier, seed, jobs):
    units = []
    for cfg, n, nsh in CONFIGS[tier]:
        units += shard(cfg, n, nsh, part='program', timeout=3000, time_budget=75 if tier == 'quick' else 1500)
    units += shard('compiled', 240 if tier == 'quick' else 4000, 4, part='network', timeout=3000, time_budget=75 if tier == 'quick' else 1500)
    units += shard('compiled', 1200 if tier == 'quick' else 20000, 3, part='linalg', timeout=3000, time_budget=75 if tier == 'quick' else 1500)
    return units


LINALG_FUNCS = ['svd', 'qr', 'lq', 'eigh', 'eig', 'eigvalsh', 'eigvals', 'expm', 'pinv', 'polar', 'orthogonal_columns', 'speigs', 'norm']


def worker_init(ctx):
    warnings.simplefilter('ignore')
    if ctx.unit.get('part') == 'linalg':
        install_linalg_monitor(ctx)


def install_linalg_monitor(ctx):
    """Operand-unchanged monitor around every matrix factorization: the input tensors, their LegCharge / LegPipe objects (which are
    shared with other tensors) and the ChargeInfo are fingerprinted before the call and re-checked afterwards."""
    import types
    from tenpy.linalg import np_conserved as npc
    from vf import tshadow
    from vf.monitor import patch_everywhere

    def wrap(name, f):
        def g(*args, **kw):
            arrs = [x for x in list(args) + list(kw.values()) if isinstance(x, npc.Array)]
            if kw.get('overwrite_a'):
                return f(*args, **kw)  # documented to destroy the input
            snap = tshadow.snapshot([types.SimpleNamespace(arr=a) for a in arrs])
            res = f(*args, **kw)
            ctx.count('monitor.linalg_fingerprints')
            ctx.count('linalg.' + name)
            d = tshadow.diff_snapshot(snap)
            if d:
                ctx.violation('%s:%s' % (name, d[0][0]), '%s(%s) changed its operand: %s' % (name, ', '.join('%s=%r' % kv for kv in kw.items())[:200], d[0][1]),
                              {'function': name, 'kwargs': repr(kw)[:300]})
            return res
        g.__wrapped__ = f
        return g

    n = 0
    for name in LINALG_FUNCS:
        f = getattr(npc, name, None)
        if f is not None:
            n += patch_everywhere(f, wrap(name, f))
    ctx.count('monitor.linalg_rebinds', n)


class _Proxy:
    """The workload of another check is used as a carrier: its own verdicts are not this property's."""
    def __init__(self, ctx):
        self.__dict__['_ctx'] = ctx

    def __getattr__(self, k):
        return getattr(self._ctx, k)

    def __setattr__(self, k, v):
        setattr(self._ctx, k, v)

    def violation(self, *a, **k):
        self._ctx.count('linalg.carrier_verdicts_ignored')

    def count(self, key, n=1):
        if key.startswith('monitor.') or key.startswith('linalg.'):
            self._ctx.count(key, n)

    def sig(self, *a, **k):
        pass

    def sample(self, *a, **k):
        pass


def case_linalg(ctx, i):
    import checks.C05 as C5
    C5.run_case(_Proxy(ctx), i)
    ctx.sig(('linalg', i % 97), nontrivial=True)


def run_case(ctx, i):
    if ctx.unit.get('part') == 'network':
        return case_network(ctx, i)
    if ctx.unit.get('part') == 'linalg':
        return case_linalg(ctx, i)
    base.run_program(ctx, i, MONITORS, weights=WEIGHTS, readonly_legs=(i % 2 == 0 and ctx.config.startswith('pure')))


# ------------------------------------------------------------------------------------------------
# tensors stored inside an MPS / MPO / site while operations run on another reference
# ------------------------------------------------------------------------------------------------
def network_arrays(psi=None, H=None):
    """All Arrays / numpy arrays an MPS (and MPO) own, for the fingerprint."""
    import types
    arrs, nds = [], []
    if psi is not None:
        arrs += list(psi._B)
        for S in psi._S:
            (arrs if hasattr(S, 'to_ndarray') else nds).append(S)
        for site in set(psi.sites):
            arrs += [site.get_op(n) for n in sorted(site.opnames)]
    if H is not None:
        arrs += list(H._W)
    return [types.SimpleNamespace(arr=a) for a in arrs], nds


class NetSnap:
    def __init__(self, psi=None, H=None):
        from vf import tshadow
        self.psi, self.H = psi, H
        slots, nds = network_arrays(psi, H)
        self.snap = tshadow.snapshot(slots)
        self.nds = [(a, a.tobytes(), a.shape, str(a.dtype)) for a in nds]
        self.meta = self._meta()

    def _meta(self):
        psi, H = self.psi, self.H
        m = []
        if psi is not None:
            m.append((tuple(psi.form), float(psi.norm), psi.bc, tuple(id(b) for b in psi._B), len(psi._S), tuple(psi.chi), psi.grouped,
                      tuple(id(s_) for s_ in psi.sites)))  # (the list of sites is per object: permuting a copy must not reorder it)
        if H is not None:
            m.append((tuple(H.IdL), tuple(H.IdR), H.bc, tuple(id(w) for w in H._W), H.max_range, H.explicit_plus_hc,
                      tuple(id(s_) for s_ in H.sites)))
        return m

    def diff(self):
        from vf import tshadow
        out = tshadow.diff_snapshot(self.snap)
        for a, b, sh, dt in self.nds:
            if a.tobytes() != b or a.shape != sh or str(a.dtype) != dt:
                out.append(('singular-values-mutated', 'stored singular values changed'))
        if self._meta() != self.meta:
            out.append(('network-metadata-changed', 'form/norm/bc/tensor identities changed: %r -> %r' % (self.meta, self._meta())))
        return out


def case_network(ctx, i):
    import numpy as np
    import traceback
    from tenpy.networks.mpo import MPOEnvironment
    from vf import dense, tprog
    import checks.C11 as C11
    rng = ctx.rng
    try:
        # (a third of the networks has different Site objects along the chain: reordering the sites of a copy is visible then)
        H, ref, sites, kind, terms, strengths = C11.make_mpo(rng, L=int(rng.integers(3, 6)), kind='mixed_fermion_spin' if rng.random() < 0.3 else None)
    except C11._Skip:
        ctx.count('skipped')
        return
    L = len(sites)
    psi, vec, qt = C11.rand_state(rng, sites)
    forms = [str(rng.choice(['A', 'B', 'C', 'Th', 'G'])) for _ in range(L)]
    if rng.random() < 0.7:
        psi.convert_form(forms)
    else:
        psi.convert_form(str(rng.choice(['A', 'B', 'Th'])))
    case = {'sites': kind, 'L': L, 'forms': [tuple(f) if f is not None else None for f in psi.form], 'ops': []}
    snap = NetSnap(psi, H)
    ctx.count('network.cases')

    def check(opname, what):
        d = snap.diff()
        ctx.count('monitor.network_fingerprints')
        if d:
            ctx.violation('%s:%s' % (opname, d[0][0]), '%s: %s' % (what, d[0][1]), dict(case))
            return False
        return True

    def mutate(res, opname):
        """Every public in-place method on a result that is a new object by the documentation; then re-check the network."""
        objs = res if isinstance(res, (list, tuple)) else [res]
        for r in objs:
            if hasattr(r, 'to_ndarray') and hasattr(r, 'legs'):
                how = tprog.Prog.mutate_in_place(None, r)
                ctx.count('network.results_mutated')
                if not check(opname, 'in-place methods (%s) on the result changed the network it came from' % how):
                    return False
            elif isinstance(r, np.ndarray) and r.size and r.flags.writeable:
                r[...] = 7
                ctx.count('network.results_mutated')
                if not check(opname, 'writing into the returned ndarray changed the network it came from'):
                    return False
        return True

    nops = int(rng.integers(3, 8))
    for _ in range(nops):
        k = int(rng.integers(0, 16))
        j = int(rng.integers(0, L))
        try:
            if k >= 14:
                # binary operations with a second state whose outer virtual legs differ (another charge sector after a charged
                # operator, or a re-gauged copy): the library re-gauges a *shallow copy* internally; neither operand may change
                from tenpy.networks.mps import MPSEnvironment
                name = 'two_states'
                phi = psi.copy()
                charged = sorted(n_ for n_ in sites[j].opnames if not sites[j].op_needs_JW(n_) and np.any(sites[j].get_op(n_).qtotal != 0))
                mode = int(rng.integers(0, 3))
                if charged and mode < 2:
                    phi.apply_local_op(j, charged[int(rng.integers(len(charged)))], unitary=False)
                    how = 'charged operator on site %d' % j
                else:
                    if len(sites[0].leg.chinfo.mod) == 0:
                        continue
                    q = [int(x) for x in rng.integers(-2, 3, size=len(sites[0].leg.chinfo.mod))]
                    # shift the charges of all virtual legs of the copy by a constant: the same state in another gauge
                    for b_ in range(L):
                        B_ = phi.get_B(b_, form=None).copy(deep=True)
                        for lab_ in ('vL', 'vR'):
                            leg_ = B_.get_leg(lab_)
                            new_ = leg_.copy()
                            new_.charges = leg_.chinfo.make_valid(leg_.charges + leg_.qconj * np.array(q) * (1 if lab_ == 'vL' else -1))
                            B_.legs[B_.get_leg_index(lab_)] = new_
                        B_.qtotal = B_.chinfo.make_valid(B_.qtotal)
                        try:
                            B_.test_sanity()
                        except Exception:
                            B_ = None
                            break
                        phi.set_B(b_, B_, form=phi.form[b_])
                    if B_ is None:
                        continue
                    how = 'virtual charges shifted by %r' % q
                snap2 = NetSnap(phi, None)
                what_ = int(rng.integers(0, 3))
                if what_ == 0:
                    psi.overlap(phi)
                    phi.overlap(psi)
                elif what_ == 1:
                    env_ = MPSEnvironment(phi, psi)
                    env_.full_contraction(j)
                else:
                    try:
                        psi.add(phi, 0.6, 0.8)
                    except ValueError:
                        pass  # (different total charge cannot be added: a loud refusal)
                case['ops'].append([name, how, ['overlap', 'MPSEnvironment', 'add'][what_]])
                ctx.count('network.two_state_ops')
                ok = check(name, '%s with a second state (%s)' % (['overlap', 'MPSEnvironment', 'add'][what_], how))
                d2 = snap2.diff()
                if ok and d2:
                    ctx.violation('%s:second-operand:%s' % (name, d2[0][0]), 'the second MPS (%s) changed: %s' % (how, d2[0][1]), dict(case))
                    ok = False
            elif k == 0:
                name = 'get_B'
                form = [None, 'A', 'B', 'C', 'G', 'Th', (0.5, 0.5), (1., 1.)][int(rng.integers(8))]
                if form is None:
                    continue
                cp = bool(rng.random() < 0.6)
                res = psi.get_B(j, form=form, copy=cp)
                case['ops'].append([name, j, str(form), cp])
                # (copy=False is documented to possibly return a view: only the call itself is judged then)
                ok = check(name, 'get_B(%d, form=%r)' % (j, form)) and (not cp or mutate(res, name))
            elif k == 1:
                name = 'get_theta'
                n = int(rng.integers(1, min(3, L - j) + 1))
                fL, fR = float(rng.choice([0., 0.5, 1.])), float(rng.choice([0., 0.5, 1.]))
                res = psi.get_theta(j, n=n, formL=fL, formR=fR) if rng.random() < 0.5 else psi.get_theta(j, n=n)
                case['ops'].append([name, j, n, fL, fR])
                ok = check(name, 'get_theta(%d, n=%d)' % (j, n)) and mutate(res, name)
            elif k == 2:
                name = 'get_rho_segment'
                seg = sorted(set(int(x) for x in rng.integers(0, L, size=2)))
                res = psi.get_rho_segment(seg)
                case['ops'].append([name, seg])
                ok = check(name, 'get_rho_segment(%r)' % seg) and mutate(res, name)
            elif k == 3:
                name = 'copy'
                psi2 = psi.copy()
                case['ops'].append([name])
                ok = check(name, 'copy()')
                if ok:
                    for b in psi2._B:
                        if not mutate(b, 'copy'):
                            ok = False
                            break
                    for S_ in psi2._S:
                        if isinstance(S_, np.ndarray):
                            S_[...] = 3.
                    ok = ok and check('copy', 'writing into the singular values of the copy')
            elif k == 4:
                name = 'copy+inplace_mps_method'
                psi2 = psi.copy()
                which = int(rng.choice([0, 1, 2, 3, 3, 3, 4, 5]))
                opn = sorted(n_ for n_ in sites[j].opnames if not sites[j].op_needs_JW(n_))
                if which == 0:
                    psi2.apply_local_op(j, opn[int(rng.integers(len(opn)))], unitary=False)
                elif which == 1:
                    psi2.canonical_form()
                elif which == 2:
                    psi2.convert_form(str(rng.choice(['A', 'B', 'C', 'Th'])))
                elif which == 3 and j < L - 1:
                    if rng.random() < 0.5:
                        psi2.swap_sites(j)
                    else:
                        psi2.permute_sites([int(x) for x in rng.permutation(L)])
                elif which == 4:
                    psi2.group_sites(2)
                else:
                    psi2.norm = 5.
                    psi2.set_B(j, psi2.get_B(j, form=None) * 2., form=psi2.form[j])
                case['ops'].append([name, which, j])
                ok = check(name, 'in-place MPS method no. %d on a copy' % which)
            elif k == 5:
                name = 'measurements'
                opn = sorted(n_ for n_ in sites[0].opnames if all(n_ in s.opnames and not s.op_needs_JW(n_) for s in sites))
                o = opn[int(rng.integers(len(opn)))]
                psi.expectation_value(o)
                psi.entanglement_entropy()
                psi.correlation_function(o, o)
                psi.overlap(psi)
                psi.norm_test()
                psi.get_total_charge()
                case['ops'].append([name, o])
                ok = check(name, 'expectation_value / correlation_function / entropy / overlap')
            elif k == 6:
                name = 'MPO.expectation_value'
                H.expectation_value(psi)
                if rng.random() < 0.5:
                    H.variance(psi)
                case['ops'].append([name])
                ok = check(name, 'H.expectation_value(psi)')
            elif k == 7:
                name = 'MPOEnvironment'
                env = MPOEnvironment(psi, H, psi)
                res = [env.get_LP(j), env.get_RP(j)]
                env.full_contraction(j)
                case['ops'].append([name, j])
                ok = check(name, 'MPOEnvironment.get_LP/get_RP') and mutate(res, name)
            elif k == 8:
                name = 'MPO.get_W(copy=True)'
                res = H.get_W(j, copy=True)
                case['ops'].append([name, j])
                ok = check(name, 'get_W(%d, copy=True)' % j) and mutate(res, name)
            elif k == 9:
                name = 'MPO.copy+inplace'
                import copy as _copy
                H2 = _copy.deepcopy(H)  # (MPO.copy() is documented as a shallow copy)
                which = int(rng.integers(0, 3))
                if which == 0:
                    H2.sort_legcharges()
                elif which == 1:
                    H2.group_sites(2)
                else:
                    for w in H2._W:
                        w *= 2.
                case['ops'].append([name, which])
                ok = check(name, 'in-place MPO method no. %d on a copy' % which)
            elif k == 10:
                name = 'MPO.apply(copy)'
                psi2 = psi.copy()
                H.apply(psi2, {'compression_method': str(rng.choice(['SVD', 'zip_up'])), 'trunc_params': {'chi_max': 30}})
                case['ops'].append([name])
                ok = check(name, 'H.apply on a copy of psi')
            elif k == 11:
                name = 'MPO.dagger/add'
                Hd = H.dagger()
                Hs = H + H
                ok = check(name, 'dagger / +')
                res = [Hd.get_W(j), Hs.get_W(j)]
                ok = ok and mutate(res, name)
                case['ops'].append([name])
            elif k == 12:
                name = 'site.get_op(product)'
                st = sites[j]
                opn = sorted(n_ for n_ in st.opnames)
                a, b = opn[int(rng.integers(len(opn)))], opn[int(rng.integers(len(opn)))]
                res = st.get_op(a + ' ' + b)
                case['ops'].append([name, a, b])
                ok = check(name, 'get_op(%r)' % (a + ' ' + b)) and mutate(res, name)
            elif k == 13 and rng.random() < 0.5:
                name = 'MPO.make_U'
                dt = [0.05, -0.05j, 0.1 + 0.02j][int(rng.integers(3))]
                ap = str(rng.choice(['I', 'II']))
                U = H.make_U(dt, approximation=ap)
                case['ops'].append([name, str(dt), ap])
                ok = check(name, 'make_U(%r, %r)' % (dt, ap)) and mutate([U.get_W(j)], name)
            else:
                name = 'get_SL/get_SR'
                psi.get_SL(j)
                psi.get_SR(j)
                psi.entanglement_spectrum()
                ok = check(name, 'get_SL / get_SR / entanglement_spectrum')
                case['ops'].append([name, j])
            ctx.count('netop.' + name)
            if not ok:
                return
        except Exception as e:
            tb = traceback.format_exc()
            if '/tenpy/' in tb and not isinstance(e, (ValueError, NotImplementedError)):
                ctx.count('network.op_raised.' + type(e).__name__)
            continue
    ctx.sig(('network', kind, L, tuple(str(o[0]) for o in case['ops'])), nontrivial=True)
    if i % 40 == 0:
        ctx.sample(case)

