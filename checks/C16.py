"""C16 — Krylov solvers return Ritz data of the operator they are given (recorded-matvec operator + dense ground truth)."""
import traceback
import warnings

import numpy as np

from vf.runner import shard

PROP = 'C16'
LEVEL = 'exploration'
RULE = ('random block-sparse Hermitian (general for Arnoldi/GMRES) operators of dimension 1-60 with random charge structure, '
        'wrapped so that every matvec is recorded; random start vectors in a random charge sector; all option values '
        '(N_min, N_max, N_cache, reortho, E_shift, cutoff, which, num_ev), real/imaginary/complex exponents; dense eigh/eig/expm '
        'restricted to the sector as ground truth. non-trivial = sector dimension >= 3; distinct = (solver, options, dim, structure)'
        ' Also: GMRES right-hand sides of any scale (non-finite results are verdicts), operator wrappers through matvec / to_matrix / adjoint incl. Boost, FlatLinearOperator over all sectors, one-dimensional Krylov spaces with E_shift, projector around nested wrappers.'
        ' Round 5: Lanczos iterations forced past convergence without re-orthogonalisation (norm of ground state and of the evolved state).')
ASSUMPTIONS = ['numpy eigh / scipy expm on the dense sector block as ground truth',
               'degenerate extremal eigenvalues are handled by projecting on the eigenspace']
ANCHORS = {'tenpy/linalg/krylov_based.py': ['*'], 'tenpy/linalg/sparse.py': ['*']}
REQUIRED_ANCHORS = ['krylov_based.py:LanczosGroundState._rebuild_krylov_for_result_full', 'krylov_based.py:KrylovBased._calc_result_full',
                    'krylov_based.py:LanczosEvolution.run', 'krylov_based.py:Arnoldi.run', 'krylov_based.py:GMRES.run',
                    'krylov_based.py:gram_schmidt', 'sparse.py:OrthogonalNpcLinearOperator.matvec',
                    'sparse.py:ShiftNpcLinearOperator.matvec', 'sparse.py:FlatLinearOperator.flat_to_npc']
REQUIRED_COUNTERS = {'lanczos.runs': 100, 'lanczos.ncache_sweeps': 30, 'lanczos.reuse_histories': 20, 'evolution.runs': 50,
                     'arnoldi.runs': 30, 'gmres.runs': 20, 'gram_schmidt.runs': 20, 'flat.runs': 20, 'ortho.runs': 20, 'lanczos_forced.runs': 20}
KINDS = ['lanczos', 'lanczos', 'lanczos_ncache', 'lanczos_reuse', 'lanczos_ortho', 'evolution', 'evolution', 'arnoldi',
         'arnoldi_evolution', 'gmres', 'gram_schmidt', 'flat', 'wrappers', 'lanczos_forced']


def plan(tier, seed, jobs):
    q = tier == 'quick'
    return (shard('compiled', 1600 if q else 40000, 12, timeout=3000, time_budget=70 if q else 1500) +
            shard('pure', 300 if q else 8000, 4, timeout=3000, time_budget=70 if q else 1500))


def worker_init(ctx):
    warnings.simplefilter('ignore')
    import logging
    logging.disable(logging.CRITICAL)


class RecOp:
    """Operator wrapper recording every matvec (count + fingerprint of the argument)."""

    def __init__(self, arr):
        self.arr = arr
        self.n = 0
        self.dtype = arr.dtype
        self.acts_on = ['x']

    def matvec(self, v):
        self.n += 1
        r = self.arr_matvec(v)
        return r

    def arr_matvec(self, v):
        from tenpy.linalg import np_conserved as npc
        r = npc.tensordot(self.arr, v, axes=[1, 0])
        r.iset_leg_labels(v.get_leg_labels())
        return r

    def to_matrix(self):
        return self.arr

    def adjoint(self):
        return RecOp(self.arr.conj().itranspose())


def _unpipe(m):
    """Back to the basis of the vector legs (a pipe sorts and bunches the charge blocks)."""
    from tenpy.linalg.charges import LegPipe
    return m.split_legs() if any(isinstance(l, LegPipe) for l in m.legs) else m


class _PipeAdj(RecOp):
    def to_matrix(self):
        return self.arr.combine_legs([[0], [1]], qconj=[+1, -1])


def gen_problem(ctx, rng, hermitian=True, max_dim=60, cplx=None):
    from vf import gen
    from tenpy.linalg import np_conserved as npc
    chinfo = gen.rand_chinfo(rng, max_q=2)
    mod = [int(m) for m in chinfo.mod]
    nb = int(rng.integers(1, 5))
    bs = int(rng.choice([1, 2, 4, 8, 15]))
    leg, kind = gen.rand_leg(rng, chinfo, max_blocks=nb, max_bs=bs, qconj=1)
    n = leg.ind_len
    if n == 0 or n > max_dim:
        return None
    if cplx is None:
        cplx = rng.random() < 0.4
    legs = [leg, leg.conj()]
    qf = gen.leg_qflat(leg)
    mask = gen.charge_mask([qf, qf], [1, -1], np.zeros(len(mod), dtype=np.int64), mod)
    d = rng.standard_normal((n, n))
    if cplx:
        d = d + 1j * rng.standard_normal((n, n))
    d = np.where(mask, d, 0)
    if hermitian:
        d = (d + d.conj().T) / 2
    struct = str(rng.choice(['generic', 'degenerate', 'rank_deficient', 'scaled']))
    if struct == 'degenerate' and hermitian:
        w, v = np.linalg.eigh(d)
        w = np.round(w)  # many exact degeneracies, also at the bottom
        d = (v * w[None, :]) @ v.conj().T
        d = np.where(mask, d, 0)
        d = (d + d.conj().T) / 2
    elif struct == 'rank_deficient':
        k = int(rng.integers(n))
        d[k, :] = 0
        d[:, k] = 0
    elif struct == 'scaled':
        d = d * float(10.0**rng.uniform(-2, 0.5))
    A = npc.Array.from_ndarray(d, legs, labels=['x', 'x*'], cutoff=0.)
    # sector of the start vector
    eff = gen.mod_valid(qf, mod)
    sectors = sorted(set(map(tuple, eff.tolist())))
    sec = sectors[int(rng.integers(len(sectors)))]
    idx = np.array([i for i, qq in enumerate(map(tuple, eff.tolist())) if qq == sec])
    v0 = np.zeros(n, dtype=complex if cplx else float)
    v0[idx] = rng.standard_normal(len(idx)) + (1j * rng.standard_normal(len(idx)) if cplx else 0)
    if rng.random() < 0.1 and hermitian and len(idx) > 1:
        # start vector = exact eigenvector (early exit on an invariant subspace)
        w, v = np.linalg.eigh(d[np.ix_(idx, idx)])
        v0[:] = 0
        v0[idx] = v[:, int(rng.integers(len(idx)))]
        struct += '+eigvec_start'
    psi0 = npc.Array.from_ndarray(v0, [leg], qtotal=list(sec), labels=['x'], cutoff=0.)
    # breakdown detection in the solvers uses an absolute `cutoff` (default 100 eps): keep |A| small enough that the
    # rounding noise of an exhausted Krylov space (~eps*|A|*sqrt(n)) stays below it
    if not (np.linalg.norm(d, 2) <= 8):
        return None
    return {'A': A, 'd': d, 'leg': leg, 'mod': mod, 'idx': idx, 'v0': v0, 'psi0': psi0, 'sector': sec, 'struct': struct, 'kind': kind,
            'cplx': bool(cplx), 'n': n}


def describe(p, opts):
    return {'n': p['n'], 'sector_dim': int(len(p['idx'])), 'mod': p['mod'], 'struct': p['struct'], 'leg_kind': p['kind'],
            'complex': p['cplx'], 'options': {k: repr(v) for k, v in opts.items()}, 'dense': p['d'], 'v0': p['v0'],
            'leg': [np.asarray(p['leg'].slices).tolist(), np.asarray(p['leg'].charges).tolist()]}


def run_case(ctx, i):
    rng = ctx.rng
    kind = KINDS[int(rng.integers(len(KINDS)))]
    try:
        r = globals()['do_' + kind](ctx, rng)
    except _Skip:
        ctx.count('skipped')
        return
    if r is None:
        return
    p, opts, name = r
    ctx.sig((name, tuple(sorted((k, repr(v)) for k, v in opts.items())), p['n'], p['struct'], p['kind'], p['cplx']),
            nontrivial=len(p['idx']) >= 3)
    if i % 300 == 0:
        c = describe(p, opts)
        c.pop('dense')
        c.pop('v0')
        ctx.sample(dict(c, solver=name))


class _Skip(Exception):
    pass


def lanczos_options(rng, dim, allow_ncache=True):
    opts = {'N_min': int(rng.integers(2, 5)), 'N_max': int(rng.choice([2, 3, 5, 10, 20, dim + 2, dim + 5]))}
    opts['N_max'] = max(opts['N_max'], opts['N_min'])
    if rng.random() < 0.5:
        opts['reortho'] = bool(rng.random() < 0.7)
    if rng.random() < 0.4:
        opts['E_shift'] = float(rng.choice([-10., -3., 2.5]))
    if allow_ncache and rng.random() < 0.5:
        opts['N_cache'] = int(rng.integers(2, opts['N_max'] + 1))
    if rng.random() < 0.3:
        opts['P_tol'] = float(rng.choice([1e-14, 1e-8]))
    if rng.random() < 0.2:
        opts['cutoff'] = 1e-12
    return opts


def check_ground_state(ctx, name, p, opts, E0, psi, N, case, H_dense=None, lam=None, tag=''):
    """Universal Lanczos-result monitors."""
    idx = p['idx']
    d = p['d'] if H_dense is None else H_dense
    v = psi.to_ndarray()
    scale = max(1.0, float(np.linalg.norm(d)))
    if not (abs(np.linalg.norm(v) - 1) <= 1e-8):
        ctx.violation(name + ':not-normalised' + tag, '|psi| = %r' % np.linalg.norm(v), case)
        return
    if not (np.linalg.norm(np.delete(v, idx)) <= 1e-8):
        ctx.violation(name + ':leaves-charge-sector' + tag, '', case)
    rq = np.real(np.vdot(v, d @ v))
    if not (abs(rq - E0) <= 1e-7 * scale):
        ctx.violation(name + ':E0-is-not-rayleigh-quotient' + tag, 'E0 %r <v|A|v> %r (N=%d)' % (E0, rq, N), case)
    if lam is None:
        lam = np.linalg.eigvalsh(d[np.ix_(idx, idx)])
    if E0 < lam[0] - 1e-8 * scale:
        ctx.violation(name + ':below-smallest-eigenvalue' + tag, 'E0 %r lambda_min %r' % (E0, lam[0]), case)


def do_lanczos_forced(ctx, rng):
    """Iterations forced past convergence without re-orthogonalisation (N_min = N_max, well separated lowest eigenvalue): the Krylov
    basis loses orthogonality, the result still has to come back normalised (it is normalised explicitly at the end), and an
    evolution with an imaginary exponent still preserves the norm."""
    import tenpy.linalg.np_conserved as npc
    from tenpy.linalg.krylov_based import LanczosGroundState, LanczosEvolution
    n = int(rng.integers(30, 70))
    cplx = bool(rng.random() < 0.5)
    q, _ = np.linalg.qr(rng.standard_normal((n, n)) + (1j * rng.standard_normal((n, n)) if cplx else 0))
    w = np.concatenate([[-float(rng.uniform(3, 6))], rng.uniform(0, 1, n - 1)])
    d = (q * w[None, :]) @ q.conj().T
    d = (d + d.conj().T) / 2
    A = npc.Array.from_ndarray_trivial(d, labels=['x', 'x*'])
    v0 = rng.standard_normal(n) + (1j * rng.standard_normal(n) if cplx else 0)
    psi0 = npc.Array.from_ndarray_trivial(v0, labels=['x'])
    N = int(rng.integers(10, 22))
    opts = {'N_min': N, 'N_max': N, 'reortho': False, 'P_tol': 1e-300, 'E_tol': 1e-300}
    if rng.random() < 0.5:
        opts['N_cache'] = int(rng.integers(2, N + 1))
    case = {'kind': 'forced iterations', 'n': n, 'complex': cplx, 'options': opts, 'lowest': float(w[0])}
    ctx.count('lanczos_forced.runs')
    try:
        E0, psi, N_done = LanczosGroundState(RecOp(A), psi0, dict(opts)).run()
        v = psi.to_ndarray()
        if not (abs(np.linalg.norm(v) - 1) <= 1e-12):
            ctx.violation('lanczos:not-normalised:iterations-past-convergence', '|psi| - 1 = %g (N=%d, reortho=False)' %
                          (np.linalg.norm(v) - 1, N_done), case)
        lam = np.linalg.eigvalsh(d)
        if E0 < lam[0] - 1e-8:
            ctx.violation('lanczos:below-smallest-eigenvalue:iterations-past-convergence', 'E0 %r lambda_min %r' % (E0, lam[0]), case)
        delta = -1j * float(rng.uniform(1, 6))
        psi_t, N_t = LanczosEvolution(RecOp(A), psi0, dict(opts)).run(delta)
        vt = psi_t.to_ndarray()
        if not (abs(np.linalg.norm(vt) - 1) <= 1e-12):
            ctx.violation('lanczos-evolution:norm-not-preserved:iterations-past-convergence', '|psi| - 1 = %g (N=%d, reortho=False)' %
                          (np.linalg.norm(vt) - 1, N_t), case)
    except Exception as e:
        tb = traceback.format_exc()
        if '/tenpy/' not in tb:
            raise
        ctx.violation('lanczos_forced:raises-%s' % type(e).__name__, tb[-600:], case)
    return None


def do_lanczos(ctx, rng):
    from tenpy.linalg.krylov_based import LanczosGroundState
    p = gen_problem(ctx, rng)
    if p is None:
        raise _Skip()
    dim = len(p['idx'])
    opts = lanczos_options(rng, dim)
    case = describe(p, opts)
    op = RecOp(p['A'])
    A_before = p['A'].to_ndarray().copy()
    psi_before = p['psi0'].to_ndarray().copy()
    try:
        E0, psi, N = LanczosGroundState(op, p['psi0'], dict(opts)).run()
    except Exception as e:
        ctx.violation('lanczos:raises-%s' % type(e).__name__, traceback.format_exc()[-600:], case)
        return p, opts, 'lanczos'
    ctx.count('lanczos.runs')
    ctx.count('lanczos.matvecs', op.n)
    if 'N_cache' in opts and opts['N_cache'] < N:
        ctx.count('lanczos.rebuild_needed')
    if not np.array_equal(p['A'].to_ndarray(), A_before) or not np.array_equal(p['psi0'].to_ndarray(), psi_before):
        ctx.violation('lanczos:mutates-operator-or-start-vector', '', case)
    lam, vec = np.linalg.eigh(p['d'][np.ix_(p['idx'], p['idx'])])
    if op.n < N:
        ctx.violation('lanczos:N-larger-than-matvecs', 'N=%d matvecs=%d' % (N, op.n), case)
    if N > opts['N_max']:
        ctx.violation('lanczos:N-exceeds-N_max', 'N=%d' % N, case)
    check_ground_state(ctx, 'lanczos', p, opts, E0, psi, N, case, lam=lam)
    # exact once the Krylov space is the whole (reachable) space
    kdim = _krylov_dim(p)
    scale = max(1.0, float(np.linalg.norm(p['d'])))
    if N >= kdim and opts['N_max'] >= kdim and opts.get('reortho', False):
        # ground state within the Krylov space of v0
        lam_k = _krylov_spectrum(p)
        if not (abs(E0 - lam_k[0]) <= 1e-7 * scale):
            ctx.violation('lanczos:not-exact-at-full-krylov-dimension', 'E0 %r exact %r (N=%d, krylov dim %d)' %
                          (E0, lam_k[0], N, kdim), case)
    return p, opts, 'lanczos'


def _krylov_basis(p):
    d, v0 = p['d'], p['v0']
    K = [v0 / np.linalg.norm(v0)]
    for _ in range(len(p['idx']) + 1):
        w = d @ K[-1]
        for k in K:
            w = w - k * np.vdot(k, w)
        for k in K:
            w = w - k * np.vdot(k, w)
        nw = np.linalg.norm(w)
        if nw < 1e-9 * max(1.0, np.linalg.norm(d)):
            break
        K.append(w / nw)
    return np.array(K).T


def _krylov_dim(p):
    return _krylov_basis(p).shape[1]


def _krylov_spectrum(p):
    K = _krylov_basis(p)
    h = K.conj().T @ p['d'] @ K
    return np.linalg.eigvalsh((h + h.conj().T) / 2)


def do_lanczos_ncache(ctx, rng):
    """Independence of N_cache: same operator/start with every N_cache must agree."""
    from tenpy.linalg.krylov_based import LanczosGroundState
    p = gen_problem(ctx, rng, max_dim=40)
    if p is None or len(p['idx']) < 3:
        raise _Skip()
    # convergence exit disabled (P_tol) so that N == N_max and small caches force the rebuild path; N_max is capped by
    # the dimension of the Krylov space of the start vector (beyond it the recurrence only amplifies rounding noise)
    kd = _krylov_dim(p)
    if kd < 3:
        raise _Skip()
    opts = {'N_min': 2, 'N_max': min(int(rng.choice([4, 6, 10])), kd), 'reortho': bool(rng.random() < 0.5), 'P_tol': 1e-30}
    if rng.random() < 0.3:
        opts['E_shift'] = -5.
    case = describe(p, opts)
    ref = None
    for nc in [opts['N_max']] + sorted(set(int(x) for x in rng.integers(2, opts['N_max'], size=3))):
        o = dict(opts, N_cache=nc)
        try:
            E0, psi, N = LanczosGroundState(RecOp(p['A']), p['psi0'].copy(), o).run()
        except Exception as e:
            ctx.violation('lanczos:raises-%s:N_cache<N' % type(e).__name__, traceback.format_exc()[-600:], dict(case, N_cache=nc))
            return p, opts, 'lanczos_ncache'
        v = psi.to_ndarray()
        check_ground_state(ctx, 'lanczos', p, o, E0, psi, N, dict(case, N_cache=nc), tag=':N_cache<N' if nc < N else '')
        if ref is None:
            ref = (E0, v, N)
        else:
            if N != ref[2] or not (abs(E0 - ref[0]) <= 1e-9 * max(1, abs(ref[0]))):
                ctx.violation('lanczos:energy-depends-on-N_cache', 'N_cache=%d: E0 %r N %d vs %r N %d' % (nc, E0, N, ref[0], ref[2]),
                              dict(case, N_cache=nc))
            elif not (abs(abs(np.vdot(v, ref[1])) - 1) <= (1e-6 if opts['reortho'] else 1e-4)):
                ctx.violation('lanczos:vector-depends-on-N_cache', 'N_cache=%d: overlap with full-cache result %r' %
                              (nc, abs(np.vdot(v, ref[1]))), dict(case, N_cache=nc))
    ctx.count('lanczos.ncache_sweeps')
    return p, opts, 'lanczos_ncache'


def do_lanczos_reuse(ctx, rng):
    """History clause: the same operator object used for several solver runs (with E_shift) gives the same result."""
    from tenpy.linalg.krylov_based import LanczosGroundState
    from tenpy.linalg.sparse import OrthogonalNpcLinearOperator
    p = gen_problem(ctx, rng, max_dim=30)
    if p is None or len(p['idx']) < 3:
        raise _Skip()
    opts = {'N_min': 2, 'N_max': len(p['idx']) + 3, 'reortho': True, 'E_shift': float(rng.choice([-10., -4., 3.]))}
    use_ortho = rng.random() < 0.5
    case = describe(p, dict(opts, orthogonal_wrapper=use_ortho))
    op = RecOp(p['A'])
    if use_ortho:
        # an orthogonal-projection wrapper with an empty/one-vector list; the wrapped operator object is reused
        lam, vec = np.linalg.eigh(p['d'][np.ix_(p['idx'], p['idx'])])
        op = OrthogonalNpcLinearOperator(op, [])
    res = []
    for run in range(3):
        try:
            E0, psi, N = LanczosGroundState(op, p['psi0'].copy(), dict(opts)).run()
        except Exception as e:
            ctx.violation('lanczos-reuse:raises-%s' % type(e).__name__, traceback.format_exc()[-600:], case)
            return p, opts, 'lanczos_reuse'
        res.append(E0)
        check_ground_state(ctx, 'lanczos-reuse', p, opts, E0, psi, N, case,
                           tag=':run%d%s' % (min(run, 1) + 1, ':OrthogonalNpcLinearOperator' if use_ortho else ''))
    if not (max(abs(r - res[0]) for r in res) <= 1e-7 * max(1, abs(res[0]))):
        ctx.violation('lanczos-reuse:E_shift-stacks-on-reused-operator%s' % (':OrthogonalNpcLinearOperator' if use_ortho else ''),
                      'energies of consecutive runs on the same operator object: %r' % res, case)
    ctx.count('lanczos.reuse_histories')
    return p, opts, 'lanczos_reuse'


def do_lanczos_ortho(ctx, rng):
    from tenpy.linalg.krylov_based import LanczosGroundState
    from tenpy.linalg.sparse import OrthogonalNpcLinearOperator
    from tenpy.linalg import np_conserved as npc
    p = gen_problem(ctx, rng, max_dim=30)
    if p is None or len(p['idx']) < 4:
        raise _Skip()
    idx = p['idx']
    lam, vec = np.linalg.eigh(p['d'][np.ix_(idx, idx)])
    k = int(rng.integers(1, 3))
    ovs = []
    for j in range(k):
        full = np.zeros(p['n'], dtype=vec.dtype)
        full[idx] = vec[:, j]
        ovs.append(npc.Array.from_ndarray(full, [p['leg']], qtotal=list(p['sector']), labels=['x'], cutoff=0.))
    ov_before = [o.to_ndarray().copy() for o in ovs]
    opts = {'N_min': 2, 'N_max': len(idx) + 3, 'reortho': True}
    inner = RecOp(p['A'])
    inner_kind = 'plain'
    r_ = rng.random()
    if r_ < 0.5:
        # the projector wraps another wrapper: the operator given is P (A1 + A2) P resp. P (A' + s) P with A1 + A2 = A' + s = A
        from tenpy.linalg.sparse import SumNpcLinearOperator, ShiftNpcLinearOperator
        if r_ < 0.3:
            f_ = float(rng.uniform(0.2, 0.8))
            inner = SumNpcLinearOperator(RecOp(p['A'] * f_), RecOp(p['A'] * (1. - f_)))
            inner_kind = 'sum'
        else:
            s_ = float(rng.choice([-1.5, 2.0]))
            eye_ = npc.eye_like(p['A'], labels=p['A'].get_leg_labels())
            inner = ShiftNpcLinearOperator(RecOp(p['A'] - s_ * eye_), s_)
            inner_kind = 'shift'
        ctx.count('ortho.nested_wrappers')
    if rng.random() < 0.5:
        # (documented use with a projector: the shift makes the spectrum negative, so that the projected-out vectors -- eigenvalue 0 of
        #  P (A + E_shift) P -- stay above the wanted state)
        opts['E_shift'] = -float(np.max(np.abs(lam))) - float(rng.choice([0.5, 2.0]))
    case = describe(p, dict(opts, n_ortho=k, inner=inner_kind))
    op = OrthogonalNpcLinearOperator(inner, ovs)
    # start vector orthogonal to ortho_vecs
    v0 = p['v0'].copy()
    for o in ov_before:
        v0 = v0 - o * np.vdot(o, v0)
    if np.linalg.norm(v0) < 1e-6:
        raise _Skip()
    psi0 = npc.Array.from_ndarray(v0, [p['leg']], qtotal=list(p['sector']), labels=['x'], cutoff=0.)
    try:
        E0, psi, N = LanczosGroundState(op, psi0, dict(opts)).run()
    except Exception as e:
        ctx.violation('lanczos-ortho:raises-%s' % type(e).__name__, traceback.format_exc()[-600:], case)
        return p, opts, 'lanczos_ortho'
    ctx.count('ortho.runs')
    v = psi.to_ndarray()
    for j, o in enumerate(ov_before):
        if not (abs(np.vdot(o, v)) <= 1e-7):
            ctx.violation('lanczos-ortho:result-not-orthogonal', 'overlap with ortho_vec %d: %r' % (j, abs(np.vdot(o, v))), case)
    if any(np.linalg.norm(o.to_ndarray() - b) > 1e-10 for o, b in zip(ovs, ov_before)):
        ctx.violation('lanczos-ortho:mutates-ortho_vecs', '', case)
    # ground state of P H P = (k+1)-th eigenvalue (within the Krylov space of v0: compare Rayleigh quotient bound)
    scale = max(1.0, float(np.linalg.norm(p['d'])))
    if E0 < lam[k] - 1e-7 * scale:
        ctx.violation('lanczos-ortho:below-excited-eigenvalue', 'E0 %r lambda_%d %r' % (E0, k, lam[k]), case)
    rq = np.real(np.vdot(v, p['d'] @ v))
    if not (abs(rq - E0) <= 1e-7 * scale):
        ctx.violation('lanczos-ortho:E0-is-not-rayleigh-quotient', 'E0 %r <v|A|v> %r' % (E0, rq), case)
    return p, opts, 'lanczos_ortho'


def do_evolution(ctx, rng):
    import scipy.linalg
    from tenpy.linalg.krylov_based import LanczosEvolution
    p = gen_problem(ctx, rng, max_dim=40)
    if p is None:
        raise _Skip()
    dim = len(p['idx'])
    nrm = max(1e-3, float(np.linalg.norm(p['d'], 2)))
    delta = complex(rng.choice([-1j, 1j, -1, 0.5, -0.3 + 0.4j])) * float(rng.uniform(0.05, 1.0)) / nrm
    if delta.imag == 0:
        delta = delta.real
    opts = {'N_min': 2, 'N_max': dim + 3 if rng.random() < 0.7 else 30, 'reortho': bool(rng.random() < 0.7)}
    if rng.random() < 0.3:
        opts['N_cache'] = int(rng.integers(2, opts['N_max'] + 1))
    normalize = rng.choice([None, True, False])
    case = describe(p, dict(opts, delta=delta, normalize=normalize))
    try:
        psi, N = LanczosEvolution(RecOp(p['A']), p['psi0'].copy(), dict(opts)).run(delta, normalize=normalize)
    except Exception as e:
        ctx.violation('lanczos-evolution:raises-%s' % type(e).__name__, traceback.format_exc()[-600:], case)
        return p, opts, 'evolution'
    ctx.count('evolution.runs')
    ref = scipy.linalg.expm(delta * p['d']) @ p['v0']
    do_norm = normalize if normalize is not None else (np.real(delta) == 0.0)
    if do_norm:
        ref = ref / np.linalg.norm(ref)
    v = psi.to_ndarray()
    err = np.linalg.norm(v - ref)
    tol = 1e-7 * max(1.0, np.linalg.norm(ref)) if opts['N_max'] >= dim + 1 else 1e-5 * max(1.0, np.linalg.norm(ref))
    if not (err <= tol):
        kind = 'phase-or-norm' if abs(abs(np.vdot(v, ref)) - np.linalg.norm(v) * np.linalg.norm(ref)) < 1e-6 * max(1, np.linalg.norm(ref))**2 else 'direction'
        ctx.violation('lanczos-evolution:wrong-%s:normalize=%s' % (kind, bool(do_norm)),
                      '|result - expm(delta A) v0| = %g (delta=%r, N=%d, dim=%d)' % (err, delta, N, dim), case)
    if np.real(delta) == 0 and not (abs(np.linalg.norm(v) - (1.0 if do_norm else np.linalg.norm(p['v0']))) <= 1e-7 * max(1, np.linalg.norm(p['v0']))):
        ctx.violation('lanczos-evolution:norm-not-preserved', '|psi| %r' % np.linalg.norm(v), case)
    # the same solver object again with another step (run(delta) takes the step as argument): independent of the first call
    if rng.random() < 0.5 and err <= tol:
        solver = LanczosEvolution(RecOp(p['A']), p['psi0'].copy(), dict(opts))
        try:
            solver.run(delta, normalize=normalize)
            delta2 = delta * float(rng.choice([1.0, 0.5, -1.0]))
            psi2, N2 = solver.run(delta2, normalize=normalize)
        except Exception as e:
            ctx.violation('lanczos-evolution-second-run:raises-%s' % type(e).__name__, traceback.format_exc()[-600:], case)
            return p, opts, 'evolution'
        ctx.count('evolution.second_runs')
        ref2 = scipy.linalg.expm(delta2 * p['d']) @ p['v0']
        do_norm2 = normalize if normalize is not None else (np.real(delta2) == 0.0)
        if do_norm2:
            ref2 = ref2 / np.linalg.norm(ref2)
        err2 = np.linalg.norm(psi2.to_ndarray() - ref2)
        if not (err2 <= 10 * tol):
            ctx.violation('lanczos-evolution-second-run:wrong:reortho=%s' % opts['reortho'],
                          'second run() of one LanczosEvolution object: |result - expm(delta A) v0| = %g (N=%d, first run N=%d, N_cache %r)' %
                          (err2, N2, N, opts.get('N_cache')), case)
    return p, opts, 'evolution'


def do_arnoldi_one_dim(ctx, rng, p):
    """Krylov space of dimension one (start vector is an eigenvector / N_max = 1): the single Ritz value is the Rayleigh quotient of the
    operator given, whatever E_shift is."""
    from tenpy.linalg.krylov_based import Arnoldi
    from tenpy.linalg import np_conserved as npc
    idx = p['idx']
    mode = 'eigenvector'  # (N_max = 1 is refused by the solver: 'Should perform at least 2 steps')
    if mode == 'eigenvector':
        w, V = np.linalg.eig(p['d'][np.ix_(idx, idx)])
        j = int(rng.integers(len(w)))
        full = np.zeros(p['n'], dtype=complex)
        full[idx] = V[:, j]
        if np.all(np.abs(full.imag) < 1e-14):
            full = full.real
        A = p['A'] if not np.iscomplexobj(full) else p['A'].astype(np.complex128)
        psi0 = npc.Array.from_ndarray(full, [p['leg']], qtotal=list(p['sector']), labels=['x'], cutoff=0.)
        opts = {'N_min': 2, 'N_max': 5, 'which': 'LM', 'num_ev': 1}
    else:
        A, psi0, full = p['A'], p['psi0'].copy(), p['v0']
        opts = {'N_min': 1, 'N_max': 1, 'which': 'LM', 'num_ev': 1}
    if rng.random() < 0.7:
        opts['E_shift'] = float(rng.choice([-2., 1.5, 4.]))
    case = describe(p, dict(opts, mode=mode))
    ctx.count('arnoldi.one_dimensional')
    try:
        Es, psis, N = Arnoldi(RecOp(A), psi0, dict(opts)).run()
    except Exception as e:
        ctx.violation('arnoldi:one-dimensional:raises-%s' % type(e).__name__, traceback.format_exc()[-600:], case)
        return
    v = psis[0].to_ndarray() if len(psis) else None
    E = np.atleast_1d(Es)[0]
    if v is None or not (abs(np.linalg.norm(v) - 1) <= 1e-7):
        ctx.violation('arnoldi:one-dimensional:not-normalised', '', case)
        return
    rq = np.vdot(v, p['d'] @ v)
    if N == 1 and not (abs(E - rq) <= 1e-7 * max(1.0, abs(rq))):
        ctx.violation('arnoldi:one-dimensional:ritz-value-is-not-the-rayleigh-quotient', 'E %r, <v|A|v> %r (E_shift %r)' % (E, rq, opts.get('E_shift')), case)


def do_arnoldi(ctx, rng):
    from tenpy.linalg.krylov_based import Arnoldi
    herm = rng.random() < 0.3
    p = gen_problem(ctx, rng, hermitian=herm, max_dim=30)
    if p is not None and rng.random() < 0.25:
        do_arnoldi_one_dim(ctx, rng, p)
        return p, {}, 'arnoldi'
    if p is None or len(p['idx']) < 2:
        raise _Skip()
    dim = len(p['idx'])
    which = str(rng.choice(['LM', 'LR', 'SR']))
    num_ev = int(rng.integers(1, min(dim, 3) + 1))
    kd = _krylov_dim_general(p)
    if kd < 2:
        raise _Skip()
    num_ev = max(1, min(num_ev, kd - 1))  # N_max == num_ev is not supported by the convergence criterion
    # N_max = dimension of the Krylov space of the start vector: stepping beyond an exhausted space only adds noise
    opts = {'N_min': 2, 'N_max': kd, 'which': which, 'num_ev': num_ev, 'P_tol': 1e-30}
    if rng.random() < 0.3:
        # shift of the order of the operator norm (a shift >> |A| makes the Krylov vectors nearly parallel: pure rounding regime)
        opts['E_shift'] = float(rng.choice([-1., 0.7])) * max(1e-3, float(np.linalg.norm(p['d'], 2)))
    case = describe(p, opts)
    try:
        Es, psis, N = Arnoldi(RecOp(p['A']), p['psi0'].copy(), dict(opts)).run()
    except Exception as e:
        ctx.violation('arnoldi:raises-%s' % type(e).__name__, traceback.format_exc()[-600:], case)
        return p, opts, 'arnoldi'
    ctx.count('arnoldi.runs')
    scale = max(1.0, float(np.linalg.norm(p['d'])))
    if N < _krylov_dim_general(p):
        return p, opts, 'arnoldi'  # not converged: nothing exact to compare
    ref = np.linalg.eigvals(p['d'][np.ix_(p['idx'], p['idx'])])
    shift = opts.get('E_shift') or 0.
    for j, (E, psi) in enumerate(zip(np.atleast_1d(Es), psis)):
        v = psi.to_ndarray()
        res = np.linalg.norm(p['d'] @ v - E * v)
        if not (abs(np.linalg.norm(v) - 1) <= 1e-7):
            ctx.violation('arnoldi:not-normalised', '', case)
        elif not (res <= 1e-3 * scale):
            ctx.violation('arnoldi:ritz-pair-residual', 'pair %d: |Av - Ev| = %g (N=%d dim=%d)' % (j, res, N, dim), case)
            break
    # ordering according to `which` (keys computed on the shifted operator, as documented for E_shift)
    E = np.atleast_1d(Es)[:len(psis)] + shift
    key = {'LM': -np.abs(E), 'LR': -np.real(E), 'SR': np.real(E)}[which]
    if len(E) > 1 and np.any(np.diff(key) < -1e-7 * scale):
        ctx.violation('arnoldi:not-ordered-as-requested', 'which=%s Es=%r' % (which, E), case)
    return p, opts, 'arnoldi'


def _krylov_dim_general(p):
    d, v0 = p['d'], p['v0']
    K = [v0 / np.linalg.norm(v0)]
    for _ in range(len(p['idx']) + 1):
        w = d @ K[-1]
        for _rep in range(2):
            for k in K:
                w = w - k * np.vdot(k, w)
        nw = np.linalg.norm(w)
        if nw < 1e-9 * max(1.0, np.linalg.norm(d)):
            break
        K.append(w / nw)
    return len(K)


def do_arnoldi_evolution(ctx, rng):
    import scipy.linalg
    from tenpy.linalg.krylov_based import ArnoldiEvolution
    p = gen_problem(ctx, rng, hermitian=False, max_dim=25)
    if p is None:
        raise _Skip()
    dim = len(p['idx'])
    nrm = max(1e-3, float(np.linalg.norm(p['d'], 2)))
    delta = complex(rng.choice([-1j, -1, 0.5, -0.3 + 0.4j])) * float(rng.uniform(0.05, 0.8)) / nrm
    if delta.imag == 0:
        delta = delta.real
    opts = {'N_min': 2, 'N_max': dim + 3}
    normalize = bool(rng.random() < 0.5)
    case = describe(p, dict(opts, delta=delta, normalize=normalize))
    try:
        psi, N = ArnoldiEvolution(RecOp(p['A']), p['psi0'].copy(), dict(opts)).run(delta, normalize=normalize)
    except Exception as e:
        ctx.violation('arnoldi-evolution:raises-%s' % type(e).__name__, traceback.format_exc()[-600:], case)
        return p, opts, 'arnoldi_evolution'
    ctx.count('evolution.runs')
    ref = scipy.linalg.expm(delta * p['d']) @ p['v0']
    if normalize:
        ref = ref / np.linalg.norm(ref)
    err = np.linalg.norm(psi.to_ndarray() - ref)
    if not (err <= 1e-6 * max(1.0, np.linalg.norm(ref))):
        ctx.violation('arnoldi-evolution:wrong:normalize=%s' % normalize, '|result - expm(delta A) v0| = %g (delta=%r N=%d)' %
                      (err, delta, N), case)
    return p, opts, 'arnoldi_evolution'


def do_gmres(ctx, rng):
    from tenpy.linalg.krylov_based import GMRES
    from tenpy.linalg import np_conserved as npc
    p = gen_problem(ctx, rng, hermitian=False, max_dim=20)
    if p is None:
        raise _Skip()
    idx = p['idx']
    # well conditioned in the sector
    d = p['d'].copy()
    d[np.ix_(idx, idx)] += np.eye(len(idx)) * (3 + len(idx))
    A = npc.Array.from_ndarray(d, [p['leg'], p['leg'].conj()], labels=['x', 'x*'], cutoff=0.)
    p = dict(p, d=d, A=A)
    # the residual is relative to |b|: right-hand sides of any scale
    scale = float(rng.choice([1.0, 1.0, 1e-9, 1e-5, 1e4, 1e-12]))
    b = p['psi0'] * scale
    r = rng.random()
    x0 = b.zeros_like() if r < 0.4 else (b * 0.5 if r < 0.7 else b * (1.0 / (3 + len(idx))))
    opts = {'N_min': int(rng.choice([0, 1, 1, 5])), 'N_max': int(rng.choice([3, 8, len(idx) + 2])), 'restart': int(rng.choice([1, 3, 10])),
            'res': float(rng.choice([1e-8, 1e-3]))}
    if rng.random() < 0.2:
        opts = {}  # all defaults
    case = describe(p, opts)
    case['b_scale'] = scale
    ctx.count('gmres.small_rhs' if scale < 1e-6 else 'gmres.normal_rhs')
    try:
        x, res, errs, iters = GMRES(RecOp(A), x0, b, dict(opts)).run()
    except Exception as e:
        ctx.violation('gmres:raises-%s' % type(e).__name__, traceback.format_exc()[-600:], case)
        return p, opts, 'gmres'
    ctx.count('gmres.runs')
    xv, bv = x.to_ndarray(), b.to_ndarray()
    true_res = np.linalg.norm(d @ xv - bv) / np.linalg.norm(bv)
    if not (np.all(np.isfinite(xv)) and np.isfinite(res)):
        ctx.violation('gmres:returns-NaN:dim=%s' % ('1' if len(idx) == 1 else '>1'), 'reported %r, x finite: %s (sector dimension %d)' % (res, bool(np.all(np.isfinite(xv))), len(idx)), case)
        return p, opts, 'gmres'
    if not (abs(true_res - res) <= 1e-6 * max(1.0, true_res) + 1e-9):
        ctx.violation('gmres:reported-residual-wrong', 'reported %r true %r' % (res, true_res), case)
    return p, opts, 'gmres'


def do_gram_schmidt(ctx, rng):
    from tenpy.linalg.krylov_based import gram_schmidt
    from tenpy.linalg import np_conserved as npc
    p = gen_problem(ctx, rng, max_dim=20)
    if p is None:
        raise _Skip()
    idx = p['idx']
    k = int(rng.integers(1, len(idx) + 3))
    vecs = []
    for j in range(k):
        v = np.zeros(p['n'], dtype=complex if p['cplx'] else float)
        v[idx] = rng.standard_normal(len(idx)) + (1j * rng.standard_normal(len(idx)) if p['cplx'] else 0)
        if j > 0 and rng.random() < 0.2:
            v = v * 0.0  # exactly zero vector: must be dropped (decidable; nearly dependent input is a rounding-level decision)
        vecs.append(v)
    arrs = [npc.Array.from_ndarray(v, [p['leg']], qtotal=list(p['sector']), labels=['x'], cutoff=0.) for v in vecs]
    opts = {'k': k}
    case = describe(p, opts)
    try:
        res = gram_schmidt(arrs)
    except Exception as e:
        ctx.violation('gram_schmidt:raises-%s' % type(e).__name__, traceback.format_exc()[-600:], case)
        return p, opts, 'gram_schmidt'
    ctx.count('gram_schmidt.runs')
    M = np.array([r.to_ndarray() for r in res])
    rank0 = np.linalg.matrix_rank(np.array(vecs), tol=1e-8)
    nonzero = sum(1 for v in vecs if np.linalg.norm(v) > 0)
    well_posed = rank0 == nonzero  # the non-zero input vectors are linearly independent
    if len(res) and well_posed:
        G = M.conj() @ M.T
        if not (np.linalg.norm(G - np.eye(len(res))) <= 1e-8):
            ctx.violation('gram_schmidt:not-orthonormal', '|G-1| = %g' % np.linalg.norm(G - np.eye(len(res))), case)
    rank = np.linalg.matrix_rank(np.array(vecs), tol=1e-8)
    if (well_posed and len(res) != rank) or len(res) < rank or len(res) > len(vecs):
        ctx.violation('gram_schmidt:wrong-number-of-vectors', 'returned %d, rank %d' % (len(res), rank), case)
    return p, opts, 'gram_schmidt'


def do_flat(ctx, rng):
    from tenpy.linalg.sparse import FlatLinearOperator, FlatHermitianOperator
    p = gen_problem(ctx, rng, max_dim=30)
    if p is None or len(p['idx']) < 2:
        raise _Skip()
    opts = {'compact_flat': rng.choice([None, True, False])}
    case = describe(p, opts)
    try:
        cls = FlatHermitianOperator if rng.random() < 0.5 else FlatLinearOperator
        F = cls.from_NpcArray(p['A'], charge_sector=list(p['sector']), compact_flat=opts['compact_flat'])
        idx = p['idx']
        # round trip npc <-> flat
        fv = F.npc_to_flat(p['psi0'])
        back = F.flat_to_npc(fv).to_ndarray()
        if not (np.linalg.norm(back - p['v0']) <= 1e-12):
            ctx.violation('flat:roundtrip', '', case)
        # matvec against the dense sector block
        x = rng.standard_normal(F.shape[1]).astype(F.dtype)
        y = F.matvec(x)
        xn = F.flat_to_npc(x).to_ndarray()
        yn = F.flat_to_npc(y).to_ndarray()
        if not (np.linalg.norm(yn - p['d'] @ xn) <= 1e-9 * max(1.0, np.linalg.norm(p['d']))):
            ctx.violation('flat:matvec', '', case)
        # all sectors at once (charge_sector=None), then switching the same object to the sector
        if not p['leg'].is_blocked() or opts['compact_flat']:
            # (the representation of a vector of undetermined charge uses one column per charge block: blocked legs only, as the
            #  pipes of from_guess_with_pipe are; compact_flat is documented to need a fixed sector)
            ctx.count('flat.runs')
            return p, opts, 'flat'
        G = cls.from_NpcArray(p['A'], charge_sector=None, compact_flat=opts['compact_flat'])
        n = p['n']
        if G.shape != (n, n):
            ctx.violation('flat:None-sector:shape', '%r for dimension %d' % (G.shape, n), case)
        else:
            x = rng.standard_normal(n).astype(G.dtype)
            y = G.matvec(x)
            # (the flat basis of the full space is the basis of the leg)
            if not (np.linalg.norm(y - p['d'] @ x) <= 1e-9 * max(1.0, np.linalg.norm(p['d'])) * max(1.0, np.linalg.norm(x))):
                ctx.violation('flat:None-sector:matvec', '', case)
            back = G.flat_to_npc_None_sector(p['v0'].astype(G.dtype)).to_ndarray()
            if not (np.linalg.norm(back - p['v0']) <= 1e-12):
                ctx.violation('flat:None-sector:flat_to_npc_None_sector', '', case)
            ctx.count('flat.none_sector')
            G.charge_sector = list(p['sector'])
            x = rng.standard_normal(G.shape[1]).astype(G.dtype)
            xn, yn = G.flat_to_npc(x).to_ndarray(), G.flat_to_npc(G.matvec(x)).to_ndarray()
            if G.shape != F.shape or not (np.linalg.norm(yn - p['d'] @ xn) <= 1e-9 * max(1.0, np.linalg.norm(p['d']))):
                ctx.violation('flat:sector-set-afterwards:matvec', 'shape %r vs %r' % (G.shape, F.shape), case)
    except Exception as e:
        if opts['compact_flat'] and 'works only for blocked' in str(e):
            raise _Skip()  # documented restriction
        ctx.violation('flat:raises-%s' % type(e).__name__, traceback.format_exc()[-600:], case)
        return p, opts, 'flat'
    ctx.count('flat.runs')
    return p, opts, 'flat'


def do_wrappers(ctx, rng):
    """Sum / Shift / Orthogonal / Boost wrappers: matvec, to_matrix and adjoint all denote the documented dense operator."""
    from tenpy.linalg.sparse import SumNpcLinearOperator, ShiftNpcLinearOperator, OrthogonalNpcLinearOperator, BoostNpcLinearOperator
    from tenpy.linalg import np_conserved as npc
    p = gen_problem(ctx, rng, hermitian=bool(rng.random() < 0.5), max_dim=12)
    if p is None:
        raise _Skip()
    kind = str(rng.choice(['shift', 'sum', 'ortho', 'boost']))
    opts = {'wrapper': kind}
    case = describe(p, opts)
    base = RecOp(p['A'])
    d = p['d']
    n = p['n']
    cplx = bool(p.get('complex')) or np.iscomplexobj(d)

    def sector_vec():
        v = np.zeros(n, dtype=complex if cplx else float)
        v[p['idx']] = rng.standard_normal(len(p['idx'])) + (1j * rng.standard_normal(len(p['idx'])) if cplx else 0)
        return v

    try:
        if kind == 'shift':
            sh = float(rng.standard_normal()) + (1j * float(rng.standard_normal()) if cplx and rng.random() < 0.5 else 0)
            W = ShiftNpcLinearOperator(base, sh)
            ref = d + sh * np.eye(n)
        elif kind == 'sum':
            f = 0.5 + (0.25j if cplx else 0)
            W = SumNpcLinearOperator(base, RecOp(p['A'] * f))
            ref = d * (1 + f)
        elif kind == 'ortho':
            vs = [sector_vec() for _ in range(int(rng.integers(1, 3)))]
            if len(vs) > len(p['idx']) - 1:
                raise _Skip()
            ovs = [npc.Array.from_ndarray(v, [p['leg']], qtotal=list(p['sector']), labels=['x'], cutoff=0.) for v in vs]
            # (to_matrix of the wrapped operator has one *pipe* per side over the legs of the vector, as EffectiveH.to_matrix has)
            base.to_matrix = lambda: p['A'].combine_legs([[0], [1]], qconj=[+1, -1])
            base.adjoint = lambda: _PipeAdj(p['A'].conj().itranspose())
            W = OrthogonalNpcLinearOperator(base, ovs)
            Q = np.linalg.qr(np.array(vs).T)[0]
            P = np.eye(n) - Q @ Q.conj().T
            ref = P @ d @ P
        else:
            vs = [sector_vec() for _ in range(int(rng.integers(1, 3)))]
            vs = [v / np.linalg.norm(v) for v in vs]
            bs = [float(rng.standard_normal()) + (1j * float(rng.standard_normal()) if cplx and rng.random() < 0.5 else 0) for _ in vs]
            ovs = [npc.Array.from_ndarray(v, [p['leg']], qtotal=list(p['sector']), labels=['x'], cutoff=0.) for v in vs]
            base.to_matrix = lambda: p['A'].combine_legs([[0], [1]], qconj=[+1, -1])
            base.adjoint = lambda: _PipeAdj(p['A'].conj().itranspose())
            W = BoostNpcLinearOperator(base, bs, ovs)
            ref = d + sum(b * np.outer(v, v.conj()) for b, v in zip(bs, vs))
    except _Skip:
        raise
    except Exception as e:
        ctx.violation('wrapper.%s:init-raises-%s' % (kind, type(e).__name__), traceback.format_exc()[-600:], case)
        return p, opts, 'wrappers'
    scale = max(1.0, np.linalg.norm(ref)) * max(1.0, np.linalg.norm(p['v0']))
    x = p['psi0']
    for what in ('matvec', 'to_matrix', 'adjoint.matvec', 'adjoint.to_matrix'):
        ctx.count('wrappers.' + what)
        try:
            if what == 'matvec':
                got, exp = W.matvec(x.copy()).to_ndarray(), ref @ p['v0']
            elif what == 'to_matrix':
                # (the matrix is only specified on the charge sector the vectors live in for the projecting wrappers)
                got, exp = _unpipe(W.to_matrix()).to_ndarray(), ref
                if kind in ('ortho', 'boost'):
                    got, exp = got[np.ix_(p['idx'], p['idx'])], exp[np.ix_(p['idx'], p['idx'])]
            elif what == 'adjoint.matvec':
                got, exp = W.adjoint().matvec(x.copy()).to_ndarray(), ref.conj().T @ p['v0']
            else:
                got, exp = _unpipe(W.adjoint().to_matrix()).to_ndarray(), ref.conj().T
                if kind in ('ortho', 'boost'):
                    got, exp = got[np.ix_(p['idx'], p['idx'])], exp[np.ix_(p['idx'], p['idx'])]
        except Exception as e:
            ctx.violation('wrapper.%s:%s:raises-%s' % (kind, what, type(e).__name__), traceback.format_exc()[-600:], case)
            continue
        if got.shape != exp.shape or not (np.linalg.norm(got - exp) <= 1e-9 * scale):
            ctx.violation('wrapper.%s:%s:wrong' % (kind, what), '|got - expected| = %r' % (np.linalg.norm(got - exp) if got.shape == exp.shape else 'shape'), case)
    if not (np.linalg.norm(x.to_ndarray() - p['v0']) <= 1e-13 * max(1.0, np.linalg.norm(p['v0']))):
        ctx.violation('wrapper.%s:modifies-its-argument' % kind, '', case)
    return p, opts, 'wrappers'
