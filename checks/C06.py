"""C06 — leg fusion is a lossless, consistently ordered bijection (exhaustive over small legs + random larger ones)."""
import itertools
import warnings

import numpy as np

from vf.runner import shard

PROP = 'C06'
LEVEL = 'exploration'
RULE = ('small-leg space: 1-3 blocks, block sizes 1-2, charges in a window of 3 values, one charge with mod in {1,2,3}, both '
        'directions; part "single": ALL such legs (exhaustive) through sort/bunch/project/extend/flip/conj/get_qindex; part '
        '"pairs": pipes of 2 legs x outgoing direction x sort x bunch enumerated in a fixed order (quick: strided subset, '
        'thorough: all); part "multi": random pipes of 1-4 legs incl. nested pipes and 2-3 charges. For every pipe: '
        'map_incoming_flat over ALL index tuples must be a bijection, agree with where combine_legs puts a unique-id tensor, '
        'obey the fusion rule, split(combine)=identity, q_map invariants, conj/outer_conj/to_LegCharge relations. '
        'non-trivial = pipe with >=2 fused sectors or a leg op that changes block structure; distinct = distinct (legs, options)')
ASSUMPTIONS = ['unique-id tensors are built per total charge so that every index tuple is populated in some tensor']
ANCHORS = {'tenpy/linalg/charges.py': ['*'], 'tenpy/linalg/np_conserved.py': ['Array.combine_legs', 'Array.split_legs',
                                                                             '_combine_legs_worker', '_split_legs_worker']}
REQUIRED_COUNTERS = {'single.legs': 100, 'pairs.pipes': 500, 'multi.pipes': 100, 'monitor.index_tuples_mapped': 5000,
                     'monitor.placement_entries': 2000}


def small_legs(mod):
    """All small legs as (sizes, charges, qconj)."""
    vals = [0, 1, 2] if mod != 2 else [0, 1]
    if mod == 1:
        vals = [-1, 0, 1]
    out = []
    for nb in (1, 2, 3):
        for sizes in itertools.product((1, 2), repeat=nb):
            for ch in itertools.product(vals, repeat=nb):
                for qc in (1, -1):
                    out.append((list(sizes), [[c] for c in ch], qc))
    return out


def plan(tier, seed, jobs):
    q = tier == 'quick'
    u = []
    for cfg in ('compiled', 'pure'):
        for mod in (1, 2, 3):
            n = len(small_legs(mod))
            u += shard(cfg, n, 1, part='single', mod=mod, timeout=3000)
            npairs = n * n
            stride = (97 if q else 1) * (3 if cfg == 'pure' and q else 1)
            ncases = npairs // stride
            u += shard(cfg, ncases, (2 if q else 8) if cfg == 'compiled' else (1 if q else 4), part='pairs', mod=mod,
                       stride=stride, timeout=6000, time_budget=60 if q else 3000)
        u += shard(cfg, 400 if q else 20000, 2 if q else 6, part='multi', timeout=3000, time_budget=60 if q else 1500)
    return u


def worker_init(ctx):
    warnings.simplefilter('ignore')
    if 'mod' in ctx.unit:
        ctx.legs = small_legs(ctx.unit['mod'])


def run_case(ctx, i):
    globals()['case_' + ctx.unit['part']](ctx, i)


# ------------------------------------------------------------------------------------------------
def eff(leg, mod):
    from vf import gen
    return gen.mod_valid(leg.qconj * gen.leg_qflat(leg), mod)


def check_pipe(ctx, legs, qconj, sort, bunch, case, deep=True):
    """All pipe monitors.  legs: real LegCharge (or LegPipe) objects."""
    from tenpy.linalg.charges import LegPipe, LegCharge
    from tenpy.linalg import np_conserved as npc
    from vf import gen, tshadow
    chinfo = legs[0].chinfo
    mod = [int(m) for m in chinfo.mod]
    nq = len(mod)
    try:
        P = LegPipe(legs, qconj=qconj, sort=sort, bunch=bunch)
    except Exception as e:
        ctx.violation('LegPipe:raises-%s' % type(e).__name__, repr(e)[:300], case)
        return None
    shape = tuple(l.ind_len for l in legs)
    n_out = int(np.prod(shape))
    if P.ind_len != n_out:
        ctx.violation('LegPipe:ind_len', 'ind_len %d expected %d' % (P.ind_len, n_out), case)
        return None
    # (v) structure
    out = []
    tshadow.leg_invariants(P, 'pipe', out)
    for kind, what in out:
        ctx.violation('LegPipe:%s' % kind, what, case)
    if sort and not all(tuple(a[::-1]) <= tuple(b[::-1]) for a, b in zip(np.asarray(P.charges).tolist(), np.asarray(P.charges).tolist()[1:])):
        ctx.violation('LegPipe:sort-requested-but-not-sorted', repr(np.asarray(P.charges).tolist()), case)
    if bunch:
        ch = np.asarray(P.charges)
        if len(ch) > 1 and np.any(np.all(ch[1:] == ch[:-1], axis=1)):
            ctx.violation('LegPipe:bunch-requested-but-not-bunched', repr(ch.tolist()), case)
    if P.qconj != qconj:
        ctx.violation('LegPipe:qconj', '', case)
    # (i) bijection, (iii) fusion rule
    if n_out:
        idx = np.indices(shape).reshape(len(shape), -1).T
        m = np.array([int(P.map_incoming_flat([int(x) for x in row])) for row in idx], dtype=np.intp)
        ctx.count('monitor.index_tuples_mapped', len(m))
        if sorted(m.tolist()) != list(range(n_out)):
            ctx.violation('map_incoming_flat:not-bijective', 'image %r' % sorted(m.tolist())[:20], case)
            return P
        tot = np.zeros((n_out, nq), dtype=np.int64)
        effs = [eff(l, mod) for l in legs]
        for ax in range(len(legs)):
            tot += effs[ax][idx[:, ax]]
        pq = eff(P, mod)
        if not np.array_equal(pq[m], gen.mod_valid(tot, mod)):
            ctx.violation('LegPipe:fusion-rule', 'outgoing effective charges at mapped indices differ from the sum of incoming', case)
        # C-order inside a fused block is not demanded beyond bijectivity + placement agreement
    else:
        m = np.zeros(0, dtype=np.intp)
        idx = np.zeros((0, len(shape)), dtype=np.intp)
    # (vi) conj / outer_conj / to_LegCharge
    try:
        Pc = P.conj()
        P.test_contractible(Pc)
        if not isinstance(Pc, LegPipe) or Pc.qconj != -P.qconj or any(a.qconj != -b.qconj for a, b in zip(Pc.legs, P.legs)):
            ctx.violation('LegPipe.conj:structure', '', case)
        # conjugation goes all the way down: every leg inside nested pipes is conjugated and each nested pipe still fuses correctly
        def conj_rec(pc, p, where):
            if pc.qconj != -p.qconj or not np.array_equal(np.asarray(pc.charges), np.asarray(p.charges)):
                ctx.violation('LegPipe.conj:nested-leg-not-conjugated', '%s: qconj %d -> %d' % (where, p.qconj, pc.qconj), case)
                return
            if isinstance(p, LegPipe):
                if not isinstance(pc, LegPipe) or len(pc.legs) != len(p.legs):
                    ctx.violation('LegPipe.conj:nested-structure-lost', where, case)
                    return
                sub = []
                tshadow.pipe_invariants(pc, where, sub)
                for kind, what in sub:
                    ctx.violation('LegPipe.conj:nested:%s' % kind, what, case)
                ctx.count('monitor.nested_conj_checked')
                for k_, (a_, b_) in enumerate(zip(pc.legs, p.legs)):
                    conj_rec(a_, b_, '%s.legs[%d]' % (where, k_))

        conj_rec(Pc, P, 'pipe.conj()')
        Po = P.outer_conj()
        if Po.qconj != -P.qconj or any(a.qconj != b.qconj for a, b in zip(Po.legs, P.legs)):
            ctx.violation('LegPipe.outer_conj:structure', '', case)
        if not np.array_equal(eff(Po, mod), eff(P, mod)):
            ctx.violation('LegPipe.outer_conj:charges-changed', 'outer_conj must represent the same charges', case)
        Pl = P.to_LegCharge()
        if type(Pl) is not LegCharge or not np.array_equal(eff(Pl, mod), eff(P, mod)):
            ctx.violation('LegPipe.to_LegCharge:wrong', '', case)
        out = []
        tshadow.leg_invariants(Pc, 'pipe.conj()', out)
        tshadow.leg_invariants(Pl, 'pipe.to_LegCharge()', out)
        for kind, what in out:
            ctx.violation('LegPipe.conj:%s' % kind, what, case)
    except Exception as e:
        ctx.violation('LegPipe.conj:raises-%s' % type(e).__name__, repr(e)[:300], case)
    if not deep or not n_out:
        return P
    # (ii) placement with unique-id tensors, (iv) split(combine) = identity
    totals = sorted(set(map(tuple, gen.mod_valid(tot, mod).tolist())))
    ids = (np.arange(n_out) + 1).reshape(shape).astype(np.float64)
    for qt in totals[:4]:
        mask = gen.charge_mask([gen.leg_qflat(l) for l in legs], [l.qconj for l in legs], np.array(qt), mod)
        dense = np.where(mask, ids, 0.)
        labels = ['l%d' % k for k in range(len(legs))]
        try:
            a = npc.Array.from_ndarray(dense, legs, qtotal=list(qt), labels=labels)
            variant = ctx.rng.integers(3)
            if variant == 0:
                c = a.combine_legs(list(range(len(legs))), qconj=qconj) if (sort and bunch) else a.combine_legs(
                    [list(range(len(legs)))], pipes=[P])
            elif variant == 1:
                c = a.combine_legs([labels], pipes=[P])
            else:
                c = a.combine_legs([list(range(len(legs)))], pipes=[P.conj()])  # "pipes are conjugated if necessary"
            cd = c.to_ndarray()
            pipe_used = c.legs[0]
            m2 = m
            if variant == 0 and sort and bunch:
                # freshly built pipe: must be equal to P
                try:
                    pipe_used.test_equal(P)
                except ValueError as e:
                    ctx.violation('combine_legs:new-pipe-differs-from-LegPipe', str(e)[:200], case)
            exp = np.zeros(n_out)
            exp[m2] = dense.reshape(-1)
            ctx.count('monitor.placement_entries', int(np.count_nonzero(exp)))
            if cd.shape != exp.shape or not np.array_equal(cd, exp):
                ctx.violation('combine_legs:placement-disagrees-with-map_incoming_flat',
                              'combined %r expected %r (qtotal %r)' % (cd.tolist()[:12], exp.tolist()[:12], qt), case)
            s = c.split_legs()
            sd = s.to_ndarray()
            if sd.shape != dense.shape or not np.array_equal(sd, dense):
                ctx.violation('split_legs:not-inverse-of-combine', 'split(combine(a)) != a (qtotal %r)' % (qt, ), case)
            if s.get_leg_labels() != labels:
                ctx.violation('split_legs:labels', '%r' % s.get_leg_labels(), case)
            for kind, what in tshadow.array_invariants(c) + tshadow.array_invariants(s):
                ctx.violation('combine_split:%s' % kind, what, case)
            for l1, l2 in zip(s.legs, legs):
                l1.test_equal(l2)
        except Exception as e:
            import traceback
            ctx.violation('combine_split:raises-%s' % type(e).__name__, traceback.format_exc()[-600:], case)
    # tensors without any stored block (the zero tensor of a sector): the round trip must give a usable zero tensor again
    if len(legs) >= 2 and ctx.rng.random() < 0.3:
        qt0 = list(totals[int(ctx.rng.integers(len(totals)))]) if totals else [0] * len(mod)
        try:
            a = npc.zeros(legs, np.float64, qtotal=qt0, labels=['l%d' % k for k in range(len(legs))])
            c = a.combine_legs([list(range(len(legs)))], pipes=[P])
            s_ = c.split_legs()
            ctx.count('monitor.zero_tensor_roundtrips')
            for kind, what in tshadow.array_invariants(c) + tshadow.array_invariants(s_):
                ctx.violation('combine_split:no-stored-blocks:%s' % kind, what, case)
            diff = s_ - a  # (uses the block bookkeeping of both operands)
            t_ = s_.transpose(list(range(len(legs)))[::-1])
            if diff.shape != a.shape or npc.norm(diff) != 0 or t_.shape != tuple(a.shape[::-1]) or npc.norm(s_ + a) != 0:
                ctx.violation('combine_split:no-stored-blocks:result-not-the-zero-tensor', '', case)
        except Exception as e:
            import traceback
            ctx.violation('combine_split:no-stored-blocks:raises-%s' % type(e).__name__, traceback.format_exc()[-600:], case)
    return P


def make_leg(chinfo, spec):
    from vf import gen
    sizes, ch, qc = spec
    return gen.leg_from_spec(chinfo, sizes, ch, qc)


def case_single(ctx, i):
    from tenpy.linalg.charges import ChargeInfo
    from vf.tprog import Prog
    from vf import tops
    modv = ctx.unit['mod']
    chinfo = ChargeInfo([modv])
    spec = ctx.legs[i]
    leg = make_leg(chinfo, spec)
    case = {'part': 'single', 'mod': modv, 'leg': spec}
    # reuse the leg-op monitors of the tensor programs on this specific leg (all kinds)
    P = Prog(ctx.rng, monitors=('c01', 'c02'), counters=ctx.counters)
    P.chinfo, P.mod = chinfo, [modv]
    P.pool = [leg]
    for rep in range(14):
        # force every kind at least once (the op draws its kind from the rng)
        P.slots = []
        try:
            tops.op_legops(P)
        except tops.Skip:
            pass
        except Exception as e:
            import traceback
            if '/tenpy/' in traceback.format_exc():
                ctx.violation('leg:raises-%s' % type(e).__name__, traceback.format_exc()[-500:], case)
            else:
                raise
        P.pool = [leg]
    for key, what in P.viol:
        ctx.violation(key, what, case)
    # single-leg pipes in all option combinations
    for qc, sort, bunch in itertools.product((1, -1), (True, False), (True, False)):
        check_pipe(ctx, [leg], qc, sort, bunch, dict(case, pipe=[qc, sort, bunch]))
    ctx.count('single.legs')
    nb = len(spec[0])
    ctx.sig(('single', modv, repr(spec)), nontrivial=nb >= 2)
    if i % 200 == 0:
        ctx.sample(case)


def case_pairs(ctx, i):
    from tenpy.linalg.charges import ChargeInfo
    modv = ctx.unit['mod']
    chinfo = ChargeInfo([modv])
    n = len(ctx.legs)
    k = (i * ctx.unit['stride'] + (ctx.seed % ctx.unit['stride'])) % (n * n)
    s1, s2 = ctx.legs[k // n], ctx.legs[k % n]
    l1, l2 = make_leg(chinfo, s1), make_leg(chinfo, s2)
    opt = i % 8
    qc, sort, bunch = (1 if opt & 1 else -1), bool(opt & 2), bool(opt & 4)
    case = {'part': 'pairs', 'mod': modv, 'legs': [s1, s2], 'qconj': qc, 'sort': sort, 'bunch': bunch}
    P = check_pipe(ctx, [l1, l2], qc, sort, bunch, case)
    ctx.count('pairs.pipes')
    ctx.sig(('pairs', modv, k, opt), nontrivial=P is not None and P.block_number >= 2)
    if i % 3000 == 0:
        ctx.sample(case)


def case_multi(ctx, i):
    from tenpy.linalg.charges import LegPipe
    from vf import gen
    rng = ctx.rng
    chinfo = gen.rand_chinfo(rng, max_q=3)
    nl = int(rng.choice([1, 2, 2, 3, 3, 4]))
    legs, desc = [], []
    size = 1
    for _ in range(nl):
        if rng.random() < 0.2 and size <= 12:
            # nested pipe
            a, ka = gen.rand_leg(rng, chinfo, max_blocks=2, max_bs=2)
            b, kb = gen.rand_leg(rng, chinfo, max_blocks=2, max_bs=2)
            l = LegPipe([a, b], qconj=int(rng.choice([1, -1])), sort=bool(rng.random() < 0.7), bunch=bool(rng.random() < 0.7))
            desc.append(['pipe', ka, kb])
        else:
            l, k = gen.rand_leg(rng, chinfo, max_blocks=3, max_bs=2)
            desc.append(k)
        if not (size * max(l.ind_len, 1) <= 150):
            continue
        size *= max(l.ind_len, 1)
        legs.append(l)
    if not legs:
        return
    qc, sort, bunch = int(rng.choice([1, -1])), bool(rng.random() < 0.7), bool(rng.random() < 0.7)
    case = {'part': 'multi', 'mod': [int(m) for m in chinfo.mod], 'legs': [[np.asarray(l.slices).tolist(), np.asarray(l.charges).tolist(), int(l.qconj)] for l in legs],
            'kinds': desc, 'qconj': qc, 'sort': sort, 'bunch': bunch}
    P = check_pipe(ctx, legs, qc, sort, bunch, case)
    ctx.count('multi.pipes')
    if any(isinstance(d, list) for d in desc):
        ctx.count('multi.nested')
    ctx.sig(('multi', repr(case['legs']), qc, sort, bunch), nontrivial=P is not None and P.block_number >= 2)
    if i % 150 == 0:
        ctx.sample(case)
