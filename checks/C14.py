"""C14 — time evolution applies exp(-iHt) with correct time and error accounting (dense reference + ledgers)."""
import copy
import traceback
import warnings

import numpy as np

from vf.runner import shard

PROP = 'C14'
LEVEL = 'exploration'
RULE = ('random (optionally time-dependent) Hermitian chains of 4-8 sites (nearest-neighbour for TEBD, longer range for TDVP/ExpMPO; '
        'complex couplings, fermions, conserved charges) x engines (TEBD orders 1,2,4,4_opt; QR-based TEBD; one-/two-site TDVP with '
        'Lanczos/Arnoldi; ExpMPOEvolution I/II x order 1/2 x SVD/zip_up/variational; the TimeDependent* variants) x real/imaginary '
        'steps x splits of the total time into run() calls x preserve_norm x start_time/start_trunc_err; every run is judged by a '
        'dense exp(-iHt) reference at two step sizes (error ratio = order), exact ledgers of evolved_time and of the truncation '
        'error (engine attribute vs sum of evolve() return values vs sum over all truncate() calls), charge/norm/energy '
        'conservation, and equality of split runs; the Suzuki-Trotter schedules are checked exhaustively for N_steps <= 40. '
        'non-trivial = non-commuting model; distinct = (engine, options, model signature)'
        ' Also: imaginary-time TEBD sweeps (update_imag: truncation ledger, split independence, direction of exp(-tau H)), TEBD trunc_err_bonds.')
ASSUMPTIONS = ['C10 (dense H from the recorded terms), C07 (dense state of an MPS)', 'scipy/numpy eigh as ground truth for exp(-iHt)']
ANCHORS = {'tenpy/algorithms/tebd.py': ['*'], 'tenpy/algorithms/tdvp.py': ['*'], 'tenpy/algorithms/mpo_evolution.py': ['*'],
           'tenpy/algorithms/algorithm.py': ['*']}
REQUIRED_COUNTERS = {'imag.calls': 30, 'imag.truncating_calls': 10, 'engine.TEBDEngine': 10, 'engine.QRBasedTEBDEngine': 3, 'engine.TwoSiteTDVPEngine': 5, 'engine.SingleSiteTDVPEngine': 5,
                     'engine.ExpMPOEvolution': 8, 'timedep.runs': 6, 'ledger.time_checked': 40, 'ledger.trunc_checked': 40,
                     'ledger.trunc_nonzero': 8, 'order.ratio_checked': 15, 'schedule.checked': 100, 'split.checked': 8}


def plan(tier, seed, jobs):
    q = tier == 'quick'
    return (shard('compiled', 1, 1, part='schedule', timeout=600) +
            shard('compiled', 140 if q else 1400, 7, part='tebd', timeout=3000, time_budget=150 if q else 1500) +
            shard('compiled', 80 if q else 1000, 4, part='tdvp', timeout=3000, time_budget=150 if q else 1500) +
            shard('compiled', 80 if q else 1000, 4, part='expmpo', timeout=3000, time_budget=150 if q else 1500) +
            shard('compiled', 60 if q else 800, 3, part='tebd_imag', timeout=3000, time_budget=150 if q else 1500))


def worker_init(ctx):
    warnings.simplefilter('ignore')
    import logging
    logging.disable(logging.CRITICAL)


class _Skip(Exception):
    pass


def run_case(ctx, i):
    try:
        globals()['case_' + ctx.unit['part']](ctx, i)
    except _Skip:
        ctx.count('skipped')


# ------------------------------------------------------------------------------------------------
# Suzuki-Trotter schedule: composes to exactly N_steps on the even and on the odd bonds
# ------------------------------------------------------------------------------------------------
def case_schedule(ctx, i):
    from tenpy.algorithms.tebd import TEBDEngine
    for order in [1, 2, 4, '4_opt']:
        ts = TEBDEngine.suzuki_trotter_time_steps(order)
        for N in range(0, 41):
            dec = TEBDEngine.suzuki_trotter_decomposition(order, N)
            ctx.count('schedule.checked')
            tot = [0., 0.]
            bad_index = [j for j, k in dec if not (0 <= j < len(ts)) or k not in (0, 1)]
            if bad_index:
                ctx.violation('suzuki_trotter_decomposition:index-out-of-range', 'order %r N %d' % (order, N), {'order': order, 'N': N})
                continue
            for j, k in dec:
                tot[k] += ts[j]
            if not (abs(tot[0] - N) <= 1e-12 * max(1, N)) or not (abs(tot[1] - N) <= 1e-12 * max(1, N)):
                ctx.violation('suzuki_trotter_decomposition:time-does-not-add-up', 'order %r N_steps %d: even bonds evolve for %r, odd bonds '
                              'for %r steps' % (order, N, tot[0], tot[1]), {'order': order, 'N': N})
            # consecutive entries act on alternating bond parities (otherwise two factors could have been merged / are misordered)
            if any(dec[a][1] == dec[a + 1][1] for a in range(len(dec) - 1)):
                ctx.violation('suzuki_trotter_decomposition:same-parity-twice-in-a-row', 'order %r N %d' % (order, N), {'order': order, 'N': N})
            # equals the N-fold repetition of the single-step schedule after merging neighbours of equal parity
            if N >= 1:
                one = TEBDEngine.suzuki_trotter_decomposition(order, 1)
                merged = []
                for j, k in one * N:
                    if merged and merged[-1][1] == k:
                        merged[-1][0] += ts[j]
                    else:
                        merged.append([ts[j], k])
                got = [[ts[j], k] for j, k in dec]
                if len(got) != len(merged) or any(abs(a[0] - b[0]) > 1e-12 or a[1] != b[1] for a, b in zip(got, merged)):
                    ctx.violation('suzuki_trotter_decomposition:differs-from-repeated-single-step', 'order %r N %d' % (order, N),
                                  {'order': order, 'N': N})
        ctx.sig(('schedule', str(order)), nontrivial=True)


# ------------------------------------------------------------------------------------------------
# models
# ------------------------------------------------------------------------------------------------
_MODEL_CLASSES = {}


def model_classes():
    if _MODEL_CLASSES:
        return _MODEL_CLASSES
    from tenpy.models.model import CouplingMPOModel, NearestNeighborModel
    from tenpy.models.lattice import Chain

    class VerifTDModel(CouplingMPOModel):
        """H(t) = sum_terms (a + b t) * term, read from model_params['spec']; 'time' is the documented option."""
        default_lattice = Chain
        force_default_lattice = True

        def init_sites(self, model_params):
            return model_params['site_obj']

        def init_lattice(self, model_params):
            L = model_params.get('L', 4, int)
            return Chain(L, self.init_sites(model_params), bc='open', bc_MPS='finite')

        def init_terms(self, model_params):
            t = model_params.get('time', 0., 'real')
            for term in model_params['spec']:
                if term['kind'] == 'coupling':
                    self.add_coupling(term['a'] + term['b'] * t, 0, term['n1'], 0, term['n2'], term['dx'], plus_hc=True)
                else:
                    self.add_onsite(np.asarray(term['a']) + np.asarray(term['b']) * t, 0, term['n'])

    class VerifTDModelNN(VerifTDModel, NearestNeighborModel):
        pass

    _MODEL_CLASSES.update(mpo=VerifTDModel, nn=VerifTDModelNN)
    return _MODEL_CLASSES


def make_spec(rng, nn_only, timedep):
    from vf import dense
    import checks.C10 as C10
    kind = str(rng.choice(['spinhalf_Sz', 'spinhalf', 'fermion_N', 'boson_N', 'spin1_Sz', 'fermion_parity', 'spinhalf_parity']))
    sites, kind = dense.make_sites(rng, 1, kind)
    s = sites[0]
    maxL = {2: 7, 3: 5}.get(s.dim, 4)
    L = int(rng.integers(4, maxL + 1))
    spec = []
    for c in range(int(rng.integers(1, 4))):
        dx = 1 if (c == 0 or nn_only) else int(rng.choice([1, 2, 3]))
        ferm = rng.random() < 0.5
        n1 = C10.op_names(s, rng, 'fermionic' if ferm else 'bosonic') or C10.op_names(s, rng, 'bosonic')
        if c == 0:
            for _ in range(20):
                o = s.get_op(n1).to_ndarray()
                if not (np.linalg.norm(o - np.diag(np.diag(o))) <= 1e-12):
                    break
                n1 = C10.op_names(s, rng, 'fermionic' if rng.random() < 0.5 else 'bosonic') or n1
            n2 = s.get_hc_op_name(n1)
        else:
            n2 = s.get_hc_op_name(n1) if rng.random() < 0.5 else C10.op_names(s, rng, 'fermionic' if s.op_needs_JW(n1) else 'bosonic')
        if n2 is None or s.op_needs_JW(n1) != s.op_needs_JW(n2) or not C10.neutral([(s, n1), (s, n2)]):
            continue
        if any(t['kind'] == 'coupling' and t['dx'] == dx and {t['n1'], t['n2']} == {n1, n2} for t in spec):
            continue  # (two copies of one coupling with time-dependent strengths can cancel exactly: H(t) = 0 cannot be built)
        a = complex(np.round(rng.uniform(0.3, 1.2) * rng.choice([-1, 1]), 2), np.round(rng.standard_normal(), 2) if rng.random() < 0.3 else 0)
        b = float(np.round(rng.uniform(-1, 1), 2)) if timedep else 0.
        spec.append({'kind': 'coupling', 'n1': n1, 'n2': n2, 'dx': dx, 'a': a, 'b': b})
    for _ in range(int(rng.integers(1, 3))):
        n = C10.op_names(s, rng, 'bosonic')
        if n is None or s.hc_ops.get(n) != n or not C10.neutral([(s, n)]):
            continue
        a = np.round(rng.uniform(-1, 1, L), 2)
        b = np.round(rng.uniform(-1, 1, L), 2) if timedep else np.zeros(L)
        spec.append({'kind': 'onsite', 'n': n, 'a': a, 'b': b})
    if not any(t['kind'] == 'coupling' for t in spec):
        raise _Skip()
    return s, kind, L, spec


def dense_H(sites, spec, t):
    from vf import dense
    L = len(sites)
    D = int(np.prod([s.dim for s in sites]))
    H = np.zeros((D, D), dtype=complex)
    for term in spec:
        if term['kind'] == 'coupling':
            st = term['a'] + term['b'] * t
            for x in range(L - term['dx']):
                T = st * dense.term_matrix(sites, [(term['n1'], x), (term['n2'], x + term['dx'])])
                H += T + T.conj().T
        else:
            st = np.asarray(term['a']) + np.asarray(term['b']) * t
            for x in range(L):
                H += st[x] * dense.term_matrix(sites, [(term['n'], x)])
    return H


def make_model(kind, site, L, spec, time=None):
    params = {'site_obj': site, 'L': L, 'spec': spec}
    if time is not None:
        params['time'] = time
    return model_classes()[kind](params)


def initial_state(rng, sites, entangled):
    """(MPS, dense vector, sector index set)"""
    from tenpy.networks.mps import MPS
    from vf import dense, gen
    if entangled:
        v, qt = dense.rand_sector_vector(rng, sites, cplx=True)
        v = v / np.linalg.norm(v)
        psi = MPS.from_full(sites, dense.npc_state(sites, v, qt), normalize=True)
        vec = v.reshape(-1)
    else:
        p_state = [int(rng.integers(s.dim)) for s in sites]
        psi = MPS.from_product_state(sites, p_state, permute=False)
        vec = np.zeros([s.dim for s in sites], dtype=complex)
        vec[tuple(p_state)] = 1.
        vec = vec.reshape(-1)
    return psi, vec


def sector_of(sites, vec):
    """Boolean mask of basis states with the charge of the (first non-zero entry of the) state."""
    from vf import gen
    chinfo = sites[0].leg.chinfo
    mod = [int(x) for x in chinfo.mod]
    dims = [s.dim for s in sites]
    if not mod:
        return np.ones(len(vec), dtype=bool)
    k = int(np.argmax(np.abs(vec) > 1e-12))
    idx = np.unravel_index(k, dims)
    qfl = [gen.leg_qflat(s.leg) for s in sites]
    qt = gen.mod_valid(sum(s.leg.qconj * q[j] for s, q, j in zip(sites, qfl, idx)), mod)
    return gen.charge_mask(qfl, [s.leg.qconj for s in sites], qt, mod).reshape(-1)


def exact_evolution(sites, spec, v0, t0, dt, n, timedep):
    """Reference: exp(-i H dt)^n for constant H; for the time-dependent engines the documented first-order product
    prod_k exp(-i dt H(t0 + k dt))."""
    v = np.array(v0, dtype=complex)
    if not timedep:
        lam, U = np.linalg.eigh(dense_H(sites, spec, 0.))
        return U @ (np.exp(-1j * lam * dt * n) * (U.conj().T @ v))
    for k in range(n):
        lam, U = np.linalg.eigh(dense_H(sites, spec, t0 + k * dt))
        v = U @ (np.exp(-1j * lam * dt) * (U.conj().T @ v))
    return v


class Ledger:
    """Independent sums for one engine: evolve() return values, truncate() calls."""
    def __init__(self):
        self.truncate_eps = []
        self.evolve_eps = []
        self.active = False


def install_truncate_probe(ctx):
    """Wrap tenpy's truncate() once per worker: every truncation performed is appended to the active ledger."""
    if getattr(ctx, '_c14_probe', None) is not None:
        return ctx._c14_probe
    from tenpy.linalg import truncation
    from vf.monitor import patch_everywhere
    state = {'ledger': None}
    orig = truncation.truncate

    def truncate(S, options):
        res = orig(S, options)
        if state['ledger'] is not None:
            state['ledger'].truncate_eps.append(float(res[2].eps))
        return res

    truncate.__wrapped__ = orig
    n = patch_everywhere(orig, truncate)
    ctx.count('probe.truncate_rebinds', n)
    ctx._c14_probe = state
    return state


def dense_of(psi):
    from vf import dense
    return dense.finite_vector(psi).reshape(-1)


def run_engine(ctx, engine_cls, model_kind, site, L, spec, psi0, opts, runs, timedep, probe, start_time):
    """Run `runs` calls of eng.run(); returns (engine, ledger, list of per-run records)."""
    M = make_model(model_kind, site, L, spec, time=start_time if timedep else None)
    psi = psi0.copy()
    led = Ledger()
    eng = engine_cls(psi, M, copy.deepcopy(opts))
    orig_evolve = eng.evolve

    def evolve(N_steps, dt):
        res = orig_evolve(N_steps, dt)
        led.evolve_eps.append(float(res.eps))
        return res

    eng.evolve = evolve
    probe['ledger'] = led
    try:
        for _ in range(runs):
            eng.run()
    finally:
        probe['ledger'] = None
    return eng, led


def exc_key(tag, e, opts, sites, spec, v0, t0):
    """Mechanism key of an exception raised by an engine."""
    kp = opts.get('Krylov_params')
    if kp is not None and 'mpo' not in kp and 'NaN' in str(e) + repr(e):
        if np.linalg.norm(dense_H(sites, spec, t0) @ v0) < 1e-10:
            # H|psi> = 0: the Krylov vector H|psi> of the basis extension is the zero state, its normalisation gives NaN
            return 'TDVP:krylov-basis-extension:raises-ValueError-NaN:state-annihilated-by-H'
    return '%s:raises-%s' % (tag, type(e).__name__)


def engine_case(ctx, i, engine_name, opts, model_kind, nn_only, expected_order, unitary, tangent, allow_timedep=True):
    """Common driver: builds model + state, runs the engine at dt and dt/2, applies all monitors."""
    import tenpy.algorithms as alg
    from tenpy.linalg.truncation import TruncationError
    from vf import dense
    rng = ctx.rng
    probe = install_truncate_probe(ctx)
    timedep = engine_name.startswith('TimeDependent')
    site, kind, L, spec = make_spec(rng, nn_only, timedep)
    sites = [site] * L
    entangled = (bool(rng.random() < 0.5) or engine_name in ('QRBasedTEBDEngine', 'SingleSiteTDVPEngine', 'TimeDependentSingleSiteTDVP')
                 # variational compression sweeps over the bonds of its initial guess (psi itself): charge sectors a long-range term
                 # needs on several bonds at once are out of reach of its local updates from a product state (limit of the method)
                 or opts.get('compression_method') == 'variational')
    psi0, v0 = initial_state(rng, sites, entangled)
    mask = sector_of(sites, v0)
    imaginary = bool(rng.random() < 0.15) and not timedep and engine_name not in ('QRBasedTEBDEngine', ) and opts.pop('_allow_imag', True)
    opts.pop('_allow_imag', None)
    dt_abs = float(rng.choice([0.04, 0.08]))
    dt = -1j * dt_abs if imaginary else dt_abs
    N_steps = int(rng.integers(1, 4))
    runs = int(rng.integers(1, 4))
    start_time = float(np.round(rng.uniform(-1, 1), 2)) if rng.random() < 0.4 else 0.
    truncating = bool(rng.random() < 0.35)
    chi_max = int(rng.integers(2, 5)) if truncating else 400
    start_eps = float(rng.choice([0., 1e-3])) if rng.random() < 0.3 else 0.
    opts = dict(opts)
    opts.update({'dt': dt, 'N_steps': N_steps, 'trunc_params': {'chi_max': chi_max, 'svd_min': 1e-14, 'trunc_cut': None},
                 'max_trunc_err': None, 'start_time': start_time})
    if start_eps:
        opts['start_trunc_err'] = TruncationError(start_eps, 1 - 2 * start_eps)
    if rng.random() < 0.4:
        opts['preserve_norm'] = bool(rng.random() < 0.5)
    preserve_norm = opts.get('preserve_norm', not imaginary)
    case = {'engine': engine_name, 'sites': kind, 'L': L, 'spec': spec, 'entangled': entangled, 'runs': runs,
            'options': {k: (v if not isinstance(v, TruncationError) else repr(v)) for k, v in opts.items()}}
    engine_cls = getattr(alg, engine_name)
    ctx.count('engine.' + engine_name)
    if timedep:
        ctx.count('timedep.runs')
    tag = engine_name
    try:
        eng, led = run_engine(ctx, engine_cls, model_kind, site, L, spec, psi0, opts, runs, timedep, probe, start_time)
    except Exception as e:
        tb = traceback.format_exc()
        if '/tenpy/' not in tb:
            raise
        ctx.violation(exc_key(tag, e, opts, sites, spec, v0, start_time), tb[-700:], case)
        return
    n_tot = runs * N_steps
    # ---- ledger: evolved time
    ctx.count('ledger.time_checked')
    want_t = start_time + n_tot * dt
    if not (abs(eng.evolved_time - want_t) <= 1e-12 * max(1, abs(want_t))):
        ctx.violation(tag + ':evolved_time-differs-from-steps-times-dt', 'evolved_time = %r after %d runs of %d steps of %r from '
                      'start_time %r (expected %r)' % (eng.evolved_time, runs, N_steps, dt, start_time, want_t), case)
    if timedep:
        mt = eng.model.options.get('time', None)
        if mt is None or not (abs(mt - want_t) <= 1e-12 * max(1, abs(want_t))):
            ctx.violation(tag + ':model-time-differs-from-evolved_time', 'model.options[time] = %r, evolved_time %r' % (mt, eng.evolved_time), case)
    # ---- ledger: truncation error.  engine attribute == start + sum of evolve() returns (== sum of truncations performed)
    ctx.count('ledger.trunc_checked')
    sum_evolve = float(np.sum(led.evolve_eps))
    sum_trunc = float(np.sum(led.truncate_eps))
    if sum_trunc > 1e-14:
        ctx.count('ledger.trunc_nonzero')
    got = float(eng.trunc_err.eps)
    tol = 1e-10 * max(1e-6, sum_evolve + start_eps)
    if not (abs(got - (start_eps + sum_evolve)) <= tol):
        ctx.violation(tag + ':trunc_err-differs-from-sum-of-step-errors', 'engine.trunc_err.eps = %r but start (%r) + sum of the errors '
                      'returned by the %d evolve() calls = %r (sum over the %d truncate() calls: %r)' %
                      (got, start_eps, len(led.evolve_eps), start_eps + sum_evolve, len(led.truncate_eps), sum_trunc), case)
    if hasattr(eng, 'trunc_err_bonds'):
        # TEBD keeps the accumulated error bond by bond as well: the bonds add up to what the evolve() calls returned
        teb = eng.trunc_err_bonds
        ctx.count('ledger.trunc_err_bonds_checked')
        sum_bonds = float(sum(t_.eps for t_ in teb))
        if len(teb) != eng.psi.L - 1 or not (abs(sum_bonds - sum_evolve) <= 1e-10 * max(1e-6, sum_evolve)):
            ctx.violation(tag + ':trunc_err_bonds-do-not-add-up-to-the-step-errors', '%d bonds, sum %r; the evolve() calls returned %r' %
                          (len(teb), sum_bonds, sum_evolve), case)
    deep = engine_name in ('TEBDEngine', 'TimeDependentTEBD', 'TwoSiteTDVPEngine', 'TimeDependentTwoSiteTDVP', 'QRBasedTEBDEngine')
    if deep and engine_name != 'QRBasedTEBDEngine' and 'Krylov_params' not in opts:
        # (the basis extension of TDVP truncates the vectors it adds, not the state: those truncate() calls are not errors of psi)
        ctx.count('ledger.deep_checked')
        if not (abs(sum_evolve - sum_trunc) <= 1e-10 * max(1e-6, sum_trunc)):
            ctx.violation(tag + ':evolve-return-differs-from-sum-of-truncations', 'sum of evolve() returns %r, sum over the %d truncations '
                          'performed %r' % (sum_evolve, len(led.truncate_eps), sum_trunc), case)
    # ---- the state
    try:
        v = dense_of(eng.psi)
    except NotImplementedError:
        ctx.violation(tag + ':non-diagonal-S-left-in-result', '', case)
        return
    if not (np.linalg.norm(v[~mask]) <= 1e-10 * max(1., np.linalg.norm(v))):
        ctx.violation(tag + ':leaves-charge-sector', 'weight outside the sector of the initial state: %r' % np.linalg.norm(v[~mask]), case)
    ref = exact_evolution(sites, spec, v0, start_time, dt, n_tot, timedep)
    if imaginary:
        # non-unitary steps: only the direction of the state is judged (brick-wall TEBD leaves the canonical form under non-unitary
        # gates, so the norm it tracks is not the norm of the represented state; TDVP/ExpMPO normalise by their own options)
        ref = ref / np.linalg.norm(ref)
        v = v / np.linalg.norm(v)
    H0 = dense_H(sites, spec, 0.)
    scale = max(1., float(np.linalg.norm(H0, 2)))
    if timedep:
        scale = max(scale, float(np.linalg.norm(dense_H(sites, spec, start_time), 2)),
                    float(np.linalg.norm(dense_H(sites, spec, start_time + n_tot * dt_abs), 2)))
    noncommuting = True
    err1 = float(np.linalg.norm(v - ref) / np.linalg.norm(ref))
    case['err_dt'] = err1
    # "without truncation": no chi limit was requested AND the engine reports that it did not truncate (the QR-based TEBD limits the
    # growth of the bond dimension heuristically and reports the resulting error)
    exact_regime = (not truncating) and sum_evolve < 1e-18
    if tangent and not (entangled or (tangent is True and all(t.get('dx', 1) == 1 for t in spec))):
        # TDVP from a product state cannot leave the manifold of its bond dimensions in directions a long-range H generates:
        # a projection error that does not depend on dt (not a defect) -- only the ledgers are judged
        exact_regime = False
        ctx.count('regime.tdvp_projection_error_possible')
    if not truncating and not exact_regime:
        ctx.count('regime.engine_reported_truncation')
    if exact_regime:
        ctx.count('regime.exact')
        # absolute sanity: O(1) errors are never acceptable for these step sizes
        if scale * dt_abs < 0.3 and not (err1 <= 0.3 * min(1., (scale * dt_abs) * n_tot * 3)):
            ctx.violation(tag + ':state-far-from-exp(-iHt)psi0', 'relative distance %r after %d steps of %r (|H| = %.2f)' %
                          (err1, n_tot, dt, scale), case)
        # ---- order: same total time with the step halved (repeatedly, until the asymptotic regime shows or the floor is reached)
        if expected_order is not None and scale * dt_abs > 0.5:
            ctx.count('order.step_too_large_for_asymptotics')  # |H| dt of order one: nothing to conclude from ratios
        elif expected_order is not None:
            need = {1: 1.5, 2: 2.8, 4: 8.}[expected_order]
            errs = [err1]
            ok = None
            for k in range(1, 4):
                opts2 = dict(opts)
                opts2['dt'] = dt / 2**k
                opts2['N_steps'] = 2**k * N_steps
                try:
                    eng2, led2 = run_engine(ctx, engine_cls, model_kind, site, L, spec, psi0, opts2, runs, timedep, probe, start_time)
                    v2 = dense_of(eng2.psi)
                except Exception as e:
                    tb = traceback.format_exc()
                    if '/tenpy/' not in tb:
                        raise
                    ctx.violation(exc_key(tag, e, opts, sites, spec, v0, start_time), tb[-700:], case)
                    return
                ref2 = exact_evolution(sites, spec, v0, start_time, dt / 2**k, 2**k * n_tot, timedep)
                if imaginary:
                    ref2 = ref2 / np.linalg.norm(ref2)
                    v2 = v2 / np.linalg.norm(v2)
                errs.append(float(np.linalg.norm(v2 - ref2) / np.linalg.norm(ref2)))
                if errs[-2] < 1e-7 or errs[-1] < 1e-11:
                    break  # below the floor of round-off / Lanczos tolerance: nothing to conclude from this pair
                if errs[-2] / errs[-1] >= need:
                    ok = True
                    break
                ok = False  # pre-asymptotic (competing terms) or really a lower order: halve again
            case['errs_halving'] = errs
            if ok is None:
                ctx.count('order.below_floor')
            else:
                ctx.count('order.ratio_checked')
                if not ok:
                    ctx.violation(tag + ':error-does-not-shrink-at-documented-order', 'errors %s for dt = %r halved successively: no ratio '
                                  '>= %.1f (documented order %d)' % (['%.3e' % e for e in errs], dt, need, expected_order), case)
        # ---- conservation in real time
        if not imaginary:
            nrm = float(np.linalg.norm(v))
            if unitary and not preserve_norm:
                ctx.count('conservation.norm_checked')
                if not (abs(nrm - 1) <= 1e-8):
                    ctx.violation(tag + ':norm-not-conserved-by-unitary-evolution', '|psi| = %r (preserve_norm=False)' % nrm, case)
            if not timedep:
                e0 = float(np.real(np.vdot(v0, H0 @ v0)))
                e1 = float(np.real(np.vdot(v, H0 @ v)) / nrm**2)
                ctx.count('conservation.energy_checked')
                etol = 1e-7 * scale if tangent else max(1e-7, 20 * err1) * scale
                if not (abs(e1 - e0) <= etol):
                    ctx.violation(tag + ':energy-not-conserved', '<H> changed from %r to %r (state error %.2e)' % (e0, e1, err1), case)
    elif truncating:
        # truncating runs: tangent-space engines still conserve norm and energy (one-site TDVP exactly)
        if tangent == 'exact' and not imaginary and not timedep:
            nrm = float(np.linalg.norm(v))
            e0 = float(np.real(np.vdot(v0, H0 @ v0)))
            e1 = float(np.real(np.vdot(v, H0 @ v)) / nrm**2)
            ctx.count('conservation.energy_checked_truncated')
            if not (abs(e1 - e0) <= 1e-7 * scale):
                ctx.violation(tag + ':energy-not-conserved', '<H> changed from %r to %r in one-site TDVP' % (e0, e1), case)
    # ---- splitting the same total time differently over run() calls gives the same state (untruncated)
    # (not with the basis extension of TDVP: it runs once per run() call with random / rank-deficient directions, and the following
    #  steps agree only to the conditioning of the extended basis)
    if exact_regime and runs > 1 and rng.random() < 0.7 and 'Krylov_params' not in opts:
        opts3 = dict(opts)
        opts3['N_steps'] = n_tot
        try:
            eng3, led3 = run_engine(ctx, engine_cls, model_kind, site, L, spec, psi0, opts3, 1, timedep, probe, start_time)
            v3 = dense_of(eng3.psi)
            if imaginary:
                v3 = v3 / np.linalg.norm(v3)
        except Exception as e:
            tb = traceback.format_exc()
            if '/tenpy/' not in tb:
                raise
            ctx.violation(exc_key(tag, e, opts, sites, spec, v0, start_time), tb[-700:], case)
            return
        ctx.count('split.checked')
        d = float(np.linalg.norm(v3 - v) / np.linalg.norm(v))
        # (the basis extension of TDVP runs once per run() call: it changes the tangent space and with it the O(dt^2) error terms)
        dtol = 1e-8 if 'Krylov_params' not in opts else max(1e-8, 3 * err1)
        if not (d <= dtol) or not (abs(eng3.evolved_time - eng.evolved_time) <= 1e-12):
            ctx.violation(tag + ':result-depends-on-split-into-run-calls', '%d runs of %d steps vs one run of %d steps: states differ by %r, '
                          'evolved_time %r vs %r' % (runs, N_steps, n_tot, d, eng.evolved_time, eng3.evolved_time), case)
    ctx.sig((engine_name, kind, L, imaginary, truncating, entangled, tuple(sorted((k, str(v)) for k, v in opts.items()
                                                                                  if k in ('order', 'approximation', 'compression_method')))),
            nontrivial=noncommuting)
    if i % 25 == 0:
        ctx.sample(case)


def case_tebd(ctx, i):
    rng = ctx.rng
    r = rng.random()
    if r < 0.6:
        name = 'TEBDEngine'
    elif r < 0.8:
        name = 'QRBasedTEBDEngine'
    else:
        name = 'TimeDependentTEBD'
    order = [1, 2, 4, '4_opt'][int(rng.integers(4))]
    opts = {'order': order}
    if name == 'QRBasedTEBDEngine':
        opts.update({'cbe_expand': float(rng.choice([0.1, 0.5, 3.0])), 'cbe_min_block_increase': int(rng.choice([1, 2, 10]))})
    expected = {1: 1, 2: 2, 4: 4, '4_opt': 4}[order] if name != 'TimeDependentTEBD' else 1
    engine_case(ctx, i, name, opts, 'nn', True, expected, unitary=True, tangent=False)


def case_tebd_imag(ctx, i):
    """Imaginary-time sweeps (update_imag, the path of run_GS on finite chains): accumulated truncation error == sum of the truncations
    performed, independent of how the steps are split over calls; the direction of the state follows exp(-tau H) at second order."""
    from tenpy.algorithms import tebd
    rng = ctx.rng
    probe = install_truncate_probe(ctx)
    site, kind, L, spec = make_spec(rng, True, False)
    sites = [site] * L
    name = 'TEBDEngine' if rng.random() < 0.7 else 'QRBasedTEBDEngine'
    truncating = bool(rng.random() < 0.6)
    psi0, v0 = initial_state(rng, sites, entangled=bool(rng.random() < 0.7))
    Hd = dense_H(sites, spec, 0.)
    nrm = max(np.linalg.norm(Hd, 2), 1e-6)
    dtau = float(rng.choice([0.02, 0.05, 0.1])) / nrm
    splits = [[int(x) for x in rng.integers(1, 4, size=int(rng.integers(1, 4)))]]
    total = sum(splits[0])
    splits.append([total] if splits[0] != [total] else [1] * total)
    opts = {'order': 2, 'trunc_params': {'chi_max': int(rng.integers(2, 4)) if truncating else 10000, 'svd_min': 1e-14}, 'max_trunc_err': None}
    if name == 'QRBasedTEBDEngine':
        opts.update({'cbe_expand': float(rng.choice([0.5, 3.0]))})
    case = {'engine': name, 'sites': kind, 'L': L, 'spec': spec, 'options': copy.deepcopy(opts), 'dtau*|H|': dtau * nrm, 'splits': splits}
    ctx.count('imag.cases')
    finals = []
    for split in splits:
        M = make_model('nn', site, L, spec)
        psi = psi0.copy()
        led = Ledger()
        try:
            eng = getattr(tebd, name)(psi, M, copy.deepcopy(opts))
            eng.calc_U(2, dtau, type_evo='imag')
            start = float(eng.trunc_err.eps)
            returned = []
            probe['ledger'] = led
            try:
                for n_steps in split:
                    before = len(led.truncate_eps)
                    err = eng.update_imag(n_steps)
                    performed = sum(led.truncate_eps[before:])
                    returned.append(float(err.eps))
                    ctx.count('imag.calls')
                    if performed > 1e-14:
                        ctx.count('imag.truncating_calls')
                    # (the QR-based decomposition computes its error from the discarded part of theta, not through truncate())
                    if name == 'TEBDEngine' and not (abs(err.eps - performed) <= 1e-10 * max(1e-6, performed)):
                        ctx.violation('%s:update_imag:returned-error-is-not-the-sum-of-the-truncations-performed' % name,
                                      'N_steps=%d: returned %r, performed %r' % (n_steps, err.eps, performed), case)
                        return
            finally:
                probe['ledger'] = None
        except Exception as e:
            tb = traceback.format_exc()
            if '/tenpy/' not in tb:
                raise
            if isinstance(e, NotImplementedError):
                raise _Skip()
            ctx.violation('%s:update_imag:raises-%s' % (name, type(e).__name__), tb[-700:], case)
            return
        acc = float(eng.trunc_err.eps) - start
        if not (abs(acc - sum(returned)) <= 1e-10 * max(1e-6, sum(returned))):
            ctx.violation('%s:update_imag:accumulated-trunc_err-differs-from-sum-of-step-errors' % name,
                          'calls with N_steps %r: engine.trunc_err grew by %r, the calls returned %r (sum %r)' % (split, acc, returned, sum(returned)), case)
            return
        finals.append((acc, dense_of(psi)))
    (a1, w1), (a2, w2) = finals
    if not (abs(a1 - a2) <= 1e-8 * max(1e-6, a1, a2)):
        ctx.violation('%s:update_imag:accumulated-trunc_err-depends-on-split' % name, 'splits %r: %r vs %r' % (splits, a1, a2), case)
        return
    ov = abs(np.vdot(w1, w2)) / max(np.linalg.norm(w1) * np.linalg.norm(w2), 1e-300)
    if not (abs(ov - 1) <= 1e-8):
        ctx.violation('%s:update_imag:state-depends-on-split' % name, 'splits %r: overlap %r' % (splits, ov), case)
        return
    if not truncating and name == 'TEBDEngine':
        # direction of exp(-tau H) v0 (second order: the deviation per unit of imaginary time is O(dtau^2))
        lam, U = np.linalg.eigh(Hd)
        ref = U @ (np.exp(-(lam - lam.min()) * dtau * total) * (U.conj().T @ v0))
        d = 1 - abs(np.vdot(ref, w1)) / max(np.linalg.norm(ref) * np.linalg.norm(w1), 1e-300)
        ctx.count('imag.direction_checked')
        if not (d <= 5 * (dtau * nrm)**2 * max(1.0, dtau * nrm * total) + 1e-10):
            ctx.violation('TEBDEngine:update_imag:state-far-from-exp(-tau H)psi0', '1 - |overlap| = %g at dtau*|H| = %g, %d steps' % (d, dtau * nrm, total), case)
    ctx.sig(('imag', name, kind, L, truncating, tuple(splits[0])), nontrivial=True)
    if i % 20 == 0:
        ctx.sample(case)


def case_tdvp(ctx, i):
    rng = ctx.rng
    r = rng.random()
    name = ['TwoSiteTDVPEngine', 'SingleSiteTDVPEngine', 'TimeDependentTwoSiteTDVP', 'TimeDependentSingleSiteTDVP'][
        int(rng.choice(4, p=[0.4, 0.35, 0.15, 0.1]))]
    opts = {'lanczos_params': {'N_max': 30, 'P_tol': 1e-13, 'min_gap': 1e-30}}
    if rng.random() < 0.25:
        opts['lanczos_params']['hermitian'] = False
    single = 'SingleSite' in name
    if rng.random() < 0.25:
        # basis extension before each evolve (Yang & White): must not change the state
        opts['Krylov_params'] = {'expansion_dim': int(rng.integers(1, 3)),
                                 'apply_mpo_options': {'compression_method': 'SVD', 'trunc_params': {'chi_max': 50, 'svd_min': 1e-12}},
                                 'trunc_params': {'chi_max': int(rng.integers(1, 4)), 'svd_min': 1e-10}}
        if rng.random() < 0.4:
            opts['Krylov_params']['mpo'] = None
        ctx.count('tdvp.krylov_expansion')
    engine_case(ctx, i, name, opts, 'mpo', False, 2 if 'TimeDependent' not in name else 1, unitary=True,
                tangent='exact' if single else True)


def case_expmpo(ctx, i):
    rng = ctx.rng
    name = 'ExpMPOEvolution' if rng.random() < 0.8 else 'TimeDependentExpMPOEvolution'
    order = int(rng.choice([1, 2]))
    opts = {'order': order, 'approximation': str(rng.choice(['I', 'II'])),
            'compression_method': str(rng.choice(['SVD', 'zip_up', 'variational']))}
    if opts['compression_method'] == 'variational':
        opts.update({'max_sweeps': 6, 'min_sweeps': 2})
    engine_case(ctx, i, name, opts, 'mpo', False, order if name == 'ExpMPOEvolution' else 1, unitary=False, tangent=False)
