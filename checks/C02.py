"""C02 — charge rule and storage invariants are closed under every operation (strict invariant monitor)."""
import os
import warnings

from vf.runner import shard
from checks import C01 as base

PROP = 'C02'
LEVEL = 'exploration'
MONITORS = ('c02', 'c01')
RULE = ('same seeded program generator as C01 with in-place / shallow-copy / element-assignment operations '
        'over-weighted; after every step every touched tensor is checked by its own test_sanity() at optimisation '
        'level 0 AND by a harness recomputation of every storage invariant (unique block rows, charge rule per block, '
        'block shapes/dtypes, C-contiguous intp _qdata, truthfulness of _qdata_sorted / sorted / bunched / blocked claims, '
        'LegPipe q_map structure and fusion rule); qtotal is compared with the documented function of the operands\' '
        'totals through the shadow; programs run at TENPY_OPTIMIZE 0, 1 and 3 in compiled and pure configurations. '
        'non-trivial/distinct as in C01')
ASSUMPTIONS = ['level-3 runs use only legal programs (argument checks are skipped there by design)']
ANCHORS = base.ANCHORS
REQUIRED_COUNTERS = {'monitor.invariant_evals': 2000, 'op.transpose': 20, 'op.setitem': 20, 'op.linear': 20,
                     'op.combine_legs': 20, 'op.misc': 20, 'op.iproject': 10, 'op.conj': 10}
WEIGHTS = {'transpose': 4.0, 'setitem': 5.0, 'misc': 5.0, 'iproject': 3.0, 'scale_axis': 3.0, 'conj': 3.0,
           'linear': 5.0, 'gauge_total_charge': 2.0, 'add_remove_leg': 3.0, 'sort_legcharge': 3.0, 'legops': 4.0}
CONFIGS = {'quick': [('compiled:O0', 700, 4), ('compiled:O1', 900, 5), ('compiled:O3', 500, 3), ('pure:O1', 400, 2),
                     ('pure:O0', 300, 2)],
           'thorough': [('compiled:O0', 15000, 4), ('compiled:O1', 15000, 4), ('compiled:O3', 12000, 3),
                        ('pure:O0', 6000, 2), ('pure:O1', 6000, 2), ('pure:O3', 4000, 1)]}


def plan(tier, seed, jobs):
    units = []
    for cfg, n, nsh in CONFIGS[tier]:
        units += shard(cfg, n, nsh, timeout=3000, time_budget=75 if tier == 'quick' else 1500)
    return units


def worker_init(ctx):
    warnings.simplefilter('ignore')


def run_case(ctx, i):
    base.run_program(ctx, i, MONITORS, weights=WEIGHTS)
    ctx.count('optimize_level.' + os.environ.get('TENPY_OPTIMIZE', 'default'))
