"""C08 — MPS measurements equal dense quantum mechanics (<bra|O|ket> with explicit-JW kron operators; Born amplitudes)."""
import itertools
import traceback
import warnings

import numpy as np

from vf.runner import shard

PROP = 'C08'
LEVEL = 'exploration'
RULE = ('random finite MPS (L 2-6, all site kinds and conserve options, random sector states, random canonical forms) and a second '
        'random state in the same sector (bra != ket); every measurement function is called with random operator names '
        '(incl. fermionic ones, products, per-site lists), site ranges and options, and compared with dense vectors and '
        'dense operators built by explicit kron with Jordan-Wigner strings; each sampled measurement is compared with the Born '
        'amplitude of the returned outcome. non-trivial = entangled state; distinct = (function, options, site kind, L)'
        ' Also: hermitian=True shortcut of correlation_function, overlap(ignore_form=True), MPSEnvironment.correlation_function with bra != ket and norms != 1, term lists whose terms start on different sites, Renyi index / max_range of mutinf_two_site.'
        ' Round 5: one-site fermionic operators by name in MPSEnvironment.expectation_value with bra and ket of different parity; charge statistics on extracted segments.')
ASSUMPTIONS = ['single-site operator matrices of the Site objects are taken as data (their correctness is C12)',
               'the MPS denotes the dense state (C07)']
ANCHORS = {'tenpy/networks/mps.py': ['*']}
REQUIRED_COUNTERS = {'fn.expectation_value': 20, 'fn.correlation_function': 20, 'fn.expectation_value_term': 10,
                     'fn.term_correlation_function': 10, 'fn.expectation_value_terms_sum': 10, 'fn.overlap': 10,
                     'fn.sample_measurements': 10, 'fn.sample_measurements_ops': 10, 'fn.term_list_correlation_function': 10, 'fn.get_rho_segment': 10, 'fn.charge_statistics': 10, 'fn.env': 10,
                     'fermionic.cases': 20}
FUNCS = ['expectation_value', 'expectation_value_multi', 'correlation_function', 'correlation_function', 'correlation_jw_mixed',
         'expectation_value_term', 'term_correlation_function', 'term_list_correlation_function', 'term_list_correlation_function',
         'term_list_correlation_function', 'expectation_value_terms_sum', 'overlap',
         'sample_measurements', 'sample_measurements_ops', 'get_rho_segment', 'charge_statistics', 'env', 'mutinf']


def plan(tier, seed, jobs):
    q = tier == 'quick'
    return shard('compiled', 640 if q else 15000, 16, timeout=3000, time_budget=150 if q else 1500)


def worker_init(ctx):
    warnings.simplefilter('ignore')
    import logging
    logging.disable(logging.CRITICAL)


class _Skip(Exception):
    pass


def make_state(ctx, rng, L=None, kind=None, qt=None):
    from tenpy.networks.mps import MPS
    from vf import dense
    if L is None:
        L = int(rng.integers(2, 7))
    sites, kind = dense.make_sites(rng, L, kind)
    while np.prod([s.dim for s in sites]) > 1500:
        L -= 1
        sites = sites[:L]
    vec, qt = dense.rand_sector_vector(rng, sites, sparse=float(rng.choice([0, 0, 0.4])))
    vec = vec / np.linalg.norm(vec)
    psi = MPS.from_full(sites, dense.npc_state(sites, vec, qt))
    f = rng.choice(['A', 'B', 'C', 'mixed', None])
    if f == 'mixed':
        psi.convert_form([str(rng.choice(['A', 'B', 'C', 'G', 'Th'])) for _ in range(L)])
    elif f is not None:
        psi.convert_form(str(f))
    return psi, vec, sites, kind, qt


def second_state(rng, sites, qt):
    """Another random state in the same charge sector."""
    from tenpy.networks.mps import MPS
    from vf import dense, gen
    chinfo = sites[0].leg.chinfo
    mod = [int(m) for m in chinfo.mod]
    dims = [s.dim for s in sites]
    v = rng.standard_normal(dims) + 1j * rng.standard_normal(dims)
    mask = gen.charge_mask([gen.leg_qflat(s.leg) for s in sites], [s.leg.qconj for s in sites], qt, mod)
    v = np.where(mask, v, 0)
    v = v / np.linalg.norm(v)
    return MPS.from_full(sites, dense.npc_state(sites, v, qt)), v


def opnames(site, rng, kind='any'):
    # 'JW', 'JWu', 'JWd' are bookkeeping signs (flagged need_JW although diagonal), not physical operators
    names = sorted(n for n in site.opnames if not n.startswith('JW'))
    if kind == 'bosonic':
        names = [n for n in names if not site.op_needs_JW(n)]
    elif kind == 'fermionic':
        names = [n for n in names if site.op_needs_JW(n)]
    if not names:
        raise _Skip()
    return str(names[int(rng.integers(len(names)))])


def close(a, b, tol=1e-9):
    return abs(complex(a) - complex(b)) <= tol * max(1.0, abs(complex(b)))


def run_case(ctx, i):
    rng = ctx.rng
    fn = FUNCS[int(rng.integers(len(FUNCS)))]
    try:
        psi, vec, sites, kind, qt = make_state(ctx, rng)
        case = {'function': fn, 'sites': kind, 'L': len(sites), 'forms': [list(map(float, f)) for f in psi.form], 'qtotal': np.asarray(qt).tolist()}
        from vf import dense
        if any(dense.is_fermionic(s) for s in sites):
            ctx.count('fermionic.cases')
        globals()['do_' + fn](ctx, rng, psi, vec, sites, kind, qt, case)
    except _Skip:
        ctx.count('skipped')
        return
    except Exception as e:
        tb = traceback.format_exc()
        if '/tenpy/' in tb:
            ctx.violation('%s:raises-%s' % (fn, type(e).__name__), tb[-700:], {'function': fn})
        else:
            raise
        return
    ctx.sig((fn, kind, len(sites), repr(sorted(case.get('options', {}).items()))), nontrivial=max(psi.chi) >= 2)
    if i % 160 == 0:
        ctx.sample({k: v for k, v in case.items()})


def do_expectation_value(ctx, rng, psi, vec, sites, kind, qt, case):
    from vf import dense
    L = len(sites)
    ctx.count('fn.expectation_value')
    mode = str(rng.choice(['name', 'namelist', 'array', 'sites']))
    v = vec.reshape(-1)
    if mode in ('name', 'sites'):
        name = opnames(sites[0], rng, 'bosonic')
        if any(name not in s.opnames for s in sites):
            raise _Skip()
        st = None if mode == 'name' else sorted(int(x) for x in rng.permutation(L)[:int(rng.integers(1, L + 1))])
        case['options'] = {'ops': name, 'sites': st}
        got = psi.expectation_value(name, sites=st)
        idx = range(L) if st is None else st
        exp = [dense.expval(vec, dense.op_on_chain(sites, {k: dense.op_dense(sites[k], name)})) for k in idx]
    elif mode == 'namelist':
        names = [opnames(s, rng, 'bosonic') for s in sites[:int(rng.integers(1, L + 1))]]
        for k in range(L):
            if names[k % len(names)] not in sites[k].opnames:
                raise _Skip()
        case['options'] = {'ops': names}
        got = psi.expectation_value(names)
        exp = [dense.expval(vec, dense.op_on_chain(sites, {k: dense.op_dense(sites[k], names[k % len(names)])})) for k in range(L)]
    else:
        # explicit npc Array (two-site) operators
        if L < 2:
            raise _Skip()
        from tenpy.linalg import np_conserved as npc
        n1, n2 = opnames(sites[0], rng, 'bosonic'), opnames(sites[1 % L], rng, 'bosonic')
        if any(n1 not in s.opnames or n2 not in s.opnames for s in sites):
            raise _Skip()
        ops = []
        for k in range(L - 1):
            o = npc.outer(sites[k].get_op(n1).replace_labels(['p', 'p*'], ['p0', 'p0*']),
                          sites[k + 1].get_op(n2).replace_labels(['p', 'p*'], ['p1', 'p1*']))
            ops.append(o)
        case['options'] = {'ops': 'two-site arrays %s x %s' % (n1, n2)}
        got = psi.expectation_value(ops)
        exp = [dense.expval(vec, dense.op_on_chain(sites, {k: dense.op_dense(sites[k], n1), k + 1: dense.op_dense(sites[k + 1], n2)}))
               for k in range(L - 1)]
    got = np.asarray(got)
    if got.shape != (len(exp), ) or any(not close(g, e) for g, e in zip(got, exp)):
        ctx.violation('expectation_value:%s:wrong' % mode, 'got %r expected %r' % (got.tolist(), [complex(e) for e in exp]), case)


def do_expectation_value_multi(ctx, rng, psi, vec, sites, kind, qt, case):
    from vf import dense
    L = len(sites)
    ctx.count('fn.expectation_value')
    n = int(rng.integers(1, L + 1))
    i0 = int(rng.integers(0, L - n + 1))
    names = [opnames(sites[i0 + k], rng, 'bosonic') for k in range(n)]
    case['options'] = {'operators': names, 'i0': i0}
    got = psi.expectation_value_multi_sites(names, i0)
    exp = dense.expval(vec, dense.op_on_chain(sites, {i0 + k: dense.op_dense(sites[i0 + k], names[k]) for k in range(n)}))
    if not close(got, exp):
        ctx.violation('expectation_value_multi_sites:wrong', 'got %r expected %r' % (got, exp), case)


def corr_reference(sites, vec, name1, name2, i, j, opstr=None, str_on_first=True, autoJW=True):
    """<psi| op1_i op2_j |psi> with the documented string placement."""
    from vf import dense
    if opstr is None and autoJW and sites[i].op_needs_JW(name1):
        # fermionic operators: physical meaning via term_matrix (JW strings left of each operator)
        return dense.expval(vec, dense.term_matrix(sites, [(name1, i), (name2, j)]))
    if opstr is None or i == j:
        M = dense.op_on_chain(sites, {i: dense.op_dense(sites[i], name1)}) @ dense.op_on_chain(sites, {j: dense.op_dense(sites[j], name2)})
        return dense.expval(vec, M)
    lo, hi = min(i, j), max(i, j)
    rng_r = range(lo if str_on_first else lo + 1, hi)
    S = dense.op_on_chain(sites, {r: dense.op_dense(sites[r], opstr) for r in rng_r}) if len(rng_r) else np.eye(vec.size)
    O1 = dense.op_on_chain(sites, {i: dense.op_dense(sites[i], name1)})
    O2 = dense.op_on_chain(sites, {j: dense.op_dense(sites[j], name2)})
    if i < j:
        M = O1 @ S @ O2  # ops1[i] prod opstr ops2[j]
    else:
        M = S @ O1 @ O2  # prod opstr ops1[i] ops2[j]
    return dense.expval(vec, M)


def do_correlation_function(ctx, rng, psi, vec, sites, kind, qt, case):
    from vf import dense
    L = len(sites)
    ctx.count('fn.correlation_function')
    ferm = any(dense.is_fermionic(s) for s in sites) and rng.random() < 0.6
    s0 = sites[0]
    if any(type(s) is not type(s0) for s in sites):
        raise _Skip()
    if ferm:
        n1, n2 = opnames(s0, rng, 'fermionic'), opnames(s0, rng, 'fermionic')
        opstr, sof = None, True
    else:
        n1, n2 = opnames(s0, rng, 'bosonic'), opnames(s0, rng, 'bosonic')
        opstr = None if rng.random() < 0.5 else opnames(s0, rng, 'bosonic')
        sof = bool(rng.random() < 0.5)
    s1 = None if rng.random() < 0.4 else sorted(int(x) for x in rng.permutation(L)[:int(rng.integers(1, L + 1))])
    s2 = None if rng.random() < 0.4 else sorted(int(x) for x in rng.permutation(L)[:int(rng.integers(1, L + 1))])
    herm = False
    if opstr is None and rng.random() < 0.4:
        # the documented shortcut: same sites and ops2 = ops1^dagger -> C is Hermitian and only one triangle is computed
        try:
            n2 = s0.get_hc_op_name(n1)
            s2 = s1
            herm = True
            ctx.count('correlation_function.hermitian_flag')
        except Exception:
            herm = False
    case['options'] = {'ops1': n1, 'ops2': n2, 'sites1': s1, 'sites2': s2, 'opstr': opstr, 'str_on_first': sof, 'fermionic': ferm,
                       'hermitian': herm}
    got = np.asarray(psi.correlation_function(n1, n2, sites1=s1, sites2=s2, opstr=opstr, str_on_first=sof, hermitian=herm))
    I = range(L) if s1 is None else s1
    J = range(L) if s2 is None else s2
    exp = np.array([[corr_reference(sites, vec, n1, n2, a, b, opstr, sof) for b in J] for a in I])
    if got.shape != exp.shape:
        ctx.violation('correlation_function:shape', '%r expected %r' % (got.shape, exp.shape), case)
        return
    bad = ~(np.abs(got - exp) <= 1e-9 * np.maximum(1, np.abs(exp)))
    if np.any(bad):
        x, y = [int(t) for t in np.argwhere(bad)[0]]
        a, b = list(I)[x], list(J)[y]
        rel = 'i<j' if a < b else ('i=j' if a == b else 'i>j')
        ctx.violation('correlation_function:wrong:%s:%s%s%s' % (rel, 'fermionic' if ferm else 'bosonic', ':opstr' if opstr else '', ':hermitian-flag' if herm else ''),
                      'C[%d,%d] (i=%d,j=%d) = %r expected %r' % (x, y, a, b, got[x, y], exp[x, y]), case)


def do_correlation_jw_mixed(ctx, rng, psi, vec, sites, kind, qt, case):
    """Documented: mixing operators which need a JW string with operators which do not must raise."""
    from vf import dense
    s0 = sites[0]
    if not dense.is_fermionic(s0) or any(type(s) is not type(s0) for s in sites):
        raise _Skip()
    ctx.count('fn.correlation_function')
    f, b = opnames(s0, rng, 'fermionic'), opnames(s0, rng, 'bosonic')
    for n1, n2 in ((f, b), (b, f)):
        case['options'] = {'ops1': n1, 'ops2': n2}
        try:
            psi.correlation_function(n1, n2)
        except ValueError:
            continue
        ctx.violation('correlation_function:accepts-mixed-JW:%s' % ('ops1-fermionic' if n1 == f else 'ops2-fermionic'),
                      'correlation_function(%r, %r) did not raise although only one operator needs a Jordan-Wigner string' % (n1, n2), case)
        return


def rand_term(rng, sites, nops=None, even_fermions=True):
    from vf import dense
    L = len(sites)
    if nops is None:
        nops = int(rng.integers(1, 5))
    term = []
    for _ in range(nops):
        k = int(rng.integers(L))
        term.append((opnames(sites[k], rng), k))
    nf = sum(1 for n, k in term if sites[k].op_needs_JW(n))
    if even_fermions and nf % 2 == 1:
        # add one more fermionic operator
        cands = [k for k in range(L) if dense.is_fermionic(sites[k])]
        k = cands[int(rng.integers(len(cands)))]
        term.insert(int(rng.integers(len(term) + 1)), (opnames(sites[k], rng, 'fermionic'), k))
    return term


def do_expectation_value_term(ctx, rng, psi, vec, sites, kind, qt, case):
    from vf import dense
    ctx.count('fn.expectation_value_term')
    term = rand_term(rng, sites)
    case['options'] = {'term': term}
    got = psi.expectation_value_term(term)
    exp = dense.expval(vec, dense.term_matrix(sites, term))
    if not close(got, exp):
        nf = sum(1 for n, k in term if sites[k].op_needs_JW(n))
        order = 'ordered' if [k for _, k in term] == sorted(k for _, k in term) else 'unordered'
        ctx.violation('expectation_value_term:wrong:%s:%s' % ('fermionic' if nf else 'bosonic', order), 'term %r: got %r expected %r' % (term, got, exp), case)
    # odd number of fermionic operators must raise
    if any(dense.is_fermionic(s) for s in sites):
        k = [k for k in range(len(sites)) if dense.is_fermionic(sites[k])][0]
        t = [(opnames(sites[k], rng, 'fermionic'), k)]
        try:
            psi.expectation_value_term(t)
            ctx.violation('expectation_value_term:accepts-odd-fermion-number', 'term %r' % t, case)
        except ValueError:
            pass


def do_term_correlation_function(ctx, rng, psi, vec, sites, kind, qt, case):
    from vf import dense
    L = len(sites)
    if L < 3:
        raise _Skip()
    ctx.count('fn.term_correlation_function')
    s0 = sites[0]
    if any(type(s) is not type(s0) for s in sites):
        raise _Skip()
    ferm = dense.is_fermionic(s0) and rng.random() < 0.6
    k = 'fermionic' if ferm else 'bosonic'
    tL = [(opnames(s0, rng, k), 0)]
    tR = [(opnames(s0, rng, k), 0)]
    if rng.random() < 0.4 and L >= 4:
        tL.append((opnames(s0, rng, 'bosonic'), 1))
    right = bool(rng.random() < 0.5)
    maxL = max(x for _, x in tL)
    if right:
        i_L = 0
        j_R = list(range(maxL + 1, L))
        case['options'] = {'term_L': tL, 'term_R': tR, 'i_L': i_L, 'j_R': j_R, 'direction': 'right'}
        got = np.asarray(psi.term_correlation_function_right(tL, tR, i_L=i_L, j_R=j_R))
        exp = [dense.expval(vec, dense.term_matrix(sites, [(n, x + i_L) for n, x in tL] + [(n, x + j) for n, x in tR])) for j in j_R]
    else:
        j_R = L - 1
        i_L = list(range(0, L - 1 - maxL))
        if not i_L:
            raise _Skip()
        case['options'] = {'term_L': tL, 'term_R': tR, 'i_L': i_L, 'j_R': j_R, 'direction': 'left'}
        got = np.asarray(psi.term_correlation_function_left(tL, tR, i_L=i_L, j_R=j_R))
        # the left-moving variant evaluates (and returns) the i_L in descending order
        exp = [dense.expval(vec, dense.term_matrix(sites, [(n, x + a) for n, x in tL] + [(n, x + j_R) for n, x in tR])) for a in sorted(i_L)[::-1]]
    if got.shape != (len(exp), ) or any(not close(g, e) for g, e in zip(got, exp)):
        ctx.violation('term_correlation_function_%s:wrong:%s' % ('right' if right else 'left', k),
                      'got %r expected %r' % (got.tolist(), [complex(e) for e in exp]), case)


def do_term_list_correlation_function(ctx, rng, psi, vec, sites, kind, qt, case):
    """<psi| (sum_a cL_a T^L_a shifted by i_L) (sum_b cR_b T^R_b shifted by j) |psi> for all j; the single terms may carry charge
    (only neutral products contribute) and may be fermionic (both lists odd or both even)."""
    from tenpy.networks.terms import TermList
    from vf import dense
    L = len(sites)
    s0 = sites[0]
    if L < 4 or any(s is not s0 for s in sites):
        raise _Skip()
    ctx.count('fn.term_list_correlation_function')
    ferm = dense.is_fermionic(s0) and rng.random() < 0.75

    def rand_list(width):
        terms, strengths = [], []
        if ferm and width > 1 and rng.random() < 0.4:
            # odd terms starting on different sites
            terms = [[(opnames(s0, rng, 'fermionic'), 0)], [(opnames(s0, rng, 'fermionic'), 1)]]
            strengths = [1.0, complex(np.round(rng.standard_normal(), 2), 0.5)]
            ctx.count('term_list_correlation_function.odd_terms_with_different_starts')
            return terms, strengths
        for _ in range(int(rng.integers(1, 4))):
            # terms of one list need not start on the same site (the shorter ones are padded, with Jordan-Wigner factors if odd)
            pos = sorted(int(x) for x in rng.permutation(width)[:int(rng.integers(1, width + 1))]) if rng.random() < 0.6 else [0]
            if len(pos) == 1 and pos[0] != 0:
                ctx.count('term_list_correlation_function.term_not_starting_at_0')
            if ferm:
                kf = int(rng.integers(len(pos)))  # one fermionic operator per term: every term of a list is odd
                t = [(opnames(s0, rng, 'fermionic' if k_ == kf else 'bosonic'), x_) for k_, x_ in enumerate(pos)]
            else:
                t = [(opnames(s0, rng, 'bosonic'), x_) for x_ in pos]
            terms.append(t)
            strengths.append(complex(np.round(rng.standard_normal(), 2), np.round(rng.standard_normal(), 2) if rng.random() < 0.3 else 0))
        return terms, strengths

    tL, cL = rand_list(2)
    tR, cR = rand_list(2)
    wL = 1 + max(x for t in tL for _, x in t)
    wR = 1 + max(x for t in tR for _, x in t)
    i_L = 0
    j_R = list(range(wL, L - wR + 1))
    if not j_R:
        raise _Skip()
    case['options'] = {'term_list_L': tL, 'strength_L': [str(c) for c in cL], 'term_list_R': tR, 'strength_R': [str(c) for c in cR], 'j_R': j_R}
    use_env = bool(rng.random() < 0.3)
    if use_env:
        from tenpy.networks.mps import MPSEnvironment
        got = np.asarray(MPSEnvironment(psi, psi).term_list_correlation_function_right(TermList(tL, cL), TermList(tR, cR), i_L=i_L, j_R=j_R))
    else:
        got = np.asarray(psi.term_list_correlation_function_right(TermList(tL, cL), TermList(tR, cR), i_L=i_L, j_R=j_R))
    exp = []
    for j in j_R:
        tot = 0.
        for ta, ca in zip(tL, cL):
            for tb, cb in zip(tR, cR):
                tot += ca * cb * dense.expval(vec, dense.term_matrix(sites, [(n, x + i_L) for n, x in ta] + [(n, x + j) for n, x in tb]))
        exp.append(tot)
    if got.shape != (len(exp), ) or any(not close(g, e, 1e-8) for g, e in zip(got, exp)):
        ctx.violation('term_list_correlation_function_right:wrong:%s' % ('fermionic' if ferm else 'bosonic'),
                      'got %r expected %r' % (got.tolist(), [complex(e) for e in exp]), case)


def do_sample_measurements_ops(ctx, rng, psi, vec, sites, kind, qt, case):
    """Sampling in the eigenbasis of given operators: the returned weight is the Born probability (amplitude up to a phase) of the
    projectors on the eigenvectors of the returned eigenvalues."""
    L = len(sites)
    ctx.count('fn.sample_measurements_ops')
    cand = {}
    for s in set(sites):
        good = []
        for n in sorted(s.opnames):
            op = s.get_op(n)
            o = op.to_ndarray()
            if np.any(op.qtotal != 0) or not (np.linalg.norm(o - o.conj().T) <= 1e-13):
                continue
            w = np.linalg.eigvalsh(o)
            if len(w) > 1 and np.min(np.diff(np.sort(w))) < 1e-6:
                continue  # degenerate: the eigenvalue does not identify the sampled vector
            good.append(n)
        cand[id(s)] = good
    common = sorted(set.intersection(*[set(v) for v in cand.values()]))
    if not common:
        raise _Skip()
    ops = [common[int(rng.integers(len(common)))] for _ in range(int(rng.integers(1, 4)))]
    first = int(rng.integers(0, L))
    last = int(rng.integers(first, L))
    cplx = bool(rng.random() < 0.5)
    case['options'] = {'first_site': first, 'last_site': last, 'ops': ops, 'complex_amplitude': cplx}
    gen_ = np.random.default_rng(int(rng.integers(1 << 30)))
    for rep in range(3):
        sig, w = psi.sample_measurements(first, last, ops=ops, rng=gen_, complex_amplitude=cplx)
        # projector on the eigenvectors named by the returned eigenvalues (documented: ops[(i - first_site) % len(ops)] on site i)
        v = vec
        for k, lam in zip(range(first, last + 1), sig):
            o = sites[k].get_op(ops[(k - first) % len(ops)]).to_ndarray()
            ew, ev = np.linalg.eigh(o)
            m = int(np.argmin(np.abs(ew - lam)))
            if not (abs(ew[m] - lam) <= 1e-9):
                ctx.violation('sample_measurements(ops):outcome-not-an-eigenvalue', 'site %d: %r is no eigenvalue of %r (%r)' %
                              (k, lam, ops[(k - first) % len(ops)], ew.tolist()), case)
                return
            P = np.outer(ev[:, m], ev[:, m].conj())
            v = np.moveaxis(np.tensordot(P, v, axes=[[1], [k]]), 0, k)
        p = float(np.sum(np.abs(v)**2))
        if p < 1e-12:
            ctx.violation('sample_measurements(ops):impossible-outcome', 'outcome %r has probability %r' % (list(sig), p), case)
            return
        got = abs(w)**2 if cplx else w
        if not close(got, p, 1e-8):
            ctx.violation('sample_measurements(ops):weight-not-born-%s' % ('amplitude' if cplx else 'probability'),
                          'outcome %r: weight %r -> probability %r, Born probability %r' % ([float(x) for x in sig], w, got, p), case)
            return


def do_expectation_value_terms_sum(ctx, rng, psi, vec, sites, kind, qt, case):
    from vf import dense
    from tenpy.networks.terms import TermList
    ctx.count('fn.expectation_value_terms_sum')
    terms = [rand_term(rng, sites, nops=int(rng.integers(1, 4))) for _ in range(int(rng.integers(1, 5)))]
    # an MPO needs charge-neutral terms: keep only those (others have vanishing expectation value in a sector anyway)
    chinfo = sites[0].leg.chinfo
    terms = [t for t in terms if not np.any(chinfo.make_valid(sum(sites[k].get_op(n).qtotal for n, k in t)))]
    if not terms:
        raise _Skip()
    strengths = [complex(rng.standard_normal(), rng.standard_normal() if rng.random() < 0.3 else 0) for _ in terms]
    case['options'] = {'terms': terms, 'strengths': [str(s) for s in strengths]}
    exp = sum(s * dense.expval(vec, dense.term_matrix(sites, t)) for s, t in zip(strengths, terms))
    as_array = bool(rng.random() < 0.5)
    case['options']['strengths_as_ndarray'] = as_array
    if as_array:
        # the caller's prefactor array is data of the caller: building lists from it, shifting them and evaluating them (twice)
        # must neither change it nor change the value of the sum
        arr = np.array(strengths)
        arr0 = arr.copy()
        tl = TermList([list(t) for t in terms], arr)
        got, _ = psi.expectation_value_terms_sum(tl)
        tl_b = TermList([list(t) for t in terms], arr)
        got_b, _ = psi.expectation_value_terms_sum(tl_b)
        got_c, _ = psi.expectation_value_terms_sum(tl)
        ctx.count('terms_sum.shared_prefactor_array')
        if not np.array_equal(arr, arr0):
            ctx.violation('TermList:changes-the-prefactor-array-of-the-caller', 'array %r became %r' % (arr0.tolist(), arr.tolist()), case)
            return
        if not (close(got_b, exp) and close(got_c, exp)):
            ctx.violation('expectation_value_terms_sum:second-evaluation-differs', 'first %r, second list from the same array %r, same list '
                          'again %r, expected %r' % (got, got_b, got_c, exp), case)
            return
    else:
        tl = TermList(terms, strengths)
        got, _ = psi.expectation_value_terms_sum(tl)
    if not close(got, exp):
        ctx.violation('expectation_value_terms_sum:wrong', 'got %r expected %r' % (got, exp), case)
        return
    # the same sum between two different states (bra != ket, non-unit norms, complex amplitudes)
    if rng.random() < 0.6:
        from tenpy.networks.mps import MPSEnvironment
        phi, w = second_state(rng, sites, qt)
        c1, c2 = float(rng.uniform(0.5, 2)), float(rng.uniform(0.5, 2))
        psi.norm, phi.norm = c1, c2
        bra, ket = w.reshape(-1) * c2, vec.reshape(-1) * c1
        got_e, _ = MPSEnvironment(phi, psi).expectation_value_terms_sum(TermList(terms, strengths))
        exp_e = sum(s * np.vdot(bra, dense.term_matrix(sites, t) @ ket) for s, t in zip(strengths, terms))
        ctx.count('terms_sum.bra_ket')
        psi.norm = 1.
        if not close(got_e, exp_e, 1e-8):
            ctx.violation('MPSEnvironment.expectation_value_terms_sum:wrong', 'got %r expected <bra|sum|ket> = %r' % (got_e, exp_e), case)


def do_overlap(ctx, rng, psi, vec, sites, kind, qt, case):
    ctx.count('fn.overlap')
    phi, w = second_state(rng, sites, qt)
    c1, c2 = float(rng.uniform(0.5, 2)), float(rng.uniform(0.5, 2))
    psi.norm, phi.norm = c1, c2
    if rng.random() < 0.5:
        phi.convert_form(str(rng.choice(['A', 'C', 'B'])))
    case['options'] = {'norms': [c1, c2], 'forms_other': [list(map(float, f)) for f in phi.form]}
    got = psi.overlap(phi)
    exp = np.vdot(vec.reshape(-1) * c1, w.reshape(-1) * c2)
    if not close(got, exp):
        ctx.violation('overlap:wrong', 'got %r expected <psi|phi> = %r (norms %r %r)' % (got, exp, c1, c2), case)
    got2 = phi.overlap(psi)
    if not close(got2, np.conj(exp)):
        ctx.violation('overlap:not-conjugate-symmetric', 'got %r expected %r' % (got2, np.conj(exp)), case)
        return
    if rng.random() < 0.5:
        # ignore_form=True contracts the stored tensors as they are: for two states in right-canonical form that is the overlap
        psi.convert_form('B')
        phi.convert_form('B')
        ctx.count('overlap.ignore_form')
        got3 = psi.overlap(phi, ignore_form=True)
        if not close(got3, exp):
            ctx.violation('overlap:ignore_form:wrong', 'got %r expected <psi|phi> = %r' % (got3, exp), case)


def do_sample_measurements(ctx, rng, psi, vec, sites, kind, qt, case):
    ctx.count('fn.sample_measurements')
    L = len(sites)
    full = rng.random() < 0.6
    first = 0 if full else int(rng.integers(0, L))
    last = L - 1 if full else int(rng.integers(first, L))
    cplx = bool(rng.random() < 0.5)
    case['options'] = {'first_site': first, 'last_site': last, 'complex_amplitude': cplx}
    gen_ = np.random.default_rng(int(rng.integers(1 << 30)))
    for rep in range(3):
        sig, w = psi.sample_measurements(first, last, rng=gen_, complex_amplitude=cplx)
        sig = [int(x) for x in sig]
        # Born amplitude of the returned outcome
        idx = [slice(None)] * L
        for k, s in zip(range(first, last + 1), sig):
            idx[k] = s
        sub = vec[tuple(idx)]
        p = float(np.sum(np.abs(sub)**2))
        if first == 0 and last == L - 1:
            amp = complex(sub)
            exp = abs(amp)**2 if not cplx else amp
        else:
            exp = p if not cplx else np.sqrt(p)
        ok = close(w, exp, 1e-8) if (first == 0 and last == L - 1) or not cplx else close(abs(w), exp, 1e-8)
        if p < 1e-12:
            ctx.violation('sample_measurements:impossible-outcome', 'outcome %r has probability %r' % (sig, p), case)
            return
        if not ok:
            ctx.violation('sample_measurements:weight-not-born-%s:%s' % ('amplitude' if cplx else 'probability', 'all-sites' if full else 'subset'),
                          'outcome %r: weight %r, Born %s %r (n_sites=%d)' % (sig, w, 'amplitude' if cplx else 'probability', exp, last - first + 1), case)
            return


def do_get_rho_segment(ctx, rng, psi, vec, sites, kind, qt, case):
    ctx.count('fn.get_rho_segment')
    L = len(sites)
    n = int(rng.integers(1, min(3, L) + 1))
    seg = sorted(int(x) for x in rng.permutation(L)[:n])
    if np.prod([sites[k].dim for k in seg]) > 64:
        raise _Skip()
    case['options'] = {'segment': seg}
    rho = psi.get_rho_segment(seg)
    labels = ['p%d' % k for k in range(n)] + ['p%d*' % k for k in range(n)]
    r = np.transpose(rho.to_ndarray(), [rho.get_leg_index(l) for l in labels])
    rest = [k for k in range(L) if k not in seg]
    M = np.transpose(vec, seg + rest).reshape(int(np.prod([sites[k].dim for k in seg])), -1)
    exp = (M @ M.conj().T)
    d = exp.shape[0]
    if not (np.linalg.norm(r.reshape(d, d) - exp) <= 1e-9):
        ctx.violation('get_rho_segment:wrong', '|rho - dense| = %g' % np.linalg.norm(r.reshape(d, d) - exp), case)
        return
    if n == 1 or seg == list(range(seg[0], seg[0] + n)):
        try:
            S = psi.entanglement_entropy_segment(segment=list(range(n)), first_site=[seg[0]])
            w = np.linalg.eigvalsh(exp)
            w = w[w > 1e-14]
            e = -np.sum(w * np.log(w))
            if not (abs(np.asarray(S).ravel()[0] - e) <= 1e-8):
                ctx.violation('entanglement_entropy_segment:wrong', 'got %r expected %r' % (S, e), case)
        except Exception as ex:
            ctx.violation('entanglement_entropy_segment:raises-%s' % type(ex).__name__, traceback.format_exc()[-400:], case)


def do_charge_statistics(ctx, rng, psi, vec, sites, kind, qt, case):
    from vf import gen
    chinfo = sites[0].leg.chinfo
    mod = [int(m) for m in chinfo.mod]
    if not mod:
        raise _Skip()
    ctx.count('fn.charge_statistics')
    L = len(sites)
    bond = int(rng.integers(1, L))
    case['options'] = {'bond': bond}
    # probability of each total charge on the left part (sites < bond)
    dl = [s.dim for s in sites[:bond]]
    probs = {}
    M = vec.reshape(int(np.prod(dl)), -1)
    pl = np.sum(np.abs(M)**2, axis=1).reshape(dl)
    for idx in itertools.product(*[range(d) for d in dl]):
        q = gen.mod_valid(sum(s.leg.qconj * gen.leg_qflat(s.leg)[k] for s, k in zip(sites[:bond], idx)), mod)
        probs[tuple(q.tolist())] = probs.get(tuple(q.tolist()), 0) + pl[idx]
    probs = {k: v for k, v in probs.items() if v > 1e-14}
    target = psi
    if L >= 4 and rng.random() < 0.4:
        # the same cut seen from a segment of the chain (canonical form of the full state): bond `bond` of psi is bond
        # `bond - first` of the segment, the boundaries of the segment (bond 0 and bond L_seg) included
        psi.canonical_form()
        first = int(rng.integers(0, bond + 1)) if rng.random() < 0.5 else bond
        low = max(first + 1, bond - 1)
        last = -1
        if low <= L - 1:
            last = low if (rng.random() < 0.5) else int(rng.integers(low, L))
        if last >= 0 and first <= bond <= last + 1:
            target = psi.extract_segment(first, last)
            case['options'].update(segment=[first, last])
            ctx.count('charge_statistics.segment')
            if bond == last + 1:
                ctx.count('charge_statistics.segment_right_boundary')
            bond_t = bond - first
        else:
            bond_t = bond
    else:
        bond_t = bond
    psi_orig, psi, bond = psi, target, bond_t
    charges, ps = psi.probability_per_charge(bond)
    got = {}
    for c, p in zip(np.asarray(charges).tolist(), np.asarray(ps).tolist()):
        got[tuple(c)] = got.get(tuple(c), 0) + p
    got = {k: v for k, v in got.items() if v > 1e-14}
    # charges on a bond are defined up to the gauge of the leftmost virtual leg: compare the multiset of probabilities
    # and differences between charges
    if sorted(np.round(list(got.values()), 9)) != sorted(np.round(list(probs.values()), 9)):
        ctx.violation('probability_per_charge:wrong-probabilities', 'got %r expected %r' % (got, probs), case)
        return
    if all(m == 1 for m in mod) and len(probs) > 1:
        # U(1): average and variance are gauge-invariant up to a constant shift / exactly
        ks = sorted(probs)
        mean = sum(np.array(k) * probs[k] for k in ks)
        var = sum((np.array(k) - mean)**2 * probs[k] for k in ks)
        v = np.asarray(psi.charge_variance(bond))
        if not (np.max(np.abs(v - var)) <= 1e-8):
            ctx.violation('charge_variance:wrong', 'got %r expected %r' % (v.tolist(), var.tolist()), case)
        gk = sorted(got)
        shift = np.array(gk[0]) - np.array(ks[0])
        a = np.asarray(psi.average_charge(bond))
        if not (np.max(np.abs(a - (mean + shift))) <= 1e-8):
            ctx.violation('average_charge:wrong', 'got %r expected %r (+gauge shift %r)' % (a.tolist(), mean.tolist(), shift.tolist()), case)


def do_env(ctx, rng, psi, vec, sites, kind, qt, case):
    """MPSEnvironment with bra != ket and non-unit norms."""
    from tenpy.networks.mps import MPSEnvironment
    from vf import dense
    ctx.count('fn.env')
    phi, w = second_state(rng, sites, qt)
    c1, c2 = float(rng.uniform(0.5, 2)), float(rng.uniform(0.5, 2))
    psi.norm, phi.norm = c1, c2
    env = MPSEnvironment(phi, psi)  # bra=phi, ket=psi
    L = len(sites)
    bra, ket = w.reshape(-1) * c2, vec.reshape(-1) * c1
    case['options'] = {'norms': [c1, c2]}
    fc = env.full_contraction(int(rng.integers(0, L - 1)))
    if not close(fc, np.vdot(bra, ket)):
        ctx.violation('MPSEnvironment.full_contraction:wrong', 'got %r expected %r' % (fc, np.vdot(bra, ket)), case)
        return
    # one-site fermionic operators (by name) between states of different parity: the bra lives in the sector of op|ket>
    fnames = sorted(n for n in sites[0].opnames if not n.startswith('JW') and sites[0].op_needs_JW(n)
                    and all(n in s_.opnames for s_ in sites))
    if fnames and all(getattr(s_, 'charge_to_JW_parity', None) is not None for s_ in sites) and rng.random() < 0.9:  # (else a documented refusal)
        fn = str(fnames[int(rng.integers(len(fnames)))])
        chinfo = sites[0].leg.chinfo
        qt2 = chinfo.make_valid(np.asarray(qt) + sites[0].get_op(fn).qtotal)
        try:
            phi2, w2 = second_state(rng, sites, [int(q) for q in qt2])
        except Exception:
            phi2 = None  # (empty sector)
        if phi2 is not None and np.all(np.isfinite(w2)):
            ctx.count('env.fermionic_one_site')
            phi2.norm = c2
            env2 = MPSEnvironment(phi2, psi)
            got = np.asarray(env2.expectation_value(fn))
            bra2 = w2.reshape(-1) * c2
            exp = [np.vdot(bra2, dense.term_matrix(sites, [(fn, k)]) @ ket) for k in range(L)]
            if got.shape != (L,) or any(not close(g, e) for g, e in zip(got, exp)):
                ctx.violation('MPSEnvironment.expectation_value:fermionic-operator:wrong', 'op %s got %r expected <bra|c_i|ket> %r' %
                              (fn, got.tolist(), [complex(e) for e in exp]), case)
                return
    name = opnames(sites[0], rng, 'bosonic')
    if any(name not in s.opnames for s in sites):
        raise _Skip()
    got = np.asarray(env.expectation_value(name))
    exp = [np.vdot(bra, dense.op_on_chain(sites, {k: dense.op_dense(sites[k], name)}) @ ket) for k in range(L)]
    if any(not close(g, e) for g, e in zip(got, exp)):
        ctx.violation('MPSEnvironment.expectation_value:wrong', 'got %r expected <bra|O|ket> %r' % (got.tolist(), [complex(e) for e in exp]), case)
        return
    term = rand_term(rng, sites, nops=2)
    got = env.expectation_value_term(term)
    exp = np.vdot(bra, dense.term_matrix(sites, term) @ ket)
    if not close(got, exp):
        ctx.violation('MPSEnvironment.expectation_value_term:wrong', 'term %r got %r expected %r' % (term, got, exp), case)
        return
    # correlation function between two different states: all orderings i<j, i=j, i>j carry the two norms once
    name2 = opnames(sites[0], rng, 'bosonic')
    if all(name2 in s_.opnames for s_ in sites) and vec.size <= 4096:
        C = np.asarray(env.correlation_function(name, name2))
        ctx.count('env.correlation_function')
        O1 = [dense.op_on_chain(sites, {k: dense.op_dense(sites[k], name)}) for k in range(L)]
        O2 = [dense.op_on_chain(sites, {k: dense.op_dense(sites[k], name2)}) for k in range(L)]
        expC = np.array([[np.vdot(bra, O1[a] @ (O2[b] @ ket)) for b in range(L)] for a in range(L)])
        badC = ~(np.abs(C - expC) <= 1e-8 * np.maximum(1, np.abs(expC)))
        if C.shape != expC.shape or np.any(badC):
            x, y = [int(t) for t in np.argwhere(badC)[0]] if C.shape == expC.shape else (0, 0)
            rel = 'i<j' if x < y else ('i=j' if x == y else 'i>j')
            ctx.violation('MPSEnvironment.correlation_function:wrong:%s' % rel, 'C[%d,%d] = %r expected <bra|O1 O2|ket> = %r (norms %r, %r)' %
                          (x, y, C[x, y] if C.shape == expC.shape else None, expC[x, y], c1, c2), case)


def do_mutinf(ctx, rng, psi, vec, sites, kind, qt, case):
    ctx.count('fn.get_rho_segment')
    L = len(sites)
    if L < 3:
        raise _Skip()
    n_r = [1, 1, 2, 0.5, 3, np.inf][int(rng.integers(6))]
    mr = None if rng.random() < 0.6 else int(rng.integers(1, L))
    case['options'] = {'n': str(n_r), 'max_range': mr}
    ctx.count('mutinf.renyi' if n_r != 1 else 'mutinf.von_neumann')
    coords, mi = psi.mutinf_two_site(max_range=mr, n=n_r)
    exp_pairs = [(a, b) for a in range(L) for b in range(a + 1, L) if mr is None or b - a <= mr]
    if sorted(map(tuple, np.asarray(coords).tolist())) != exp_pairs:
        ctx.violation('mutinf_two_site:pairs', 'max_range %r: %r' % (mr, np.asarray(coords).tolist()[:8]), case)
        return

    def ent(seg):
        rest = [k for k in range(L) if k not in seg]
        M = np.transpose(vec, list(seg) + rest).reshape(int(np.prod([sites[k].dim for k in seg])), -1)
        w = np.linalg.eigvalsh(M @ M.conj().T)
        if n_r == 1:
            w = w[w > 1e-14]
            return -np.sum(w * np.log(w))
        if n_r == np.inf:
            return -np.log(np.max(w))
        w = np.clip(w, 0., None)  # (no cutoff: for n < 1 eigenvalues of 1e-14 still contribute 1e-7)
        return np.log(np.sum(w**n_r)) / (1. - n_r)

    for (a, b), val in zip(np.asarray(coords).tolist(), np.asarray(mi).tolist()):
        exp = ent([a]) + ent([b]) - ent([a, b])
        if not (abs(val - exp) <= (1e-8 if n_r >= 1 else 1e-6)):
            ctx.violation('mutinf_two_site:wrong', 'I(%d,%d) = %r expected %r' % (a, b, val, exp), case)
            return
