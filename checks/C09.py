"""C09 — MPS transformations implement the documented map on states (dense shadow state updated per transformation)."""
import traceback
import warnings

import numpy as np

from vf.runner import shard

PROP = 'C09'
LEVEL = 'exploration'
RULE = ('random finite MPS with non-uniform bond dimensions (L 2-6, all site kinds incl. fermionic and mixed chains, random forms) '
        'undergo random histories of 1-5 transformations (apply_local_op / apply_product_op / apply_local_term, swap_sites / '
        'permute_sites with fermionic signs, add, group_sites-group_split, enlarge_chi, perturb(close_1), compress_svd / compress, '
        'spatial_inversion, gauge_total_charge); a dense shadow state (norm included) is updated by the harness after every step '
        'and compared with the harness contraction of the MPS; infinite MPS with NON-uniform forms undergo enlarge / roll / '
        'spatial inversion and window density matrices are compared up to relabelling. non-trivial = entangled state and >=2 '
        'steps; distinct = (site kind, L, op sequence)'
        ' Also: get_grouped_mps, extract_enlarged_segment back to the whole chain, compression of infinite states (overlap per unit cell vs reported error), apply_local_term with i_offset and odd fermionic terms.'
        ' Round 5: permute_sites with swap_op None / autoInv; group_split with a truncating trunc_par (returned error vs infidelity).')
ASSUMPTIONS = ['C07 (the harness contraction denotes the MPS state)', 'fermionic swap sign = (-1)^(n_i n_j) from the JW parities']
ANCHORS = {'tenpy/networks/mps.py': ['*']}
REQUIRED_COUNTERS = {'op.get_grouped_mps': 20, 'op.extract_enlarged_segment': 20, 'op.apply_local_op': 20, 'op.apply_local_term': 10, 'op.swap_sites': 10, 'op.permute_sites': 5, 'op.add': 10,
                     'op.group': 5, 'op.compress': 10, 'op.spatial_inversion': 5, 'op.enlarge_chi': 5, 'infinite.roll': 10, 'infinite.inversion': 3,
                     'infinite.enlarge': 5, 'histories': 100}
OPS = ['apply_local_op', 'apply_local_op2', 'apply_product_op', 'apply_local_term', 'swap_sites', 'permute_sites', 'add', 'group',
       'enlarge_chi', 'perturb', 'compress', 'spatial_inversion', 'gauge_total_charge', 'convert_form']


def plan(tier, seed, jobs):
    q = tier == 'quick'
    return (shard('compiled', 480 if q else 10000, 12, part='finite', timeout=3000, time_budget=150 if q else 1500) +
            shard('compiled', 160 if q else 4000, 4, part='infinite', timeout=3000, time_budget=150 if q else 1500))


def worker_init(ctx):
    warnings.simplefilter('ignore')
    import logging
    logging.disable(logging.CRITICAL)


class _Skip(Exception):
    pass


def run_case(ctx, i):
    try:
        globals()['case_' + ctx.unit['part']](ctx, i)
    except _Skip:
        ctx.count('skipped')


def compare(ctx, name, psi, ref, case, tol=1e-8, norm_free=False):
    from vf import dense
    try:
        psi.test_sanity()
    except Exception as e:
        ctx.violation(name + ':test_sanity-raises', repr(e)[:300], case)
        return False
    try:
        vec = dense.finite_vector(psi)
    except NotImplementedError:
        raise _Skip()
    if vec.shape != ref.shape:
        ctx.violation(name + ':shape', '%r vs %r' % (vec.shape, ref.shape), case)
        return False
    scale = max(1.0, float(np.linalg.norm(ref)))
    if norm_free:
        ov, _ = dense.align_phase(vec.reshape(-1), ref.reshape(-1))
        if not (abs(ov - 1) <= tol):
            ctx.violation(name + ':state-differs', 'normalised overlap %r' % ov, case)
            return False
        return True
    if not (np.linalg.norm(vec - ref) <= tol * scale):
        ov, _ = dense.align_phase(vec.reshape(-1), ref.reshape(-1))
        kind = 'norm-or-phase' if abs(ov - 1) < 1e-8 else 'direction'
        ctx.violation('%s:state-differs:%s' % (name, kind), '|psi - ref| = %g, normalised overlap %r, |psi| %r |ref| %r, psi.norm %r' %
                      (np.linalg.norm(vec - ref), ov, np.linalg.norm(vec), np.linalg.norm(ref), psi.norm), case)
        return False
    return True


def bos_name(site, rng, unitary=None):
    names = sorted(n for n in site.opnames if not n.startswith('JW') and not site.op_needs_JW(n))
    return str(names[int(rng.integers(len(names)))])


def any_name(site, rng):
    names = sorted(n for n in site.opnames if not n.startswith('JW'))
    return str(names[int(rng.integers(len(names)))])


def case_finite(ctx, i):
    from tenpy.networks.mps import MPS
    from tenpy.linalg import np_conserved as npc
    from vf import dense, gen
    import checks.C08 as C8
    rng = ctx.rng
    psi, vec, sites, kind, qt = C8.make_state(ctx, rng)
    L = len(sites)
    ref = vec.copy()
    steps = []
    case = {'sites': kind, 'L': L, 'qtotal': np.asarray(qt).tolist(), 'chi': list(psi.chi), 'history': steps}
    nsteps = int(rng.integers(1, 6))
    ctx.count('histories')
    for _ in range(nsteps):
        op = OPS[int(rng.integers(len(OPS)))]
        D = int(np.prod([s.dim for s in sites]))
        try:
            if op == 'apply_local_op':
                k = int(rng.integers(L))
                name = bos_name(sites[k], rng)
                renorm = bool(rng.random() < 0.3)
                M = dense.op_on_chain(sites, {k: dense.op_dense(sites[k], name)})
                new = (M @ ref.reshape(-1)).reshape(ref.shape)
                if np.linalg.norm(new) < 1e-6 * max(np.linalg.norm(ref), 1e-300):
                    continue  # annihilated
                steps.append(['apply_local_op', k, name, {'renormalize': renorm}])
                psi.apply_local_op(k, name, renormalize=renorm)
                ref = new * (np.linalg.norm(ref) / np.linalg.norm(new) if renorm else 1.0)
                ctx.count('op.apply_local_op')
            elif op == 'apply_local_op2':
                if L < 2:
                    continue
                k = int(rng.integers(L - 1))
                n1, n2 = bos_name(sites[k], rng), bos_name(sites[k + 1], rng)
                O = npc.outer(sites[k].get_op(n1).replace_labels(['p', 'p*'], ['p0', 'p0*']),
                              sites[k + 1].get_op(n2).replace_labels(['p', 'p*'], ['p1', 'p1*']))
                if rng.random() < 0.5:
                    O = O.itranspose(['p1', 'p0*', 'p0', 'p1*'])
                M = dense.op_on_chain(sites, {k: dense.op_dense(sites[k], n1), k + 1: dense.op_dense(sites[k + 1], n2)})
                new = (M @ ref.reshape(-1)).reshape(ref.shape)
                if np.linalg.norm(new) < 1e-6 * max(np.linalg.norm(ref), 1e-300):
                    continue
                steps.append(['apply_local_op(two-site)', k, n1, n2])
                psi.apply_local_op(k, O)
                ref = new
                ctx.count('op.apply_local_op')
            elif op == 'apply_product_op':
                names = [bos_name(s, rng) if rng.random() < 0.5 else 'Id' for s in sites]
                M = dense.op_on_chain(sites, {k: dense.op_dense(sites[k], n) for k, n in enumerate(names)})
                new = (M @ ref.reshape(-1)).reshape(ref.shape)
                if np.linalg.norm(new) < 1e-6 * max(np.linalg.norm(ref), 1e-300):
                    continue
                renorm = bool(rng.random() < 0.3)
                steps.append(['apply_product_op', names, {'renormalize': renorm}])
                psi.apply_product_op(names, renormalize=renorm)
                ref = new * (np.linalg.norm(ref) / np.linalg.norm(new) if renorm else 1.0)
                ctx.count('op.apply_local_op')
            elif op == 'apply_local_term':
                # (a term with an odd number of fermionic operators changes the parity sector: allowed for apply_local_term, the
                #  Jordan-Wigner string then extends to the left end of the chain)
                odd_ok = all(getattr(s_, 'charge_to_JW_parity', None) is not None for s_ in sites)  # (else a documented refusal)
                term = C8.rand_term(rng, sites, nops=int(rng.integers(1, 4)), even_fermions=bool(rng.random() < 0.6) or not odd_ok)
                odd_term = sum(1 for n_, k_ in term if sites[k_].op_needs_JW(n_)) % 2 == 1
                if odd_term:
                    ctx.count('op.apply_local_term_odd_fermions')
                # documented caveat of the Jordan-Wigner string read off the charges of a virtual leg: "We may loose an overall,
                # global minus sign in the case that some `B` tensors have non-trivial `qtotal`"
                sign_free = odd_term and any(np.any(psi.get_B(k_, form=None).qtotal != 0) for k_ in range(L))
                chinfo = sites[0].leg.chinfo
                M = dense.term_matrix(sites, term)
                new = (M @ ref.reshape(-1)).reshape(ref.shape)
                if np.linalg.norm(new) < 1e-6 * max(np.linalg.norm(ref), 1e-300):
                    continue
                # the same term written relative to another origin (documented: `i_offset` is added to all site indices)
                off = int(rng.integers(-2, 3)) if rng.random() < 0.5 else 0
                term_call = [(n_, j_ - off) for n_, j_ in term]
                steps.append(['apply_local_term', term_call, {'i_offset': off}])
                if off:
                    ctx.count('op.apply_local_term_with_offset')
                    psi.apply_local_term(term_call, i_offset=off)
                else:
                    psi.apply_local_term(term)
                ref = new
                if sign_free:
                    ctx.count('op.apply_local_term_odd_fermions.global_sign_documented_as_undetermined')
                    got_ = dense.finite_vector(psi)
                    if got_.shape == ref.shape and np.linalg.norm(got_ + ref) < np.linalg.norm(got_ - ref):
                        ref = -ref
                ctx.count('op.apply_local_term')
            elif op in ('swap_sites', 'permute_sites'):
                if L < 2:
                    continue
                if op == 'swap_sites':
                    k = int(rng.integers(L - 1))
                    perm = list(range(L))
                    perm[k], perm[k + 1] = perm[k + 1], perm[k]
                    steps.append(['swap_sites', k])
                    psi.swap_sites(k, trunc_par={'chi_max': 10000, 'svd_min': 1e-14, 'trunc_cut': None})
                    ctx.count('op.swap_sites')
                else:
                    perm_arg = [int(x) for x in rng.permutation(L)]
                    # swap_op: 'auto' (fermionic signs), None (plain relabelling, no signs), 'autoInv' (signs and a factor -i
                    # per fermion in every swap)
                    swap_mode = ['auto', 'auto', None, 'autoInv'][int(rng.integers(4))]
                    steps.append(['permute_sites', perm_arg, {'swap_op': swap_mode}])
                    psi.permute_sites(perm_arg, swap_op=swap_mode, trunc_par={'chi_max': 10000, 'svd_min': 1e-14, 'trunc_cut': None})
                    ctx.count('op.permute_sites')
                    ctx.count('op.permute_sites.swap_op=%s' % swap_mode)
                    # implemented (and unit-tested) convention: old site i moves to position perm[i]
                    # (the docstring states the inverse); new site j therefore holds old site argsort(perm)[j]
                    perm = [int(x) for x in np.argsort(perm_arg)]
                # dense: new site j holds old site perm[j]; fermionic sign from reordering odd-parity sites
                par = [((1 - dense.jw_diag(s)) / 2).astype(int) for s in sites]
                new = np.transpose(ref, perm)
                sign = np.ones(ref.shape)
                # sign(permutation restricted to odd sites): count inversions among occupied(odd) sites
                import itertools
                for a in range(L):
                    for b in range(a + 1, L):
                        # old positions perm[a], perm[b]; an inversion if perm[a] > perm[b]
                        if perm[a] > perm[b]:
                            pa = par[perm[a]].reshape([-1 if x == perm[a] else 1 for x in range(L)])
                            pb = par[perm[b]].reshape([-1 if x == perm[b] else 1 for x in range(L)])
                            # (bubble sort: every inverted pair is swapped exactly once)
                            if op == 'swap_sites' or swap_mode == 'auto':
                                sign = sign * (1 - 2 * (pa * pb))
                            elif swap_mode == 'autoInv' and np.any(pa * pb):  # (pairs with a bosonic site: plain relabelling)
                                sign = sign * (1 - 2 * (pa * pb)) * (-1.j)**pa * (-1.j)**pb
                new = np.transpose(ref * sign, perm)
                ref = new
                sites = [sites[p] for p in perm]
            elif op == 'add':
                phi, w = C8.second_state(rng, sites, np.asarray(qt_now(psi)))
                if np.iscomplexobj(w) and not np.iscomplexobj(ref):
                    ref = ref.astype(complex)
                a, b = complex(rng.standard_normal(), rng.standard_normal()), complex(rng.standard_normal(), 0)
                c2 = float(rng.uniform(0.5, 2))
                phi.norm = c2
                steps.append(['add', str(a), str(b), c2])
                # MPS.add concatenates the tensors site by site: both states must use the same per-tensor charge gauge
                psi.gauge_total_charge()
                phi.gauge_total_charge()
                psi = psi.add(phi, a, b)
                ref = a * ref + b * c2 * w
                ctx.count('op.add')
            elif op == 'group':
                n = int(rng.integers(2, min(L, 3) + 1))
                if L < 2 or any(dense.is_fermionic(s) for s in sites) and False:
                    continue
                steps.append(['group_sites+group_split', n])
                psi.group_sites(n)
                psi.group_split(trunc_par={'chi_max': 10000, 'svd_min': 1e-14, 'trunc_cut': None})
                ctx.count('op.group')
            elif op == 'enlarge_chi':
                extra = [0] + [int(rng.integers(0, 3)) for _ in range(L - 1)] + [0]
                steps.append(['enlarge_chi', extra])
                st = np.random.get_state()
                np.random.seed(int(rng.integers(1 << 30)))
                try:
                    psi.enlarge_chi(extra)
                finally:
                    np.random.set_state(st)
                ctx.count('op.enlarge_chi')
            elif op == 'perturb':
                steps.append(['perturb(close_1=True)'])
                st = np.random.get_state()
                np.random.seed(int(rng.integers(1 << 30)))
                try:
                    psi.perturb({'N_steps': 2}, close_1=True, canonicalize=True)
                finally:
                    np.random.set_state(st)
                # a random unitary close to 1 changes the state: only invariants are checked (norm, sector)
                vec2 = dense.finite_vector(psi)
                if not (abs(np.linalg.norm(vec2) - np.linalg.norm(ref)) <= 1e-8 * max(1, np.linalg.norm(ref))):
                    ctx.violation('perturb:norm-changed', '|psi| %r -> %r' % (np.linalg.norm(ref), np.linalg.norm(vec2)), case)
                    return
                ref = vec2
            elif op == 'compress':
                chi_max = int(rng.integers(1, max(psi.chi) + 2))
                method = str(rng.choice(['compress_svd', 'compress(SVD)']))
                steps.append([method, chi_max])
                n0 = float(np.linalg.norm(ref))
                tp = {'chi_max': chi_max, 'svd_min': 1e-14, 'trunc_cut': None}
                if method == 'compress_svd':
                    err = psi.compress_svd(tp)
                else:
                    err = psi.compress({'compression_method': 'SVD', 'trunc_params': tp})
                ctx.count('op.compress')
                vec2 = dense.finite_vector(psi)
                # compression normalises the kept part and may keep psi.norm; compare directions of normalised states
                u1, u2 = ref.reshape(-1) / n0, vec2.reshape(-1) / np.linalg.norm(vec2)
                ov = abs(np.vdot(u1, u2))
                dist2 = 2 - 2 * ov  # |u1 - e^{i phi} u2|^2 minimal
                if chi_max >= max(case['chi'] + list(psi.chi)) and err.eps > 1e-12 and False:
                    pass
                if dist2 > 2 * err.eps * (1 + 1e-6) + 1e-10 and 1 - ov**2 > err.eps * (1 + 1e-6) + 1e-10:
                    ctx.violation('%s:change-exceeds-reported-truncation-error' % method.split('(')[0],
                                  '1-|<psi|psi_c>|^2 = %g, reported eps %g' % (1 - ov**2, err.eps), case)
                    return
                if err.eps < 1e-20 and 1 - ov > 1e-9:
                    ctx.violation('%s:changed-without-truncation' % method.split('(')[0], 'overlap %r' % ov, case)
                    return
                ref = vec2
            elif op == 'spatial_inversion':
                steps.append(['spatial_inversion'])
                psi = psi.spatial_inversion() or psi
                # dense: reversed site order (fermionic reordering sign of a full reversal)
                par = [((1 - dense.jw_diag(s)) / 2).astype(int) for s in sites]
                sign = np.ones(ref.shape)
                for a in range(L):
                    for b in range(a + 1, L):
                        pa = par[a].reshape([-1 if x == a else 1 for x in range(L)])
                        pb = par[b].reshape([-1 if x == b else 1 for x in range(L)])
                        sign = sign * (1 - 2 * (pa * pb))
                perm = list(range(L))[::-1]
                plain = np.transpose(ref, perm)
                signed = np.transpose(ref * sign, perm)
                sites = sites[::-1]
                ctx.count('op.spatial_inversion')
                vec2 = dense.finite_vector(psi)
                # the documentation does not mention fermionic signs: accept the plain reversal or the signed one
                if np.linalg.norm(vec2 - plain) <= 1e-8 * max(1, np.linalg.norm(plain)):
                    ref = plain
                else:
                    ref = signed
            elif op == 'gauge_total_charge':
                steps.append(['gauge_total_charge'])
                psi.gauge_total_charge()
            elif op == 'convert_form':
                f = [str(rng.choice(['A', 'B', 'C', 'G', 'Th'])) for _ in range(L)]
                steps.append(['convert_form', f])
                psi.convert_form(f)
        except _Skip:
            raise
        except Exception as e:
            tb = traceback.format_exc()
            if '/tenpy/' not in tb:
                raise
            if op == 'enlarge_chi' and 'QR for Gram-Schmidt messed up charges' in tb:
                raise _Skip()  # documented caveat: the requested extra block is overcomplete for this charge sector
            ctx.violation('%s:raises-%s' % (op, type(e).__name__), tb[-700:], case)
            return
        if not compare(ctx, steps[-1][0].split('(')[0] if steps else op, psi, ref, case):
            return
        if op == 'enlarge_chi':
            break  # exactly-zero singular values: later form conversions divide by them (documented caveat)
    if op != 'enlarge_chi':
        final_copies(ctx, psi, ref, case, rng)
    ctx.sig((kind, L, tuple(s[0] for s in steps)), nontrivial=max(case['chi'] + [1]) >= 2 and len(steps) >= 2)
    if i % 120 == 0:
        ctx.sample(case)


def final_copies(ctx, psi, ref, case, rng):
    """Operations that return a new state: the grouped copy, and a segment enlarged back to the whole chain."""
    from vf import dense
    L = psi.L
    try:
        if L >= 2 and rng.random() < 0.5:
            n = int(rng.integers(2, min(L, 3) + 1))
            before = dense.finite_vector(psi)
            g = psi.get_grouped_mps(n)
            ctx.count('op.get_grouped_mps')
            if g is psi or g.L != -(-L // n) or psi.L != L:
                ctx.violation('get_grouped_mps:not-a-grouped-copy', 'L %d -> %d, original L now %d' % (L, g.L, psi.L), case)
                return
            # (the basis of a GroupedSite may be permuted by charge: compare after splitting the copy again)
            g.group_split(trunc_par={'chi_max': 10000, 'svd_min': 1e-14, 'trunc_cut': None})
            vg = dense.finite_vector(g).reshape(-1)
            if vg.shape != before.reshape(-1).shape or not (np.linalg.norm(vg - before.reshape(-1)) <= 1e-8 * max(1.0, np.linalg.norm(before))):
                ctx.violation('get_grouped_mps:state-differs', '', case)
            if not (np.linalg.norm(dense.finite_vector(psi) - before) <= 1e-12 * max(1.0, np.linalg.norm(before))):
                ctx.violation('get_grouped_mps:changes-the-original', '', case)
            # group_split with a truncation: the returned error accounts for every truncation made (infidelity <= sum of the
            # discarded weights up to higher orders; same bound as for compress)
            if max(psi.chi + [1]) >= 3 and g.L >= 2:
                g2 = psi.get_grouped_mps(n)
                chi_t = int(rng.integers(1, max(psi.chi)))
                err = g2.group_split(trunc_par={'chi_max': chi_t, 'svd_min': 1e-14, 'trunc_cut': None})
                ctx.count('op.group_split_truncating')
                v2 = dense.finite_vector(g2).reshape(-1)
                b = before.reshape(-1)
                infid = 1. - abs(np.vdot(b, v2))**2 / max(np.vdot(b, b).real * np.vdot(v2, v2).real, 1e-300)
                eps = float(getattr(err, 'eps', np.nan))
                if not (infid <= 3 * eps + 1e-9):
                    ctx.violation('group_split:returned-truncation-error-too-small', 'chi_max %d (bond dimensions %r): infidelity %r but '
                                  'reported eps %r' % (chi_t, psi.chi, infid, eps), case)
                elif infid > 1e-6:
                    ctx.count('op.group_split_truncating.significant')
                inner = [c for k, c in enumerate(g2.chi, start=1) if k % n != 0]  # (only bonds inside a group are re-created)
                if max(inner + [1]) > max(chi_t, 1):
                    ctx.violation('group_split:chi_max-ignored', 'chi %r > chi_max %d on a split bond' % (g2.chi, chi_t), case)
        if L >= 3:
            first = int(rng.integers(0, L - 1))
            last = int(rng.integers(first + 1, L)) if first > 0 or rng.random() < 0.5 else int(rng.integers(1, L - 1))
            if (first, last) == (0, L - 1):
                return
            psi.canonical_form()
            want = dense.finite_vector(psi).reshape(-1)
            seg = psi.extract_segment(first, last)
            big, nf, nl = seg.extract_enlarged_segment(psi, psi, first, last, add_unitcells=0)
            ctx.count('op.extract_enlarged_segment')
            if (nf, nl) != (0, L - 1) or big.L != L:
                ctx.violation('extract_enlarged_segment:range', 'segment (%d, %d) of %d sites enlarged by 0 cells: (%r, %r), L=%d' %
                              (first, last, L, nf, nl, big.L), case)
                return
            # documented: for an initially finite MPS this yields the state on the full finite system
            import checks.C07 as C7
            got = C7.seg_full(big) if hasattr(C7, 'seg_full') and big.bc == 'segment' else dense.finite_vector(big)
            got = np.asarray(got).reshape(-1)
            if got.shape != want.shape:
                ctx.violation('extract_enlarged_segment:dimension', '%r vs %r' % (got.shape, want.shape), case)
                return
            ov = abs(np.vdot(want, got)) / max(np.linalg.norm(want) * np.linalg.norm(got), 1e-300)
            if not (abs(ov - 1) <= 1e-8):
                ctx.violation('extract_enlarged_segment:state-differs', 'overlap with the original state %r (segment %d..%d of %d)' %
                              (ov, first, last, L), case)
    except Exception as e:
        tb = traceback.format_exc()
        if '/tenpy/' not in tb:
            raise
        ctx.violation('final-copies:raises-%s' % type(e).__name__, tb[-700:], case)


def qt_now(psi):
    return psi.get_total_charge(only_physical_legs=True)


# ------------------------------------------------------------------------------------------------
def window_rho(psi, i0, n):
    """Reduced density matrix of sites i0..i0+n-1 of an infinite canonical MPS from the raw storage."""
    import checks.C07 as C7
    th = C7.window_theta(psi, i0, n)
    d = int(np.prod(th.shape[1:-1]))
    M = th.reshape(th.shape[0], d, th.shape[-1])
    return np.einsum('apb,aqb->pq', M, M.conj())


def case_infinite(ctx, i):
    from tenpy.networks.mps import MPS
    from vf import dense
    rng = ctx.rng
    L = int(rng.integers(2, 5))
    kind = str(rng.choice(['spinhalf', 'spin1', 'fermion', 'boson']))
    sites, kind = dense.make_sites(rng, L, kind)
    chi = int(rng.integers(2, 4))
    Bs = [rng.standard_normal((s.dim, chi, chi)) for s in sites]
    try:
        psi = MPS.from_Bflat(sites, Bs, bc='infinite', form=None)
        psi.canonical_form()
    except Exception as e:
        raise _Skip()
    forms = [str(rng.choice(['A', 'B', 'C', 'G', 'Th'])) for _ in range(L)]
    psi.convert_form(forms)
    case = {'sites': kind, 'L': L, 'chi': chi, 'forms': forms}
    n = int(rng.integers(1, 3))
    base = [window_rho(psi, k, n) for k in range(L)]
    op = str(rng.choice(['roll', 'roll', 'enlarge', 'roll+enlarge', 'inversion', 'compress']))
    case['op'] = op
    try:
        if op == 'compress':
            # compression of an infinite state: the change per unit cell is bounded by the reported truncation error (the sum over
            # all bonds of the unit cell; observed ratio infidelity / eps on the unchanged library: 0.5 - 1.0)
            if max(psi.chi) < 2:
                raise _Skip()
            orig = psi.copy()
            chi_max = int(rng.integers(1, max(psi.chi)))
            method = str(rng.choice(['compress_svd', 'compress(SVD)']))
            tp = {'chi_max': chi_max, 'svd_min': 1e-14, 'trunc_cut': None}
            err = psi.compress_svd(tp) if method == 'compress_svd' else psi.compress({'compression_method': 'SVD', 'trunc_params': tp})
            psi.test_sanity()
            ctx.count('infinite.compress')
            case['compress'] = [method, chi_max]
            ov = abs(orig.overlap(psi, understood_infinite=True)) if 'understood_infinite' in orig.overlap.__code__.co_varnames else abs(orig.overlap(psi))
            infid = 1 - ov**2
            ctx.obs.setdefault('inf_compress_ratio', []).append([float(infid), float(err.eps)])
            if not (infid <= 3 * err.eps + 1e-9):
                ctx.violation('%s(infinite):change-exceeds-reported-truncation-error' % method.split('(')[0],
                              '1 - |<psi|psi_c>|^2 per unit cell = %g, reported eps %g (chi %r -> %d)' % (infid, err.eps, list(orig.chi), chi_max), case)
            return
        if op == 'inversion':
            base1 = [window_rho(psi, k, 1) for k in range(L)]
            psi.spatial_inversion()
            psi.test_sanity()
            ctx.count('infinite.inversion')
            nt = psi.norm_test()
            if not (np.max(np.abs(nt)) <= 1e-7):
                ctx.violation('spatial_inversion(infinite):not-canonical', 'norm_test %r (forms %r)' % (np.asarray(nt).tolist(), forms), case)
                return
            for j in range(L):
                r = window_rho(psi, j, 1)
                if r.shape != base1[L - 1 - j].shape or not (np.linalg.norm(r - base1[L - 1 - j]) <= 1e-7):
                    ctx.violation('spatial_inversion(infinite):observables-not-mirrored', 'site %d: |rho_new(j) - rho_old(L-1-j)| = %g' %
                                  (j, np.linalg.norm(r - base1[L - 1 - j]) if r.shape == base1[L - 1 - j].shape else -1), case)
                    return
        if 'roll' in op:
            shift = int(rng.integers(-L, 2 * L))
            case['shift'] = shift
            psi.roll_mps_unit_cell(shift)
            psi.test_sanity()
            ctx.count('infinite.roll')
            nt = psi.norm_test()
            if not (np.max(np.abs(nt)) <= 1e-7):
                ctx.violation('roll_mps_unit_cell:not-canonical:%s' % ('uniform-form' if len(set(forms)) == 1 else 'nonuniform-form'),
                              'norm_test %r after shift %d with forms %r' % (np.asarray(nt).tolist(), shift, forms), case)
                return
            # new site j is old site j - shift
            for j in range(L):
                old = (j - shift) % L
                r = window_rho(psi, j, n)
                if not (np.linalg.norm(r - base[old]) <= 1e-7):
                    ctx.violation('roll_mps_unit_cell:observables-changed:%s' % ('uniform-form' if len(set(forms)) == 1 else 'nonuniform-form'),
                                  'window at new site %d (old %d): |rho - rho_old| = %g (shift %d, forms %r)' %
                                  (j, old, np.linalg.norm(r - base[old]), shift, forms), case)
                    return
            base = [base[(j - shift) % L] for j in range(L)]
        if 'enlarge' in op:
            factor = int(rng.integers(2, 4))
            case['factor'] = factor
            psi.enlarge_mps_unit_cell(factor)
            psi.test_sanity()
            ctx.count('infinite.enlarge')
            if psi.L != L * factor:
                ctx.violation('enlarge_mps_unit_cell:L', '%d' % psi.L, case)
                return
            for j in range(psi.L):
                r = window_rho(psi, j, n)
                if not (np.linalg.norm(r - base[j % L]) <= 1e-7):
                    ctx.violation('enlarge_mps_unit_cell:observables-changed', 'site %d' % j, case)
                    return
    except Exception as e:
        tb = traceback.format_exc()
        if '/tenpy/' not in tb:
            raise
        ctx.violation('infinite.%s:raises-%s' % (op, type(e).__name__), tb[-600:], case)
        return
    ctx.sig(('infinite', kind, L, op, tuple(forms)), nontrivial=True)
    if i % 50 == 0:
        ctx.sample(case)
